#!/usr/bin/env python3
"""Print the markdown table `property | rules (instances) | known findings` from the evidence files of the last run."""
import json
import os

VERIF = os.path.dirname(os.path.dirname(os.path.abspath(__file__)))


def main():
    k = json.load(open(os.path.join(VERIF, "known_findings.json")))
    print("| property | rule instances on the tree (from `evidence/*.json`) | obligations / discharged | known findings |")
    print("|---|---|---|---|")
    for i in range(1, 20):
        p = "C%02d" % i
        e = json.load(open(os.path.join(VERIF, "evidence", p + ".json")))
        cov = e["coverage"]
        rules = ", ".join("%s %s" % (r, s.get("instances")) for r, s in sorted(cov["rule_instances"].items()))
        nk = sum(1 for x in k["findings"] if x["property"] == p)
        print("| %s | %s | %s / %s | %d |" % (p, rules, cov["obligations"], cov["discharged"], nk))


if __name__ == "__main__":
    main()
