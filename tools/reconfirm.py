#!/usr/bin/env python3
"""Re-confirm filed seeds against /repo HEAD (after a port or after fix commits).

usage: tools/reconfirm.py <seed id> ...
For each seeded/<id>: scratch worktree of HEAD; the demonstration (demo.rs at meta.demo_location) must pass on the clean
tree and fail with patch.diff applied; with the patch and without the demonstration the pinned suite must pass (603).
Writes meta.reconfirmed = {head, demo_clean_passes, demo_patched_fails, suite_passed, ok}.
"""
import json
import os
import re
import shutil
import subprocess
import sys
import tempfile

VERIF = os.path.dirname(os.path.dirname(os.path.abspath(__file__)))
PKG = {"xpath": "xml-xpath", "info": "xml-info", "dom": "xml-dom", "parser": "xml-parser", "nom": "xml-nom"}


def sh(cmd, cwd, env, timeout=2400):
    e = dict(os.environ)
    e.update({"CARGO_NET_OFFLINE": "true", "RUSTFLAGS": "-Awarnings"})
    e.update(env)
    try:
        p = subprocess.run(cmd, cwd=cwd, env=e, capture_output=True, text=True, timeout=timeout)
        return p.returncode, p.stdout + p.stderr
    except subprocess.TimeoutExpired:
        return 124, "TIMEOUT"


def one(seed, target):
    d = os.path.join(VERIF, "seeded", seed)
    meta = json.load(open(os.path.join(d, "meta.json")))
    rel = meta["demo_location"]
    pkg = PKG[rel.split(os.sep)[0]]
    test = os.path.basename(rel)[:-3]
    base = tempfile.mkdtemp(prefix="xmlrs-reconf-")
    wt = os.path.join(base, "repo")
    env = {"CARGO_TARGET_DIR": target}
    try:
        subprocess.run(["git", "-C", "/repo", "worktree", "add", "-q", "--detach", wt, "HEAD"], check=True)
        os.makedirs(os.path.dirname(os.path.join(wt, rel)), exist_ok=True)
        shutil.copy(os.path.join(d, "demo.rs"), os.path.join(wt, rel))
        cmd = ["timeout", "600", "cargo", "test", "--offline", "-p", pkg, "--test", test]
        rc0, _ = sh(cmd, wt, env)
        a = subprocess.run(["git", "-C", wt, "apply", os.path.join(d, "patch.diff")], capture_output=True, text=True)
        if a.returncode != 0:
            r = {"ok": False, "why": "patch does not apply"}
        else:
            rc1, out1 = sh(cmd, wt, env)
            os.rename(os.path.join(wt, rel), os.path.join(base, "demo.aside"))
            rc2, out2 = sh(["cargo", "test", "--offline", "--workspace", "--no-fail-fast"], wt, env)
            res = re.findall(r"^test result: (\w+)\. (\d+) passed; (\d+) failed", out2, re.M)
            passed = sum(int(x[1]) for x in res)
            failed = sum(int(x[2]) for x in res)
            r = {"demo_clean_passes": rc0 == 0, "demo_patched_fails": rc1 != 0, "suite_passed": passed, "suite_failed": failed,
                 "ok": rc0 == 0 and rc1 != 0 and rc2 == 0 and passed == 603 and failed == 0}
        r["head"] = subprocess.run(["git", "-C", "/repo", "rev-parse", "--short", "HEAD"], capture_output=True, text=True).stdout.strip()
        meta["reconfirmed"] = r
        if "confirmed_after_port" in meta:
            meta["confirmed_after_port"] = r["ok"]
        json.dump(meta, open(os.path.join(d, "meta.json"), "w"), indent=1)
        print(seed, "OK" if r["ok"] else "NOT-OK %s" % r, flush=True)
    finally:
        subprocess.run(["git", "-C", "/repo", "worktree", "remove", "--force", wt], capture_output=True)
        shutil.rmtree(base, ignore_errors=True)


if __name__ == "__main__":
    tgt = tempfile.mkdtemp(prefix="xmlrs-reconf-tgt-")
    try:
        for s in sys.argv[1:]:
            one(s, tgt)
    finally:
        shutil.rmtree(tgt, ignore_errors=True)
        subprocess.run(["git", "-C", "/repo", "worktree", "prune"], capture_output=True)
