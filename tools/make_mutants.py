#!/usr/bin/env python3
"""Generate the sensitivity-run patch catalogue /verif/mutants/*.patch from (file, old, new) edits.

Each edit breaks exactly one rule instance; all are meant to compile (most also pass the pinned
suite; that is not required for a sensitivity run of the checker).  Run from anywhere:
    tools/make_mutants.py            (re)generates the patches against /repo HEAD
"""
import os
import subprocess
import sys
import tempfile

VERIF = os.path.dirname(os.path.dirname(os.path.abspath(__file__)))
OUT = os.path.join(VERIF, "mutants")

M = [
    # id, name, file, old, new, expected reporters
    ("C01", "drop-comment-child", "info/src/lib.rs",
     "                        let comment = XmlComment::node(v.value, element_id, context);\n                        element.borrow_mut().push_child(comment);",
     "                        let _comment = XmlComment::node(v.value, element_id, context);", "R01-3"),
    ("C01", "idref-before-idrefs", "parser/src/lib.rs",
     "        map(tag(\"IDREFS\"), |_| model::DeclarationAttType::IdRefs), // [56] TokenizedType\n        map(tag(\"IDREF\"), |_| model::DeclarationAttType::IdRef), // [56] TokenizedType",
     "        map(tag(\"IDREF\"), |_| model::DeclarationAttType::IdRef), // [56] TokenizedType\n        map(tag(\"IDREFS\"), |_| model::DeclarationAttType::IdRefs), // [56] TokenizedType", "R01-2"),
    ("C01", "chardata-loses-amp", "parser/src/lib.rs",
     "helper::take_until(xmlchar::char_except0(\"<&\"), \"]]>\")(input)", "helper::take_until(xmlchar::char_except0(\"<\"), \"]]>\")(input)", "R01-1"),
    ("C02", "rest-not-tested-element-empty", "info/src/lib.rs",
     "        let (rest, tree) = xml_parser::element(xml.as_str())?;\n        if rest.is_empty() && tree.attributes.is_empty() && !has_white_space(name) {",
     "        let (_rest, tree) = xml_parser::element(xml.as_str())?;\n        if tree.attributes.is_empty() && !has_white_space(name) {", "R02-1"),
    ("C02", "attvalue-allows-lt", "parser/src/lib.rs",
     "map(xmlchar::char_except1(\"<&\\\"\"), model::AttributeValue::from),", "map(xmlchar::char_except1(\"&\\\"\"), model::AttributeValue::from),", "R01-1"),
    ("C02", "comment-allows-double-dash", "parser/src/lib.rs",
     "recognize(many0(tuple((opt(tag(\"-\")), xmlchar::char_except1(\"-\"))))),", "recognize(many0(tuple((opt(tag(\"-\")), xmlchar::char_except1(\"\"))))),", "R01-1"),
    ("C02", "etag-not-compared", "parser/src/lib.rs",
     "verify(tuple((stag, content, etag)), |(s, _, e)| s.name == *e),", "verify(tuple((stag, content, etag)), |(s, _, e)| std::mem::discriminant(&s.name) == std::mem::discriminant(e)),", "R02-2"),
    ("C03", "unwrap-in-display", "info/src/lib.rs",
     "        write!(f, \"<!--{}-->\", self.comment.as_str())\n    }\n}\n\nimpl XmlComment {",
     "        write!(f, \"<!--{}-->\", self.comment.as_str().get(0..).unwrap())\n    }\n}\n\nimpl XmlComment {", "R03-1"),
    ("C03", "duplicate-element-alt", "parser/src/lib.rs",
     "                    map(element, model::Contents::from),\n                    map(reference, model::Contents::from),",
     "                    map(element, model::Contents::from),\n                    map(element, model::Contents::from),\n                    map(reference, model::Contents::from),", "R03-2"),
    ("C04", "notation-prints-nothing", "info/src/lib.rs",
     "        write!(f, \"<!NOTATION {}\", self.name.as_str())?;", "        let _ = self.name.as_str();\n        return Ok(());\n        #[allow(unreachable_code)]\n        write!(f, \"<!NOTATION {}\", self.name.as_str())?;", None),
    ("C04", "escape-always-double", "info/src/lib.rs",
     "    if value.contains(\"\\\"\") {\n        format!(\"'{}'\", value)", "    if value.contains(\"'\") {\n        format!(\"'{}'\", value)", "R04-2q"),
    ("C04", "comment-eq-ignores-text", "info/src/lib.rs",
     "        self.comment == other.comment\n", "        self.comment.len() == other.comment.len()\n", "R04-3"),
    ("C04", "pi-template-missing-space", "info/src/lib.rs",
     "            write!(f, \" {}?>\", content)", "            write!(f, \"{}?>\", content)", "R04-2"),
    ("C05", "swap-following-preceding", "xpath/src/eval/mod.rs",
     "            expr::AxisName::Following => following(node),", "            expr::AxisName::Following => preceding(node),", "C05-axis"),
    ("C05", "drop-reverse", "xpath/src/eval/mod.rs",
     "                nodes.sort_by_cached_key(|v| v.order());\n                nodes.reverse();", "                nodes.sort_by_cached_key(|v| v.order());", "C05-reverse"),
    ("C05", "position-off-by-one", "xpath/src/eval/mod.rs",
     "        context.push_position(position + 1);", "        context.push_position(position);", "C05-frames"),
    ("C05", "following-sibling-uses-previous", "xpath/src/eval/mod.rs",
     "    let mut next = node.next_sibling();\n    while let Some(n) = next {\n        nodes.push(n.clone());\n        next = n.next_sibling();",
     "    let mut next = node.next_sibling();\n    while let Some(n) = next {\n        nodes.push(n.clone());\n        next = n.previous_sibling();", "C05-shape"),
    ("C06", "unwrap-ns-uri", "xpath/src/eval/mod.rs",
     "                    .ok_or_else(|| error::Error::NotFoundNamespace(prefix.to_string()))?;", "                    .unwrap();", "R06-1"),
    ("C06", "arity-starts-with", "xpath/src/eval/func.rs",
     "            local_part: \"starts-with\".to_string(),\n            namespace_uri: None,\n            args: (2..2),", "            local_part: \"starts-with\".to_string(),\n            namespace_uri: None,\n            args: (1..2),", "R06-1"),
    ("C06", "pi-order-constant", "dom/src/lib.rs",
     "            XmlNode::PI(v) => v.pi.borrow().order(),", "            XmlNode::PI(_) => 0,", "R06-3"),
    ("C07", "drop-retain-in-union", "xpath/src/eval/mod.rs",
     "    nodes.sort_by_cached_key(|v| v.order());\n    let mut set = HashSet::new();\n    nodes.retain(|v| set.insert(v.order()));\n\n    Ok(nodes.as_value())",
     "    nodes.sort_by_cached_key(|v| v.order());\n\n    Ok(nodes.as_value())", "R07-1"),
    ("C07", "drop-sort-in-filtered-loc", "xpath/src/eval/mod.rs",
     "    collected.sort_by_cached_key(|v| v.order());\n\n    Ok(collected)", "    Ok(collected)", "R07-1"),
    ("C07", "sort-by-id", "xpath/src/eval/mod.rs",
     "    collected.sort_by_cached_key(|v| v.order());\n\n    Ok(collected)", "    collected.sort_by_cached_key(|v| v.id());\n\n    Ok(collected)", "R07-1"),
    ("C08", "slash-before-double-slash", "xpath/src/expr/mod.rs",
     "                        alt((tag(\"//\"), tag(\"/\"))),\n                        model::LocationPathOperator::from,\n                    ),\n                    multispace0,\n                ),\n                step,",
     "                        alt((tag(\"/\"), tag(\"//\"))),\n                        model::LocationPathOperator::from,\n                    ),\n                    multispace0,\n                ),\n                step,", "R01-2"),
    ("C08", "no-space-in-function-call", "xpath/src/expr/mod.rs",
     "                tuple((multispace0, char('('), multispace0)),\n                separated_list0(", "                tuple((char('('), multispace0)),\n                separated_list0(", "R08-1"),
    ("C08", "at-means-child", "xpath/src/eval/mod.rs",
     "            \"@\" => attributes(node),", "            \"@\" => child(node),", "R08-3"),
    ("C08", "le-maps-to-ge", "xpath/src/expr/model.rs",
     "\"<=\" => RelationalOperator::LessEqual,", "\"<=\" => RelationalOperator::GreaterEqual,", "R08-5"),
    ("C08", "and-also-separated-by-or", "xpath/src/expr/mod.rs",
     "        separated_list1(tuple((multispace0, tag(\"and\"), multispace0)), equality_expr),", "        separated_list1(tuple((multispace0, alt((tag(\"and\"), tag(\"or\"))), multispace0)), equality_expr),", "R08-1"),
    ("C09", "substring-arity", "xpath/src/eval/func.rs",
     "            local_part: \"substring\".to_string(),\n            namespace_uri: None,\n            args: (2..3),", "            local_part: \"substring\".to_string(),\n            namespace_uri: None,\n            args: (2..2),", "R09-1"),
    ("C09", "ceiling-calls-floor", "xpath/src/eval/func.rs",
     "    Ok(model::Value::Number(arg.ceil()))", "    Ok(model::Value::Number(arg.floor()))", "R09-2b"),
    ("C09", "equal-number-before-bool", "xpath/src/eval/mod.rs",
     "    } else if a.is_bool() || b.is_bool() {\n        Ok(a == &bool::try_from(b)?)\n    } else if a.is_number() || b.is_number() {\n        Ok(a == &f64::try_from(b)?)",
     "    } else if a.is_number() || b.is_number() {\n        Ok(a == &f64::try_from(b)?)\n    } else if a.is_bool() || b.is_bool() {\n        Ok(a == &bool::try_from(b)?)", "R09-3"),
    ("C09", "ge-node-swapped", "xpath/src/eval/mod.rs",
     "            model::Value::Node(nodes) => less_eq_node(b, nodes),\n            _ => Ok(f64::try_from(a)? >= f64::try_from(b)?),", "            model::Value::Node(nodes) => greater_eq_node(b, nodes),\n            _ => Ok(f64::try_from(a)? >= f64::try_from(b)?),", "R09-3"),
    ("C10", "no-implicit-xml", "info/src/lib.rs",
     "                {\n                    items.push(implicity);\n                }", "                {\n                    let _ = implicity;\n                }", "C10-3"),
    ("C10", "keep-empty-namespaces", "info/src/lib.rs",
     "        items.retain(|v| !v.borrow().namespace_name().is_empty());\n", "", "C10-3"),
    ("C11", "normalize-ws-loses-lf", "info/src/lib.rs",
     "        v = v.replace(char::from_u32_unchecked(0x0A), \" \");\n", "", "C11-2"),
    ("C11", "collapse-cdata-too", "info/src/lib.rs",
     "                XmlDeclarationAttType::CData => {}\n                _ => {\n                    normalized = normalized", "                XmlDeclarationAttType::Id => {}\n                _ => {\n                    normalized = normalized", "C11-3"),
    ("C11", "charref-through-normalize", "info/src/lib.rs",
     "                    normalized.push_str(v.as_char_reference().unwrap().borrow().character_code())", "                    normalized.push_str(normalize_ws(v.as_char_reference().unwrap().borrow().character_code()).as_str())", "C11-1"),
    ("C12", "delete-keeps-parent", "info/src/lib.rs",
     "            let value = self.children.borrow_mut().remove(index);\n            value.set_parent_id(None);\n            Some(value)\n        } else {\n            None\n        }\n    }\n\n    fn last_child_or_self_id(&self) -> usize {\n        if let Some(last) = self.children.borrow().iter().last() {\n            last.id()\n        } else {\n            self.id()\n        }\n    }\n\n    fn insert_by_id(&self, value: Rc<XmlItem>, id: Option<usize>) -> error::Result<Rc<XmlItem>> {\n        if value.id()",
     "            let value = self.children.borrow_mut().remove(index);\n            Some(value)\n        } else {\n            None\n        }\n    }\n\n    fn last_child_or_self_id(&self) -> usize {\n        if let Some(last) = self.children.borrow().iter().last() {\n            last.id()\n        } else {\n            self.id()\n        }\n    }\n\n    fn insert_by_id(&self, value: Rc<XmlItem>, id: Option<usize>) -> error::Result<Rc<XmlItem>> {\n        if value.id()", "R12-1"),
    ("C12", "insert-keeps-old-parent", "info/src/lib.rs",
     "            | XmlItem::Unexpanded(_) => {\n                value.remove_from_parent();\n", "            | XmlItem::Unexpanded(_) => {\n", "R12-1"),
    ("C12", "no-ancestor-test", "info/src/lib.rs",
     "        if value.id() == self.id() || self.ancestor(value.id()) {", "        if value.id() == self.id() {", "R12-1"),
    ("C13", "oufofindex-maps-to-hierarchy", "dom/src/lib.rs",
     "                .element\n                .borrow()\n                .insert_before(new_child.try_into()?, r.id())\n            {\n                Ok(v) => Ok(v),\n                Err(xml_info::error::Error::OufOfIndex(_)) => Err(error::DomException::NotFoundErr),",
     "                .element\n                .borrow()\n                .insert_before(new_child.try_into()?, r.id())\n            {\n                Ok(v) => Ok(v),\n                Err(xml_info::error::Error::OufOfIndex(_)) => Err(error::DomException::HierarchyRequestErr),", "R13-3"),
    ("C13", "wrong-doc-test-after-delete", "dom/src/lib.rs",
     "    fn remove_child(&self, old_child: &XmlNode) -> error::Result<XmlNode> {\n        if !same_document(&Some(self.clone()), &old_child.owner_document()) {\n            return Err(error::DomException::WrongDocumentErr)?;\n        }\n\n        match self.document.borrow().delete(old_child.id()) {\n            Some(v) => Ok(XmlNode::from(v)),\n            _ => Err(error::DomException::NotFoundErr)?,\n        }",
     "    fn remove_child(&self, old_child: &XmlNode) -> error::Result<XmlNode> {\n        let removed = self.document.borrow().delete(old_child.id());\n        if !same_document(&Some(self.clone()), &old_child.owner_document()) {\n            return Err(error::DomException::WrongDocumentErr)?;\n        }\n\n        match removed {\n            Some(v) => Ok(XmlNode::from(v)),\n            _ => Err(error::DomException::NotFoundErr)?,\n        }", "R13-2"),
    ("C14", "insert-after-index-minus-one", "info/src/lib.rs",
     "            self.order.insert(order, Rc::downgrade(info));", "            self.order.insert(order - 1, Rc::downgrade(info));", "C14-4"),
    ("C14", "delete-keeps-order", "info/src/lib.rs",
     "        if let Some(v) = self.delete_by_id(id) {\n            v.clear_order();\n            Some(v)", "        if let Some(v) = self.delete_by_id(id) {\n            Some(v)", "C14-1"),
    ("C14", "children-before-attributes", "info/src/lib.rs",
     "        for child in self.namespace_attributes().iter() {\n            child.borrow().init_order_recursive();\n        }\n\n        for child in self.attributes_specified().iter() {\n            child.borrow().init_order_recursive();\n        }\n\n        for child in self.children.borrow().as_slice() {\n            child.init_order_recursive();\n        }",
     "        for child in self.children.borrow().as_slice() {\n            child.init_order_recursive();\n        }\n\n        for child in self.namespace_attributes().iter() {\n            child.borrow().init_order_recursive();\n        }\n\n        for child in self.attributes_specified().iter() {\n            child.borrow().init_order_recursive();\n        }", "C14-5"),
    ("C15", "comment-check-always-true", "info/src/lib.rs",
     "        let (rest, _) = xml_parser::comment(new.as_str())?;\n        Ok(rest.is_empty())", "        let (_rest, _) = xml_parser::comment(new.as_str())?;\n        Ok(true)", "R15-1"),
    ("C15", "set-content-stores-argument", "info/src/lib.rs",
     "            self.content = tree.value.map(|v| v.to_string());\n            Ok(())", "            let _ = tree;\n            self.content = Some(content.to_string());\n            Ok(())", "R15-1"),
    ("C15", "insert-validates-fragment-only", "info/src/lib.rs",
     "    if check(inserted.as_str())? {\n        Ok(inserted)", "    if check(new)? {\n        Ok(inserted)", "R15-1"),
    ("C16", "guard-le", "dom/src/lib.rs",
     "    fn insert_data(&self, offset: usize, arg: &str) -> error::Result<()> {\n        if self.length() < offset {\n            Err(error::DomException::IndexSizeErr)?\n        } else {\n            self.data.borrow_mut().insert(offset, arg)?;\n            Ok(())\n        }\n    }\n\n    fn delete_data(&self, offset: usize, count: usize) -> error::Result<()> {\n        if self.length() < offset {\n            Err(error::DomException::IndexSizeErr)?\n        } else {\n            self.data.borrow_mut().delete(offset, count)?;\n            Ok(())\n        }\n    }\n}\n\nimpl Node for XmlText {",
     "    fn insert_data(&self, offset: usize, arg: &str) -> error::Result<()> {\n        if self.length() <= offset {\n            Err(error::DomException::IndexSizeErr)?\n        } else {\n            self.data.borrow_mut().insert(offset, arg)?;\n            Ok(())\n        }\n    }\n\n    fn delete_data(&self, offset: usize, count: usize) -> error::Result<()> {\n        if self.length() < offset {\n            Err(error::DomException::IndexSizeErr)?\n        } else {\n            self.data.borrow_mut().delete(offset, count)?;\n            Ok(())\n        }\n    }\n}\n\nimpl Node for XmlText {", "C16-2"),
    ("C16", "len-in-bytes", "info/src/lib.rs",
     "    pub fn len(&self) -> usize {\n        self.text.chars().count()\n    }", "    pub fn len(&self) -> usize {\n        self.text.len()\n    }", "C16-1"),
    ("C16", "delete-guard-with-count", "dom/src/lib.rs",
     "    fn delete_data(&self, offset: usize, count: usize) -> error::Result<()> {\n        if self.length() < offset {\n            Err(error::DomException::IndexSizeErr)?\n        } else {\n            self.data.borrow_mut().delete(offset, count)?;\n            Ok(())\n        }\n    }\n}\n\nimpl Node for XmlComment {",
     "    fn delete_data(&self, offset: usize, count: usize) -> error::Result<()> {\n        if self.length() < offset.saturating_add(count) {\n            Err(error::DomException::IndexSizeErr)?\n        } else {\n            self.data.borrow_mut().delete(offset, count)?;\n            Ok(())\n        }\n    }\n}\n\nimpl Node for XmlComment {", "C16-2"),
    ("C17", "xq-rest-not-tested", "xpath/examples/xq.rs",
     "    if !rest.is_empty() {\n        return Err(\"invalid format XML\".into());\n    }\n", "    let _ = rest;\n", "C17-1"),
    ("C17", "xe-drops-replace-result", "xpath/examples/xe.rs",
     "                replace(node, arg.value.as_str(), &dom)?;", "                let _ = replace(node, arg.value.as_str(), &dom);", "C17-3"),
    ("C18", "char-range-d7ef", "nom/src/xmlchar.rs",
     "        0x000020..=0x00D7FF |\n        0x00E000..=0x00FFFD |", "        0x000020..=0x00D7EF |\n        0x00E000..=0x00FFFD |", "R18-1"),
    ("C18", "underscore-not-name-start", "nom/src/xmlchar.rs",
     "        || value == '_'\n        || value.is_ascii_lowercase()\n        || matches!(", "        || value.is_ascii_lowercase()\n        || matches!(", "R18-1"),
    ("C18", "quote-is-pubid-char", "nom/src/xmlchar.rs",
     "        || value == '%'\n}", "        || value == '%'\n        || value == '\"'\n}", "R18-1"),
    ("C19", "pop-position-dropped", "xpath/src/eval/mod.rs",
     "        let keep = eval_predicate(predicate, n.clone(), context);\n        context.pop_position();", "        let keep = eval_predicate(predicate, n.clone(), context);", "R19-1"),
    ("C19", "getter-mutates", "info/src/lib.rs",
     "    fn children(&self) -> OrderedList<Rc<XmlItem>> {\n        let mut items = vec![];\n        for item in self.children.borrow().iter() {\n            items.push(item.clone());\n        }\n        OrderedList::new(items)\n    }\n\n    fn document_element",
     "    fn children(&self) -> OrderedList<Rc<XmlItem>> {\n        let mut items = vec![];\n        for item in self.children.borrow_mut().drain(..) {\n            items.push(item.clone());\n        }\n        *self.children.borrow_mut() = items.clone();\n        OrderedList::new(items)\n    }\n\n    fn document_element", "R19-2"),
    ("C19", "hashset-iteration-in-union", "xpath/src/eval/mod.rs",
     "    let mut set = HashSet::new();\n    nodes.retain(|v| set.insert(v.order()));\n\n    Ok(nodes.as_value())\n}",
     "    let mut set = HashSet::new();\n    nodes.retain(|v| set.insert(v.order()));\n    let first = set.iter().next().copied().unwrap_or_default();\n    nodes.retain(|v| v.order() != 0 || first != usize::MAX);\n\n    Ok(nodes.as_value())\n}", "R19-3"),
]


def main():
    os.makedirs(OUT, exist_ok=True)
    for f in os.listdir(OUT):
        if f.endswith(".patch"):
            os.remove(os.path.join(OUT, f))
    base = tempfile.mkdtemp(prefix="mkmut-", dir="/tmp")
    wt = os.path.join(base, "repo")
    subprocess.run(["git", "-C", "/repo", "worktree", "add", "-q", "--detach", wt, "HEAD"], check=True)
    n_ok = 0
    try:
        for pid, name, path, old, new, expect in M:
            if old == new:
                continue
            full = os.path.join(wt, path)
            src = open(full).read()
            if src.count(old) != 1:
                print("SKIP %s-%s: anchor occurs %d times in %s" % (pid, name, src.count(old), path))
                continue
            open(full, "w").write(src.replace(old, new))
            d = subprocess.run(["git", "-C", wt, "diff"], capture_output=True, text=True).stdout
            subprocess.run(["git", "-C", wt, "checkout", "--", "."], check=True)
            with open(os.path.join(OUT, "%s-%s.patch" % (pid, name)), "w") as fh:
                fh.write("# expected reporter: %s\n" % (expect or "(see catalogue)"))
                fh.write(d)
            n_ok += 1
    finally:
        subprocess.run(["git", "-C", "/repo", "worktree", "remove", "--force", wt], capture_output=True)
        subprocess.run(["git", "-C", "/repo", "worktree", "prune"], capture_output=True)
    print("%d patches written to %s" % (n_ok, OUT))


if __name__ == "__main__":
    main()
