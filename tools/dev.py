#!/usr/bin/env python3
"""Development loop for the rules: extract the facts of a patched copy of /repo once, then evaluate checks against the
stored facts as often as needed.

usage: tools/dev.py facts <name> [patch]      extract (clean tree when no patch) -> $TMPDIR/xmlrs-dev/<name>.json
       tools/dev.py run <name> C05 C07 ...    evaluate the checks on the stored facts (no evidence written)
Never used by a registered check: those always extract from /repo's working tree.
"""
import json
import os
import shutil
import subprocess
import sys
import tempfile

VERIF = os.path.dirname(os.path.dirname(os.path.abspath(__file__)))
sys.path.insert(0, os.path.join(VERIF, "engine", "py"))
sys.path.insert(0, os.path.join(VERIF, "spec"))
STORE = os.path.join(tempfile.gettempdir(), "xmlrs-dev")


def do_facts(name, patch=None):
    import facts as F
    os.makedirs(STORE, exist_ok=True)
    base = tempfile.mkdtemp(prefix="xmlrs-devwt-")
    wt = os.path.join(base, "repo")
    try:
        subprocess.run(["rsync", "-a", "--exclude", "target", "--exclude", ".git", "/repo/", wt + "/"], check=True)
        if patch:
            a = subprocess.run(["patch", "-p1", "-s", "-i", os.path.abspath(patch)], cwd=wt, capture_output=True, text=True)
            if a.returncode != 0:
                print("patch does not apply", a.stdout, a.stderr)
                return 1
        outdir = os.path.join(base, "facts")
        os.makedirs(outdir)
        p = F.run_driver(wt, outdir, ["--workspace", "--lib", "--examples"], os.path.join(base, "tgt"))
        if p.returncode != 0:
            print(p.stderr[-3000:])
            return 1
        units = {}
        for n in sorted(os.listdir(outdir)):
            if n.endswith(".json"):
                units[n[:-5]] = json.load(open(os.path.join(outdir, n)))
        json.dump(units, open(os.path.join(STORE, name + ".json"), "w"))
        print("stored", name, sorted(units))
        return 0
    finally:
        shutil.rmtree(base, ignore_errors=True)


def load(name):
    import facts as F
    return F.Facts(json.load(open(os.path.join(STORE, name + ".json"))))


def do_run(name, props):
    import facts as F
    import runner
    facts = load(name)
    rc = 0
    for prop in props:
        try:
            mod, res, viol, n_known, lines = runner.evaluate(prop, facts, "quick")
        except F.BrokenCheck as b:
            print("%s BROKEN %s" % (prop, b))
            rc = 3
            continue
        for f in viol:
            print("%s VIOLATION %s %s  %s:%s  %s" % (prop, f.rule, f.key, f.file, f.line, f.msg[:200]))
            rc = rc or 1
        print("%s: %d obligations, %d known, %d violations" % (prop, res.obligations, n_known, len(viol)))
    return rc


if __name__ == "__main__":
    if sys.argv[1] == "facts":
        sys.exit(do_facts(*sys.argv[2:4]))
    sys.exit(do_run(sys.argv[2], [p.upper() for p in sys.argv[3:]]))
