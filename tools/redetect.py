#!/usr/bin/env python3
"""Re-run every check against every seeded change (one fact extraction per change) and record the verdicts.

usage: tools/redetect.py [--jobs N] [ids...]
For each /verif/seeded/<id>/patch.diff and /verif/mutants/<id>.patch:
  - a scratch git worktree of /repo HEAD is created under $TMPDIR and removed afterwards;
  - the patch is applied (plain, then --3way: the fix commits made after a seed was written move its context);
    when only --3way succeeds the rebased diff replaces patch.diff (meta.json records the commit it was rebased on);
  - facts are extracted once and all 19 property modules are run over them.
Writes detected_by / detected_by_own_property into seeded/<id>/meta.json and a summary to mutants/RESULTS.json.
"""
import concurrent.futures
import glob
import json
import os
import re
import shutil
import subprocess
import sys
import tempfile
import traceback

VERIF = os.path.dirname(os.path.dirname(os.path.abspath(__file__)))
ALL = ["C%02d" % i for i in range(1, 20)]

WORKER = r'''
import sys, json
sys.path.insert(0, %(py)r); sys.path.insert(0, %(spec)r)
import facts as F, runner
out = {}
try:
    facts = F.extract(%(wt)r)
except F.BrokenCheck as b:
    print(json.dumps({"_broken": str(b)[:400]})); sys.exit(0)
for p in %(props)r:
    try:
        mod, res, viol, n_known, lines = runner.evaluate(p, facts, "quick")
        out[p] = {"rc": 1 if viol else 0, "reported": ["%%s %%s" %% (f.rule, f.key) for f in viol][:6]}
    except F.BrokenCheck as b:
        out[p] = {"rc": 3, "broken": str(b)[:300]}
    except Exception as e:
        out[p] = {"rc": 3, "broken": "exception %%r" %% (e,)}
print(json.dumps(out))
'''


def one(item):
    name, patch, seeded = item
    base = tempfile.mkdtemp(prefix="xmlrs-redet-")
    wt = os.path.join(base, "repo")
    r = {"id": name, "property": name.split("-")[0], "origin": "independent" if seeded else "catalogue"}
    try:
        subprocess.run(["git", "-C", "/repo", "worktree", "add", "-q", "--detach", wt, "HEAD"], check=True, capture_output=True)
        a = subprocess.run(["git", "-C", wt, "apply", patch], capture_output=True, text=True)
        if a.returncode != 0:
            a3 = subprocess.run(["git", "-C", wt, "apply", "--3way", patch], capture_output=True, text=True)
            conflict = subprocess.run(["git", "-C", wt, "diff", "--name-only", "--diff-filter=U"], capture_output=True, text=True).stdout.strip()
            if a3.returncode != 0 or conflict:
                r["status"] = "does-not-apply"
                r["detail"] = (a.stderr + a3.stderr)[-300:]
                return r
            d = subprocess.run(["git", "-C", wt, "diff", "HEAD"], capture_output=True, text=True).stdout
            subprocess.run(["git", "-C", wt, "reset", "-q"], capture_output=True)
            if seeded and d.strip():
                head = subprocess.run(["git", "-C", "/repo", "rev-parse", "--short", "HEAD"], capture_output=True, text=True).stdout.strip()
                shutil.copy(patch, patch + ".orig") if not os.path.exists(patch + ".orig") else None
                with open(patch, "w") as f:
                    f.write(d)
                r["rebased_on"] = head
        code = WORKER % {"py": os.path.join(VERIF, "engine", "py"), "spec": os.path.join(VERIF, "spec"), "wt": wt, "props": ALL}
        p = subprocess.run([sys.executable, "-c", code], capture_output=True, text=True, cwd=VERIF)
        try:
            out = json.loads(p.stdout.strip().splitlines()[-1])
        except Exception:
            r["status"] = "worker-failed"
            r["detail"] = (p.stdout + p.stderr)[-400:]
            return r
        if "_broken" in out:
            r["status"] = "does-not-compile"
            r["detail"] = out["_broken"]
            return r
        r["status"] = "analysed"
        r["detected_by"] = {k: v for k, v in out.items() if v["rc"] != 0}
        own = out.get(r["property"], {})
        r["own"] = "detected" if own.get("rc") == 1 else ("broken" if own.get("rc") == 3 else "MISSED")
        r["own_reported"] = own.get("reported", [])
        return r
    except Exception:
        r["status"] = "error"
        r["detail"] = traceback.format_exc()[-400:]
        return r
    finally:
        subprocess.run(["git", "-C", "/repo", "worktree", "remove", "--force", wt], capture_output=True)
        shutil.rmtree(base, ignore_errors=True)


def main():
    args = sys.argv[1:]
    jobs = 8
    if "--jobs" in args:
        i = args.index("--jobs")
        jobs = int(args[i + 1])
        del args[i:i + 2]
    items = []
    for p in sorted(glob.glob(os.path.join(VERIF, "mutants", "*.patch"))):
        items.append((os.path.basename(p)[:-6], p, False))
    for p in sorted(glob.glob(os.path.join(VERIF, "seeded", "*", "patch.diff"))):
        items.append((os.path.basename(os.path.dirname(p)), p, True))
    if args:
        items = [it for it in items if any(it[0].startswith(a) for a in args)]
    results = []
    with concurrent.futures.ThreadPoolExecutor(max_workers=jobs) as ex:
        for r in ex.map(one, items):
            results.append(r)
            others = sorted(k for k in r.get("detected_by", {}) if k != r["property"])
            print("%-40s %-12s %-9s %s %s" % (r["id"], r["status"], r.get("own", "-"), "; ".join(r.get("own_reported", []))[:110],
                                              ("(+ " + ",".join(others) + ")") if others else ""), flush=True)
            if r["origin"] == "independent" and r["status"] == "analysed":
                mp = os.path.join(VERIF, "seeded", r["id"], "meta.json")
                if os.path.exists(mp):
                    m = json.load(open(mp))
                    m["detected_by"] = r["detected_by"]
                    m["detected_by_own_property"] = r["own"] == "detected"
                    if r.get("rebased_on"):
                        m["patch_rebased_on"] = r["rebased_on"]
                    json.dump(m, open(mp, "w"), indent=1)
    subprocess.run(["git", "-C", "/repo", "worktree", "prune"], capture_output=True)
    an = [r for r in results if r["status"] == "analysed"]
    det = [r for r in an if r["own"] == "detected"]
    print("analysed %d / %d, detected by own property %d" % (len(an), len(results), len(det)))
    rp = os.path.join(VERIF, "mutants", "RESULTS.json")
    if args and os.path.exists(rp):
        # a partial run replaces / adds its rows in the stored table (rows of the other changes keep the verdicts of the last full run)
        old = json.load(open(rp))
        by = {r["id"]: r for r in old["results"]}
        for r in results:
            by[r["id"]] = r
        results = sorted(by.values(), key=lambda r: (r["origin"] != "catalogue", r["id"]))
        an = [r for r in results if r["status"] == "analysed"]
        det = [r for r in an if r["own"] == "detected"]
        args = []
    if not args:
        head = subprocess.run(["git", "-C", "/repo", "rev-parse", "--short", "HEAD"], capture_output=True, text=True).stdout.strip()
        with open(os.path.join(VERIF, "mutants", "RESULTS.json"), "w") as f:
            json.dump({"repo_head": head, "total": len(results), "analysed": len(an), "detected_by_own_property": len(det), "results": results}, f, indent=1)


if __name__ == "__main__":
    main()
