#!/usr/bin/env python3
"""File and evaluate behaviour-preserving refactorings (negative controls).

usage: tools/benign.py file <agent worktree> <k> <id> <property>   copy OUT/r<k>.patch + r<k>.md to /verif/benign/<id>/,
                                                                    confirm that the 603 pinned tests pass with it
       tools/benign.py run [--jobs N] [ids...]                      run every check over every filed refactoring
A check that reports a VIOLATION (rc 1) or cannot analyse the tree (rc 3) on a refactoring whose behaviour is unchanged
is a false alarm of the checker.  Writes benign/RESULTS.json and meta.alarms.
"""
import concurrent.futures
import glob
import json
import os
import re
import shutil
import subprocess
import sys
import tempfile

VERIF = os.path.dirname(os.path.dirname(os.path.abspath(__file__)))
sys.path.insert(0, os.path.join(VERIF, "tools"))
import redetect  # noqa: E402


def file_one(awt, k, bid, prop):
    patch = os.path.join(awt, "OUT", "r%s.patch" % k)
    md = os.path.join(awt, "OUT", "r%s.md" % k)
    if not os.path.exists(patch):
        print(bid, "MISSING patch")
        return 2
    base = tempfile.mkdtemp(prefix="xmlrs-benign-")
    wt = os.path.join(base, "repo")
    try:
        subprocess.run(["git", "-C", "/repo", "worktree", "add", "-q", "--detach", wt, "HEAD"], check=True)
        a = subprocess.run(["git", "-C", wt, "apply", patch], capture_output=True, text=True)
        meta = {"id": bid, "property": prop, "kind": "behaviour-preserving refactoring (negative control)"}
        if a.returncode != 0:
            print(bid, "PATCH DOES NOT APPLY")
            return 1
        env = dict(os.environ)
        env.update({"CARGO_NET_OFFLINE": "true", "RUSTFLAGS": "-Awarnings",
                    "CARGO_TARGET_DIR": os.environ.get("SEED_TARGET", os.path.join(base, "target"))})
        p = subprocess.run(["cargo", "test", "--offline", "--workspace", "--no-fail-fast"], cwd=wt, env=env, capture_output=True, text=True)
        res = re.findall(r"^test result: (\w+)\. (\d+) passed; (\d+) failed", p.stdout + p.stderr, re.M)
        passed = sum(int(x[1]) for x in res)
        failed = sum(int(x[2]) for x in res)
        meta["suite_passed"], meta["suite_failed"] = passed, failed
        meta["tests_pass"] = p.returncode == 0 and passed == 603 and failed == 0
        meta["head"] = subprocess.run(["git", "-C", "/repo", "rev-parse", "--short", "HEAD"], capture_output=True, text=True).stdout.strip()
        out = os.path.join(VERIF, "benign", bid)
        os.makedirs(out, exist_ok=True)
        shutil.copy(patch, os.path.join(out, "patch.diff"))
        if os.path.exists(md):
            meta["author_notes"] = open(md).read()
        json.dump(meta, open(os.path.join(out, "meta.json"), "w"), indent=1)
        print(bid, "filed, tests %s (%d/%d)" % ("pass" if meta["tests_pass"] else "FAIL", passed, failed), flush=True)
        return 0
    finally:
        subprocess.run(["git", "-C", "/repo", "worktree", "remove", "--force", wt], capture_output=True)
        shutil.rmtree(base, ignore_errors=True)


def run(args):
    jobs = 8
    if "--jobs" in args:
        i = args.index("--jobs")
        jobs = int(args[i + 1])
        del args[i:i + 2]
    items = []
    for p in sorted(glob.glob(os.path.join(VERIF, "benign", "*", "patch.diff"))):
        bid = os.path.basename(os.path.dirname(p))
        if not args or any(bid.startswith(a) for a in args):
            items.append((bid, p, False))
    results = []
    with concurrent.futures.ThreadPoolExecutor(max_workers=jobs) as ex:
        for r in ex.map(redetect.one, items):
            alarms = {k: v for k, v in r.get("detected_by", {}).items()}
            r["alarms"] = alarms
            results.append(r)
            print("%-12s %-14s %s" % (r["id"], r["status"], ("ALARM " + json.dumps(alarms)[:300]) if alarms else "silent"), flush=True)
            mp = os.path.join(VERIF, "benign", r["id"], "meta.json")
            if os.path.exists(mp) and r["status"] == "analysed":
                m = json.load(open(mp))
                m["alarms"] = alarms
                json.dump(m, open(mp, "w"), indent=1)
    subprocess.run(["git", "-C", "/repo", "worktree", "prune"], capture_output=True)
    an = [r for r in results if r["status"] == "analysed"]
    silent = [r for r in an if not r["alarms"]]
    print("analysed %d / %d, silent %d" % (len(an), len(results), len(silent)))
    if not args:
        head = subprocess.run(["git", "-C", "/repo", "rev-parse", "--short", "HEAD"], capture_output=True, text=True).stdout.strip()
        json.dump({"repo_head": head, "total": len(results), "analysed": len(an), "silent": len(silent),
                   "results": [{k: v for k, v in r.items() if k not in ("detected_by", "own", "own_reported")} for r in results]},
                  open(os.path.join(VERIF, "benign", "RESULTS.json"), "w"), indent=1)


if __name__ == "__main__":
    if sys.argv[1] == "file":
        sys.exit(file_one(*sys.argv[2:6]))
    run(sys.argv[2:])
