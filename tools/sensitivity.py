#!/usr/bin/env python3
"""Sensitivity run: apply every patch of /verif/mutants and /verif/seeded to a scratch worktree of /repo and run the
check of the property the patch is named after.  Prints a table and writes /verif/mutants/RESULTS.json.
A missed mutant says something about the checker, not about /repo; exit code is always 0."""
import concurrent.futures
import json
import os
import re
import shutil
import subprocess
import sys
import tempfile

VERIF = os.path.dirname(os.path.dirname(os.path.abspath(__file__)))
MUT = os.path.join(VERIF, "mutants")


def one(patch):
    seeded = patch.endswith("patch.diff")
    name = os.path.basename(os.path.dirname(patch)) if seeded else os.path.basename(patch)[:-6]
    prop = name.split("-")[0]
    base = tempfile.mkdtemp(prefix="sens-", dir="/tmp")
    wt = os.path.join(base, "repo")
    try:
        subprocess.run(["git", "-C", "/repo", "worktree", "add", "-q", "--detach", wt, "HEAD"], check=True, capture_output=True)
        a = subprocess.run(["git", "-C", wt, "apply", patch], capture_output=True, text=True)
        if a.returncode != 0:
            return {"mutant": name, "property": prop, "status": "patch-does-not-apply", "detail": a.stderr.strip()[:200]}
        p = subprocess.run([os.path.join(VERIF, "check"), prop, "--repo", wt, "--no-evidence"], capture_output=True, text=True, cwd=VERIF)
        keys = ["%s %s" % k for k in re.findall(r"^  (\S+) (.*?) at ", p.stdout, re.M)]
        if p.returncode == 1:
            st = "detected"
        elif p.returncode == 0:
            st = "MISSED"
        else:
            st = "broken-check" if "cannot analyse" not in p.stdout else "does-not-compile"
            keys = re.findall(r"^BROKEN.*$", p.stdout, re.M)[:1]
        expect = "" if seeded else open(patch).readline().strip().replace("# expected reporter: ", "")
        return {"mutant": name, "property": prop, "status": st, "reported": keys[:4], "expected": expect,
                "origin": "independent sub-agent (seeded/)" if seeded else "catalogue (mutants/)"}
    finally:
        subprocess.run(["git", "-C", "/repo", "worktree", "remove", "--force", wt], capture_output=True)
        shutil.rmtree(base, ignore_errors=True)


def main():
    only = sys.argv[1:] 
    patches = sorted(os.path.join(MUT, f) for f in os.listdir(MUT) if f.endswith(".patch") and (not only or any(f.startswith(o) for o in only)))
    SEED = os.path.join(VERIF, "seeded")
    if os.path.isdir(SEED):
        patches += sorted(os.path.join(SEED, d, "patch.diff") for d in os.listdir(SEED)
                          if os.path.exists(os.path.join(SEED, d, "patch.diff")) and (not only or any(d.startswith(o) for o in only)))
    out = []
    with concurrent.futures.ThreadPoolExecutor(max_workers=int(os.environ.get("SENS_JOBS", "6"))) as ex:
        for r in ex.map(one, patches):
            out.append(r)
            print("%-44s %-16s %s" % (r["mutant"], r["status"], "; ".join(r.get("reported", []))[:150] or r.get("detail", "")))
    subprocess.run(["git", "-C", "/repo", "worktree", "prune"], capture_output=True)
    n = len(out)
    det = sum(1 for r in out if r["status"] == "detected")
    print("detected %d / %d" % (det, n))
    if not only:
        with open(os.path.join(MUT, "RESULTS.json"), "w") as f:
            json.dump({"applied": n, "detected": det, "results": out}, f, indent=1)


if __name__ == "__main__":
    main()
