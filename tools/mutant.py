#!/usr/bin/env python3
"""Run the checks against a scratch worktree of /repo with one patch applied.

usage: tools/mutant.py <patch> [--props C07,C05] [--keep]
Prints, per property, the exit code and the VIOLATION keys.  /repo itself is never touched.
"""
import concurrent.futures
import os
import re
import shutil
import subprocess
import sys
import tempfile

VERIF = os.path.dirname(os.path.dirname(os.path.abspath(__file__)))
ALL = ["C%02d" % i for i in range(1, 20)]


def run_check(prop, wt):
    p = subprocess.run([os.path.join(VERIF, "check"), prop, "--repo", wt, "--no-evidence"], capture_output=True, text=True, cwd=VERIF)
    keys = re.findall(r"^  (\S+) (.*?) at ", p.stdout, re.M)
    broken = re.findall(r"^BROKEN.*$", p.stdout, re.M)
    return prop, p.returncode, keys, broken


def main():
    patch = os.path.abspath(sys.argv[1])
    props = ALL
    if "--props" in sys.argv:
        props = sys.argv[sys.argv.index("--props") + 1].split(",")
    base = tempfile.mkdtemp(prefix="mut-", dir="/tmp")
    wt = os.path.join(base, "repo")
    try:
        subprocess.run(["git", "-C", "/repo", "worktree", "add", "-q", "--detach", wt, "HEAD"], check=True)
        a = subprocess.run(["git", "-C", wt, "apply", patch], capture_output=True, text=True)
        if a.returncode != 0:
            print("PATCH DOES NOT APPLY:", a.stderr.strip())
            return 2
        detected = []
        with concurrent.futures.ThreadPoolExecutor(max_workers=8) as ex:
            for prop, rc, keys, broken in ex.map(lambda p: run_check(p, wt), props):
                if rc != 0:
                    detected.append(prop)
                    print("%s rc=%d %s %s" % (prop, rc, ["%s %s" % k for k in keys][:4], broken[:1]))
        print("DETECTED-BY: %s" % (",".join(detected) or "none"))
        return 0
    finally:
        subprocess.run(["git", "-C", "/repo", "worktree", "remove", "--force", wt], capture_output=True)
        shutil.rmtree(base, ignore_errors=True)
        subprocess.run(["git", "-C", "/repo", "worktree", "prune"], capture_output=True)


if __name__ == "__main__":
    sys.exit(main())
