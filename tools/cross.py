#!/usr/bin/env python3
"""Seeded changes on top of behaviour-preserving refactorings.

A refactoring (benign/<id>) changes the shape of the code, a seeded change (seeded/<id>, mutants/<id>) breaks a property.
Where the two touch the same region of a file and still apply one after the other, the check of the seeded change's
property has to report the combination: the rules were generalised to stay silent on the refactorings, this run asks whether
they still see the defect in the refactored shape.

usage: tools/cross.py list                 print the applicable pairs (refactoring, change) and how close their hunks are
       tools/cross.py run [--jobs N] [--max K]   run the own check of the change on every pair -> cross/RESULTS.json
"""
import concurrent.futures
import glob
import json
import os
import re
import shutil
import subprocess
import sys
import tempfile

VERIF = os.path.dirname(os.path.dirname(os.path.abspath(__file__)))
NEAR = 40


def hunks(patch):
    out, cur = [], None
    for l in open(patch, errors="replace"):
        if l.startswith("+++ "):
            cur = l[4:].strip()
            cur = cur[2:] if cur.startswith("b/") else cur
        m = re.match(r"^@@ -(\d+)(?:,(\d+))? ", l)
        if m and cur:
            a = int(m.group(1))
            out.append((cur, a, a + int(m.group(2) or 1)))
    return out


def near(h1, h2):
    best = None
    for f1, a1, b1 in h1:
        for f2, a2, b2 in h2:
            if f1 != f2:
                continue
            d = 0 if (a1 <= b2 and a2 <= b1) else min(abs(a1 - b2), abs(a2 - b1))
            best = d if best is None else min(best, d)
    return best


def changes():
    out = []
    for p in sorted(glob.glob(os.path.join(VERIF, "mutants", "*.patch"))):
        out.append((os.path.basename(p)[:-6], p, os.path.basename(p)[:3]))
    for p in sorted(glob.glob(os.path.join(VERIF, "seeded", "*", "patch.diff"))):
        meta = os.path.join(os.path.dirname(p), "meta.json")
        if os.path.exists(meta) and not json.load(open(meta)).get("confirmed", True):
            continue
        out.append((os.path.basename(os.path.dirname(p)), p, os.path.basename(os.path.dirname(p))[:3]))
    return out


def pairs():
    base = tempfile.mkdtemp(prefix="xmlrs-cross-")
    wt = os.path.join(base, "repo")
    out = []
    try:
        subprocess.run(["rsync", "-a", "--exclude", "/target", "--exclude", "/.git", "/repo/", wt + "/"], check=True)
        subprocess.run(["git", "init", "-q"], cwd=wt, check=True)
        subprocess.run(["git", "add", "-A"], cwd=wt, check=True)
        subprocess.run(["git", "-c", "user.email=x@x", "-c", "user.name=x", "commit", "-qm", "base"], cwd=wt, check=True)
        ch = [(i, p, prop, hunks(p)) for i, p, prop in changes()]
        for b in sorted(glob.glob(os.path.join(VERIF, "benign", "*", "patch.diff"))):
            bid = os.path.basename(os.path.dirname(b))
            hb = hunks(b)
            if subprocess.run(["git", "apply", b], cwd=wt, capture_output=True).returncode != 0:
                continue
            for cid, cp, prop, hc in ch:
                d = near(hb, hc)
                if d is None or d > NEAR:
                    continue
                if subprocess.run(["git", "apply", "--check", cp], cwd=wt, capture_output=True).returncode == 0:
                    out.append({"refactoring": bid, "change": cid, "property": prop, "distance": d, "b": b, "c": cp})
            subprocess.run(["git", "checkout", "-q", "--", "."], cwd=wt, check=True)
            subprocess.run(["git", "clean", "-qfd"], cwd=wt, check=True)
    finally:
        shutil.rmtree(base, ignore_errors=True)
    return out


def one(pr):
    base = tempfile.mkdtemp(prefix="xmlrs-cross-")
    wt = os.path.join(base, "repo")
    try:
        subprocess.run(["rsync", "-a", "--exclude", "/target", "--exclude", "/.git", "/repo/", wt + "/"], check=True)
        for p in (pr["b"], pr["c"]):
            a = subprocess.run(["patch", "-p1", "-s", "-f", "-d", wt, "-i", p], capture_output=True, text=True)
            if a.returncode != 0:
                return dict(pr, status="does-not-apply")
        p = subprocess.run([os.path.join(VERIF, "check"), pr["property"], "--repo", wt, "--no-evidence"], capture_output=True, text=True, cwd=VERIF)
        keys = ["%s %s" % k for k in re.findall(r"^  (\S+) (.*?) at ", p.stdout, re.M)]
        st = {0: "missed", 1: "detected"}.get(p.returncode, "not-analysable")
        if st == "not-analysable":
            keys = re.findall(r"^BROKEN.*$", p.stdout, re.M)[:1]
            if "cargo check` failed" in p.stdout:
                st = "does-not-compile"
        return dict(pr, status=st, reported=keys[:3])
    finally:
        shutil.rmtree(base, ignore_errors=True)


def main():
    if sys.argv[1] == "list":
        ps = pairs()
        for p in ps:
            print(p["refactoring"], p["change"], p["property"], p["distance"])
        print(len(ps), "pairs")
        return
    jobs, mx = 8, None
    if "--jobs" in sys.argv:
        jobs = int(sys.argv[sys.argv.index("--jobs") + 1])
    if "--max" in sys.argv:
        mx = int(sys.argv[sys.argv.index("--max") + 1])
    ps = pairs()
    ps.sort(key=lambda p: (p["distance"], p["refactoring"], p["change"]))
    if mx:
        ps = ps[:mx]
    res = []
    with concurrent.futures.ThreadPoolExecutor(max_workers=jobs) as ex:
        for r in ex.map(one, ps):
            r = {k: v for k, v in r.items() if k not in ("b", "c")}
            res.append(r)
            print("%-8s + %-40s %-3s d=%-3d %-16s %s" % (r["refactoring"], r["change"], r["property"], r["distance"], r["status"], "; ".join(r.get("reported", []))[:90]), flush=True)
    os.makedirs(os.path.join(VERIF, "cross"), exist_ok=True)
    head = subprocess.run(["git", "-C", "/repo", "rev-parse", "--short", "HEAD"], capture_output=True, text=True).stdout.strip()
    an = [r for r in res if r["status"] in ("detected", "missed", "not-analysable")]
    json.dump({"repo_head": head, "pairs": len(res), "analysed": len(an), "detected": len([r for r in an if r["status"] == "detected"]),
               "results": res}, open(os.path.join(VERIF, "cross", "RESULTS.json"), "w"), indent=1)
    print("pairs %d, analysed %d, detected %d" % (len(res), len(an), len([r for r in an if r["status"] == "detected"])))


if __name__ == "__main__":
    main()
