#!/usr/bin/env python3
"""Confirm a seeded change delivered by a sub-agent and file it under /verif/seeded/<id>/.

usage: tools/verify_seed.py <agent worktree> <k> <seed id> <property>
  - demo passes on a clean scratch worktree of /repo HEAD
  - patch applies; demo fails with the patch
  - the pinned suite (cargo test --workspace) still passes with the patch (demo moved aside)
  - then every check is run against the patched scratch tree (tools/mutant.py logic) and the verdicts recorded
"""
import glob
import json
import os
import re
import shutil
import subprocess
import sys
import tempfile
import time

VERIF = os.path.dirname(os.path.dirname(os.path.abspath(__file__)))


def sh(cmd, cwd, env=None, timeout=1800):
    e = dict(os.environ)
    e["CARGO_NET_OFFLINE"] = "true"
    e["RUSTFLAGS"] = "-Awarnings"
    if env:
        e.update(env)
    try:
        p = subprocess.run(cmd, cwd=cwd, env=e, capture_output=True, text=True, timeout=timeout)
        return p.returncode, p.stdout + p.stderr
    except subprocess.TimeoutExpired as t:
        return 124, "TIMEOUT\n" + str(t.stdout or "")[-2000:]


def main():
    awt, k, seed_id, prop = sys.argv[1:5]
    patch = os.path.join(awt, "OUT", "m%s.patch" % k)
    md = os.path.join(awt, "OUT", "m%s.md" % k)
    demos = [p for p in glob.glob(os.path.join(awt, "*", "tests", "seed_m%s.rs" % k))]
    if not demos or not os.path.exists(patch):
        print("MISSING deliverables for", seed_id)
        return 2
    demo = demos[0]
    crate_dir = os.path.relpath(demo, awt).split(os.sep)[0]
    crate = {"xpath": "xml-xpath", "info": "xml-info", "dom": "xml-dom", "parser": "xml-parser", "nom": "xml-nom"}[crate_dir]
    base = tempfile.mkdtemp(prefix="vs-", dir="/tmp")
    wt = os.path.join(base, "repo")
    meta = {"id": seed_id, "property": prop, "commands": [], "confirmed": False}
    tgt = os.environ.get("SEED_TARGET", os.path.join(base, "target"))
    env = {"CARGO_TARGET_DIR": tgt}
    try:
        subprocess.run(["git", "-C", "/repo", "worktree", "add", "-q", "--detach", wt, "HEAD"], check=True)
        rel = os.path.relpath(demo, awt)
        os.makedirs(os.path.dirname(os.path.join(wt, rel)), exist_ok=True)
        shutil.copy(demo, os.path.join(wt, rel))
        test_cmd = ["timeout", "300", "cargo", "test", "--offline", "-p", crate, "--test", "seed_m%s" % k]
        rc0, out0 = sh(test_cmd, wt, env)
        meta["commands"].append({"cmd": " ".join(test_cmd) + "   # clean tree", "rc": rc0, "tail": out0[-600:]})
        a = subprocess.run(["git", "-C", wt, "apply", patch], capture_output=True, text=True)
        meta["commands"].append({"cmd": "git apply patch.diff", "rc": a.returncode, "tail": a.stderr[-300:]})
        rebased = None
        if a.returncode != 0:
            # the fix commits made in /repo after the seed was written may have moved its context: three-way merge
            a3 = subprocess.run(["git", "-C", wt, "apply", "--3way", patch], capture_output=True, text=True)
            conflict = subprocess.run(["git", "-C", wt, "diff", "--name-only", "--diff-filter=U"], capture_output=True, text=True).stdout.strip()
            meta["commands"].append({"cmd": "git apply --3way patch.diff", "rc": a3.returncode, "tail": a3.stderr[-300:]})
            if a3.returncode != 0 or conflict:
                print(seed_id, "PATCH DOES NOT APPLY")
                return 1
            subprocess.run(["git", "-C", wt, "reset", "-q"], capture_output=True)
            rebased = subprocess.run(["git", "-C", wt, "diff", "HEAD", "--", ".", ":(exclude)*/tests/seed_m*.rs"], capture_output=True, text=True).stdout
            meta["patch_rebased_on"] = subprocess.run(["git", "-C", "/repo", "rev-parse", "--short", "HEAD"], capture_output=True, text=True).stdout.strip()
        rc1, out1 = sh(test_cmd, wt, env)
        meta["commands"].append({"cmd": " ".join(test_cmd) + "   # with patch", "rc": rc1, "tail": out1[-900:]})
        os.rename(os.path.join(wt, rel), os.path.join(base, "demo.aside"))
        suite = ["cargo", "test", "--offline", "--workspace", "--no-fail-fast"]
        rc2, out2 = sh(suite, wt, env, timeout=2400)
        results = re.findall(r"^test result: (\w+)\. (\d+) passed; (\d+) failed", out2, re.M)
        passed = sum(int(x[1]) for x in results)
        failed = sum(int(x[2]) for x in results)
        meta["commands"].append({"cmd": " ".join(suite) + "   # with patch, demo moved aside", "rc": rc2, "passed": passed, "failed": failed})
        meta["confirmed"] = (rc0 == 0 and rc1 != 0 and rc2 == 0 and passed == 603 and failed == 0)
        meta["demo_clean_passes"] = rc0 == 0
        meta["demo_patched_fails"] = rc1 != 0
        meta["suite_passes_with_patch"] = (rc2 == 0 and passed == 603)
        # run the checks against the patched tree
        det = {}
        import concurrent.futures

        def run_check(p):
            r = subprocess.run([os.path.join(VERIF, "check"), p, "--repo", wt, "--no-evidence"], capture_output=True, text=True, cwd=VERIF)
            keys = ["%s %s" % x for x in re.findall(r"^  (\S+) (.*?) at ", r.stdout, re.M)]
            return p, r.returncode, keys, re.findall(r"^BROKEN.*$", r.stdout, re.M)
        todo = [] if os.path.exists("/tmp/seed_skip_detect") else ["C%02d" % i for i in range(1, 20)]   # tools/redetect.py fills it in
        with concurrent.futures.ThreadPoolExecutor(max_workers=int(os.environ.get("SEED_JOBS", "4"))) as ex:
            for p, rc, keys, broken in ex.map(run_check, todo):
                if rc != 0:
                    det[p] = {"rc": rc, "reported": keys[:5], "broken": broken[:1]}
        meta["detected_by"] = det
        meta["detected_by_own_property"] = prop in det and det[prop]["rc"] == 1
        out_dir = os.path.join(VERIF, "seeded", seed_id)
        os.makedirs(out_dir, exist_ok=True)
        if rebased:
            with open(os.path.join(out_dir, "patch.diff"), "w") as f:
                f.write(rebased)
            shutil.copy(patch, os.path.join(out_dir, "patch.diff.orig"))
        else:
            shutil.copy(patch, os.path.join(out_dir, "patch.diff"))
        shutil.copy(demo, os.path.join(out_dir, "demo.rs"))
        if os.path.exists(md):
            meta["author_notes"] = open(md).read()
        meta["demo_location"] = rel
        meta["what_it_needs"] = ""
        with open(os.path.join(out_dir, "meta.json"), "w") as f:
            json.dump(meta, f, indent=1)
        print(seed_id, "confirmed" if meta["confirmed"] else "NOT-CONFIRMED(clean=%s patched=%s suite=%s/%s)" % (rc0, rc1, passed, failed),
              "detected by", sorted(det) or "NONE")
        return 0
    finally:
        subprocess.run(["git", "-C", "/repo", "worktree", "remove", "--force", wt], capture_output=True)
        shutil.rmtree(base, ignore_errors=True)
        subprocess.run(["git", "-C", "/repo", "worktree", "prune"], capture_output=True)


if __name__ == "__main__":
    sys.exit(main())
