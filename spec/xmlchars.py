"""Character classes of XML 1.0 (Fifth Edition), typed in from the Recommendation.

https://www.w3.org/TR/2008/REC-xml-20081126/
"""
from charset import CS

# [2] Char ::= #x9 | #xA | #xD | [#x20-#xD7FF] | [#xE000-#xFFFD] | [#x10000-#x10FFFF]
CHAR = CS.of(0x9, 0xA, 0xD, (0x20, 0xD7FF), (0xE000, 0xFFFD), (0x10000, 0x10FFFF))

# [3] S ::= (#x20 | #x9 | #xD | #xA)+
S_CHAR = CS.of(0x20, 0x9, 0xD, 0xA)

# [4] NameStartChar ::= ":" | [A-Z] | "_" | [a-z] | [#xC0-#xD6] | [#xD8-#xF6] | [#xF8-#x2FF]
#   | [#x370-#x37D] | [#x37F-#x1FFF] | [#x200C-#x200D] | [#x2070-#x218F] | [#x2C00-#x2FEF]
#   | [#x3001-#xD7FF] | [#xF900-#xFDCF] | [#xFDF0-#xFFFD] | [#x10000-#xEFFFF]
NAME_START_CHAR = CS.of(
    ":", (0x41, 0x5A), "_", (0x61, 0x7A), (0xC0, 0xD6), (0xD8, 0xF6), (0xF8, 0x2FF),
    (0x370, 0x37D), (0x37F, 0x1FFF), (0x200C, 0x200D), (0x2070, 0x218F), (0x2C00, 0x2FEF),
    (0x3001, 0xD7FF), (0xF900, 0xFDCF), (0xFDF0, 0xFFFD), (0x10000, 0xEFFFF))

# [4a] NameChar ::= NameStartChar | "-" | "." | [0-9] | #xB7 | [#x0300-#x036F] | [#x203F-#x2040]
NAME_CHAR = NAME_START_CHAR | CS.of("-", ".", (0x30, 0x39), 0xB7, (0x300, 0x36F), (0x203F, 0x2040))

# [13] PubidChar ::= #x20 | #xD | #xA | [a-zA-Z0-9] | [-'()+,./:=?;!*#@$_%]
PUBID_CHAR = CS.of(0x20, 0xD, 0xA, (0x61, 0x7A), (0x41, 0x5A), (0x30, 0x39), "-'()+,./:=?;!*#@$_%")

# [81] EncName ::= [A-Za-z] ([A-Za-z0-9._] | '-')*      (tail class)
ENC_NAME_TAIL = CS.of((0x41, 0x5A), (0x61, 0x7A), (0x30, 0x39), "._-")
ENC_NAME_HEAD = CS.of((0x41, 0x5A), (0x61, 0x7A))

# Namespaces in XML 1.0: NCNameChar = NameChar - ':' ; NCNameStartChar = NameStartChar - ':'
NC_NAME_START_CHAR = NAME_START_CHAR - CS.of(":")
NC_NAME_CHAR = NAME_CHAR - CS.of(":")

CLASS_TABLE = {
    # predicate function (canonical path) -> (production, reference set)
    "xml_nom::xmlchar::is_char": ("[2] Char", CHAR),
    "xml_nom::xmlchar::is_name_start_char": ("[4] NameStartChar", NAME_START_CHAR),
    "xml_nom::xmlchar::is_name_char": ("[4a] NameChar", NAME_CHAR),
    "xml_nom::xmlchar::is_pubid_char": ("[13] PubidChar", PUBID_CHAR),
    "xml_nom::xmlchar::is_enc_name": ("[81] EncName (tail characters)", ENC_NAME_TAIL),
}
