"""XPath 1.0 productions [1]-[39] (https://www.w3.org/TR/1999/REC-xpath-19991116/) as regular terms.

Left-recursive productions are written iteratively; `W` (optional ExprWhitespace, 3.7: "ExprWhitespace may be
freely used between tokens") is inserted between adjacent tokens.  Expr is the only recursive atom.
"""
from charset import CS
from xml10 import L, C, Seq, Alt, Opt, Star, Plus, NT, Minus, P as XMLP
from xmlchars import S_CHAR, CHAR

W = Star(C(S_CHAR))
DIGITS = Plus(C(CS.of((0x30, 0x39))))
ANYCHAR = CS([(0, 0xD7FF), (0xE000, 0x10FFFF)])

P = {}
# names come from Namespaces in XML
P["NCName"] = XMLP["NCName"]
P["PrefixedName"] = XMLP["PrefixedName"]
P["QName"] = XMLP["QName"]

P["Literal"] = Alt(Seq(L('"'), Star(C(ANYCHAR - CS.of('"'))), L('"')),              # [29]
                   Seq(L("'"), Star(C(ANYCHAR - CS.of("'"))), L("'")))
P["Number"] = Alt(Seq(DIGITS, Opt(Seq(L("."), Opt(DIGITS)))), Seq(L("."), DIGITS))    # [30] [31]
P["NodeType"] = Alt(L("comment"), L("text"), L("processing-instruction"), L("node"))   # [38]
P["FunctionName"] = Minus(NT("QName"), NT("NodeType"))                                 # [35]
P["VariableReference"] = Seq(L("$"), NT("QName"))                                      # [36]
P["NameTest"] = Alt(L("*"), Seq(NT("NCName"), L(":"), L("*")), NT("QName"))            # [37]
P["AxisName"] = Alt(*[L(x) for x in (                                                  # [6]
    "ancestor", "ancestor-or-self", "attribute", "child", "descendant", "descendant-or-self", "following",
    "following-sibling", "namespace", "parent", "preceding", "preceding-sibling", "self")])
P["AxisSpecifier"] = Alt(Seq(NT("AxisName"), W, L("::")), Opt(L("@")))                 # [5] [13]
P["NodeTest"] = Alt(NT("NameTest"),                                                    # [7]
                    Seq(NT("NodeType"), W, L("("), W, L(")")),
                    Seq(L("processing-instruction"), W, L("("), W, NT("Literal"), W, L(")")))
P["Predicate"] = Seq(L("["), W, NT("PredicateExpr"), W, L("]"))                        # [8]
P["PredicateExpr"] = NT("Expr")                                                        # [9]
P["Step"] = Alt(Seq(NT("AxisSpecifier"), W, NT("NodeTest"), Star(Seq(W, NT("Predicate")))), L("."), L(".."))   # [4] [12]
SLASH = Alt(L("/"), L("//"))
P["RelativeLocationPath"] = Seq(NT("Step"), Star(Seq(W, SLASH, W, NT("Step"))))        # [3] [11]
P["LocationPath"] = Alt(NT("RelativeLocationPath"),                                    # [1] [2] [10]
                        Seq(L("/"), Opt(Seq(W, NT("RelativeLocationPath")))),
                        Seq(L("//"), W, NT("RelativeLocationPath")))
P["Expr"] = NT("OrExpr")                                                               # [14]
P["PrimaryExpr"] = Alt(NT("VariableReference"), Seq(L("("), W, NT("Expr"), W, L(")")),  # [15]
                       NT("Literal"), NT("Number"), NT("FunctionCall"))
P["Argument"] = NT("Expr")                                                             # [17]
P["FunctionCall"] = Seq(NT("FunctionName"), W, L("("), W,                              # [16]
                        Opt(Seq(NT("Argument"), Star(Seq(W, L(","), W, NT("Argument"))))), W, L(")"))
P["FilterExpr"] = Seq(NT("PrimaryExpr"), Star(Seq(W, NT("Predicate"))))                # [20]
P["PathExpr"] = Alt(NT("LocationPath"), NT("FilterExpr"),                              # [19]
                    Seq(NT("FilterExpr"), W, SLASH, W, NT("RelativeLocationPath")))
P["UnionExpr"] = Seq(NT("PathExpr"), Star(Seq(W, L("|"), W, NT("PathExpr"))))          # [18]
P["UnaryExpr"] = Seq(Star(Seq(L("-"), W)), NT("UnionExpr"))                            # [27]
P["MultiplicativeExpr"] = Seq(NT("UnaryExpr"), Star(Seq(W, Alt(L("*"), L("div"), L("mod")), W, NT("UnaryExpr"))))   # [26] [34]
P["AdditiveExpr"] = Seq(NT("MultiplicativeExpr"), Star(Seq(W, Alt(L("+"), L("-")), W, NT("MultiplicativeExpr"))))    # [25]
P["RelationalExpr"] = Seq(NT("AdditiveExpr"), Star(Seq(W, Alt(L("<"), L(">"), L("<="), L(">=")), W, NT("AdditiveExpr"))))   # [24]
P["EqualityExpr"] = Seq(NT("RelationalExpr"), Star(Seq(W, Alt(L("="), L("!=")), W, NT("RelationalExpr"))))   # [23]
P["AndExpr"] = Seq(NT("EqualityExpr"), Star(Seq(W, L("and"), W, NT("EqualityExpr"))))  # [22]
P["OrExpr"] = Seq(NT("AndExpr"), Star(Seq(W, L("or"), W, NT("AndExpr"))))              # [21]

# Structural productions stay atoms on both sides (the code mirrors the Recommendation production by production);
# lexical productions (names, literals, numbers, token sets) are inlined down to characters.
STRUCTURAL = ["Expr", "OrExpr", "AndExpr", "EqualityExpr", "RelationalExpr", "AdditiveExpr", "MultiplicativeExpr",
              "UnaryExpr", "UnionExpr", "PathExpr", "FilterExpr", "PrimaryExpr", "FunctionCall", "Predicate",
              "RelativeLocationPath", "Step"]
ATOMS = set(STRUCTURAL)

MAP = {
    "xml_xpath::expr::relative_location_path": "RelativeLocationPath",
    "xml_xpath::expr::step": "Step",
    "xml_xpath::expr::axis_specifier": "AxisSpecifier",
    "xml_xpath::expr::axis_name": "AxisName",
    "xml_xpath::expr::node_test": "NodeTest",
    "xml_xpath::expr::predicate": "Predicate",
    "xml_xpath::expr::predicate_expr": "PredicateExpr",
    "xml_xpath::expr::expr": "Expr",
    "xml_xpath::expr::primary_expr": "PrimaryExpr",
    "xml_xpath::expr::function_call": "FunctionCall",
    "xml_xpath::expr::argument": "Argument",
    "xml_xpath::expr::union_expr": "UnionExpr",
    "xml_xpath::expr::path_expr": "PathExpr",
    "xml_xpath::expr::filter_expr": "FilterExpr",
    "xml_xpath::expr::or_expr": "OrExpr",
    "xml_xpath::expr::and_expr": "AndExpr",
    "xml_xpath::expr::equality_expr": "EqualityExpr",
    "xml_xpath::expr::relation_expr": "RelationalExpr",
    "xml_xpath::expr::additive_expr": "AdditiveExpr",
    "xml_xpath::expr::multiplicative_expr": "MultiplicativeExpr",
    "xml_xpath::expr::unary_expr": "UnaryExpr",
    "xml_xpath::expr::literal": "Literal",
    "xml_xpath::expr::number": "Number",
    "xml_xpath::expr::function_name": "FunctionName",
    "xml_xpath::expr::variable_reference": "VariableReference",
    "xml_xpath::expr::name_test": "NameTest",
    "xml_xpath::expr::node_type": "NodeType",
}

ATOM_FNS = {path: prod for path, prod in MAP.items() if prod in ATOMS}
