"""XML 1.0 (Fifth Edition) + Namespaces in XML 1.0 (Third Edition) productions for the supported
profile, typed in from the Recommendations as regular terms.

Production [1] requires every character of a document to match Char, so every negated class
`[^...]` below is written as `Char - {...}`.
"""
from charset import CS
from xmlchars import (CHAR, S_CHAR, NAME_START_CHAR, NAME_CHAR, PUBID_CHAR, ENC_NAME_HEAD, ENC_NAME_TAIL,
                      NC_NAME_START_CHAR, NC_NAME_CHAR)


def L(s):
    return ("lit", s)


def C(cs):
    return ("cls", cs)


def Seq(*t):
    return ("seq", list(t))


def Alt(*t):
    return ("alt", list(t))


def Opt(t):
    return ("opt", t)


def Star(t):
    return ("star", t)


def Plus(t):
    return ("plus", t)


def NT(n):
    return ("nt", n)


def Minus(a, b):
    return ("minus", a, b)


def NotIn(chars):
    return C(CHAR - CS.of(chars))


ANY = Star(C(CHAR))


def Containing(lit):
    return Seq(ANY, L(lit), ANY)


S = Plus(C(S_CHAR))
OS = Star(C(S_CHAR))          # S?
QUANT = Opt(Alt(L("?"), L("*"), L("+")))

P = {}

# ---- names ------------------------------------------------------------------------------------
P["Name"] = Seq(C(NAME_START_CHAR), Star(C(NAME_CHAR)))                                  # [5]
P["Nmtoken"] = Plus(C(NAME_CHAR))                                                        # [7]
P["NCName"] = Seq(C(NC_NAME_START_CHAR), Star(C(NC_NAME_CHAR)))                           # NS [4]
P["PrefixedName"] = Seq(NT("NCName"), L(":"), NT("NCName"))                               # NS [8]
P["QName"] = Alt(NT("PrefixedName"), NT("NCName"))                                        # NS [7]
P["NSAttName"] = Alt(Seq(L("xmlns:"), NT("NCName")), L("xmlns"))                          # NS [1]-[3]
# [17] PITarget ::= Name - (('X'|'x') ('M'|'m') ('L'|'l'))
P["PITarget"] = Minus(NT("Name"), ("ci", "xml"))

# ---- literals ---------------------------------------------------------------------------------
P["CharRef"] = Alt(Seq(L("&#"), Plus(C(CS.of((0x30, 0x39)))), L(";")),
                   Seq(L("&#x"), Plus(C(CS.of((0x30, 0x39), (0x41, 0x46), (0x61, 0x66)))), L(";")))   # [66]
P["EntityRef"] = Seq(L("&"), NT("Name"), L(";"))                                           # [68]
P["Reference"] = Alt(NT("EntityRef"), NT("CharRef"))                                       # [67]
P["PEReference"] = Seq(L("%"), NT("Name"), L(";"))                                         # [69]
P["EntityValue"] = Alt(                                                                    # [9]
    Seq(L('"'), Star(Alt(NotIn('%&"'), NT("PEReference"), NT("Reference"))), L('"')),
    Seq(L("'"), Star(Alt(NotIn("%&'"), NT("PEReference"), NT("Reference"))), L("'")))
P["AttValue"] = Alt(                                                                       # [10]
    Seq(L('"'), Star(Alt(NotIn('<&"'), NT("Reference"))), L('"')),
    Seq(L("'"), Star(Alt(NotIn("<&'"), NT("Reference"))), L("'")))
P["SystemLiteral"] = Alt(Seq(L('"'), Star(NotIn('"')), L('"')), Seq(L("'"), Star(NotIn("'")), L("'")))   # [11]
P["PubidLiteral"] = Alt(Seq(L('"'), Star(C(PUBID_CHAR)), L('"')),                          # [12]
                        Seq(L("'"), Star(C(PUBID_CHAR - CS.of("'"))), L("'")))

# ---- character data and markup ---------------------------------------------------------------
P["CharData"] = Minus(Star(NotIn("<&")), Seq(Star(NotIn("<&")), L("]]>"), Star(NotIn("<&"))))   # [14]
P["Comment"] = Seq(L("<!--"), Star(Alt(NotIn("-"), Seq(L("-"), NotIn("-")))), L("-->"))    # [15]
P["PI"] = Seq(L("<?"), NT("PITarget"), Opt(Seq(S, Minus(ANY, Containing("?>")))), L("?>"))  # [16]
P["CDSect"] = Seq(L("<![CDATA["), Minus(ANY, Containing("]]>")), L("]]>"))                 # [18]-[21]

# ---- prolog -----------------------------------------------------------------------------------
P["Eq"] = Seq(OS, L("="), OS)                                                              # [25]
P["VersionNum"] = Seq(L("1."), Plus(C(CS.of((0x30, 0x39)))))                               # [26]
P["VersionInfo"] = Seq(S, L("version"), NT("Eq"),                                          # [24]
                       Alt(Seq(L("'"), NT("VersionNum"), L("'")), Seq(L('"'), NT("VersionNum"), L('"'))))
P["EncName"] = Seq(C(ENC_NAME_HEAD), Star(C(ENC_NAME_TAIL)))                               # [81]
P["EncodingDecl"] = Seq(S, L("encoding"), NT("Eq"),                                        # [80]
                        Alt(Seq(L('"'), NT("EncName"), L('"')), Seq(L("'"), NT("EncName"), L("'"))))
P["SDDecl"] = Seq(S, L("standalone"), NT("Eq"),                                            # [32]
                  Alt(Seq(L("'"), Alt(L("yes"), L("no")), L("'")), Seq(L('"'), Alt(L("yes"), L("no")), L('"'))))
P["XMLDecl"] = Seq(L("<?xml"), NT("VersionInfo"), Opt(NT("EncodingDecl")), Opt(NT("SDDecl")), OS, L("?>"))   # [23]
P["Misc"] = Alt(NT("Comment"), NT("PI"), S)                                                # [27]
P["ExternalID"] = Alt(Seq(L("SYSTEM"), S, NT("SystemLiteral")),                            # [75]
                      Seq(L("PUBLIC"), S, NT("PubidLiteral"), S, NT("SystemLiteral")))
P["PublicID"] = Seq(L("PUBLIC"), S, NT("PubidLiteral"))                                    # [83]
P["NDataDecl"] = Seq(S, L("NDATA"), S, NT("Name"))                                         # [76]

# ---- DTD --------------------------------------------------------------------------------------
P["DeclSep"] = Alt(NT("PEReference"), S)                                                   # [28a]
P["intSubset"] = Star(Alt(NT("markupdecl"), NT("DeclSep")))                                # [28b]
P["markupdecl"] = Alt(NT("elementdecl"), NT("AttlistDecl"), NT("EntityDecl"), NT("NotationDecl"),
                      NT("PI"), NT("Comment"))                                             # [29]
P["doctypedecl"] = Seq(L("<!DOCTYPE"), S, NT("QName"), Opt(Seq(S, NT("ExternalID"))), OS,   # [28] / NS [16]
                       Opt(Seq(L("["), NT("intSubset"), L("]"), OS)), L(">"))
P["elementdecl"] = Seq(L("<!ELEMENT"), S, NT("QName"), S, NT("contentspec"), OS, L(">"))    # [45] / NS [17]
P["contentspec"] = Alt(L("EMPTY"), L("ANY"), NT("Mixed"), NT("children"))                  # [46]
P["children"] = Seq(Alt(NT("choice"), NT("seq")), QUANT)                                   # [47]
P["cp"] = Seq(Alt(NT("QName"), NT("choice"), NT("seq")), QUANT)                            # [48] / NS [18]
P["choice"] = Seq(L("("), OS, NT("cp"), Plus(Seq(OS, L("|"), OS, NT("cp"))), OS, L(")"))    # [49]
P["seq"] = Seq(L("("), OS, NT("cp"), Star(Seq(OS, L(","), OS, NT("cp"))), OS, L(")"))       # [50]
P["Mixed"] = Alt(Seq(L("("), OS, L("#PCDATA"), Star(Seq(OS, L("|"), OS, NT("QName"))), OS, L(")*")),   # [51] / NS [19]
                 Seq(L("("), OS, L("#PCDATA"), OS, L(")")))
P["AttlistDecl"] = Seq(L("<!ATTLIST"), S, NT("QName"), Star(NT("AttDef")), OS, L(">"))      # [52] / NS [20]
P["AttDef"] = Seq(S, Alt(NT("QName"), NT("NSAttName")), S, NT("AttType"), S, NT("DefaultDecl"))   # [53] / NS [21]
P["AttType"] = Alt(L("CDATA"), L("ID"), L("IDREF"), L("IDREFS"), L("ENTITY"), L("ENTITIES"),
                   L("NMTOKEN"), L("NMTOKENS"), NT("NotationType"), NT("Enumeration"))      # [54]-[57]
P["NotationType"] = Seq(L("NOTATION"), S, L("("), OS, NT("Name"), Star(Seq(OS, L("|"), OS, NT("Name"))), OS, L(")"))   # [58]
P["Enumeration"] = Seq(L("("), OS, NT("Nmtoken"), Star(Seq(OS, L("|"), OS, NT("Nmtoken"))), OS, L(")"))    # [59]
P["DefaultDecl"] = Alt(L("#REQUIRED"), L("#IMPLIED"), Seq(Opt(Seq(L("#FIXED"), S)), NT("AttValue")))       # [60]
P["EntityDecl"] = Alt(NT("GEDecl"), NT("PEDecl"))                                          # [70]
P["GEDecl"] = Seq(L("<!ENTITY"), S, NT("Name"), S, NT("EntityDef"), OS, L(">"))             # [71]
P["PEDecl"] = Seq(L("<!ENTITY"), S, L("%"), S, NT("Name"), S, NT("PEDef"), OS, L(">"))      # [72]
P["EntityDef"] = Alt(NT("EntityValue"), Seq(NT("ExternalID"), Opt(NT("NDataDecl"))))       # [73]
P["PEDef"] = Alt(NT("EntityValue"), NT("ExternalID"))                                      # [74]
P["NotationDecl"] = Seq(L("<!NOTATION"), S, NT("Name"), S, Alt(NT("ExternalID"), NT("PublicID")), OS, L(">"))   # [82]

# ---- document ---------------------------------------------------------------------------------
P["prolog"] = Seq(Opt(NT("XMLDecl")), Star(NT("Misc")), Opt(Seq(NT("doctypedecl"), Star(NT("Misc")))))   # [22]
P["document"] = Seq(NT("prolog"), NT("element"), Star(NT("Misc")))                          # [1]
P["Attribute"] = Alt(Seq(NT("NSAttName"), NT("Eq"), NT("AttValue")), Seq(NT("QName"), NT("Eq"), NT("AttValue")))   # [41] / NS [15]
P["STag"] = Seq(L("<"), NT("QName"), Star(Seq(S, NT("Attribute"))), OS, L(">"))             # [40] / NS [12]
P["ETag"] = Seq(L("</"), NT("QName"), OS, L(">"))                                           # [42] / NS [13]
P["EmptyElemTag"] = Seq(L("<"), NT("QName"), Star(Seq(S, NT("Attribute"))), OS, L("/>"))    # [44] / NS [14]
P["content"] = Seq(Opt(NT("CharData")),                                                    # [43]
                   Star(Seq(Alt(NT("element"), NT("Reference"), NT("CDSect"), NT("PI"), NT("Comment")),
                            Opt(NT("CharData")))))
P["element"] = Alt(NT("EmptyElemTag"), Seq(NT("STag"), NT("content"), NT("ETag")))          # [39]

# recursion is cut at these non-terminals (they stay atoms on both sides)
ATOMS = {"element", "cp"}

# code function (canonical path) -> production
MAP = {
    "xml_parser::document": "document",
    "xml_parser::name": "Name",
    "xml_parser::nmtoken": "Nmtoken",
    "xml_parser::entity_value": "EntityValue",
    "xml_parser::att_value": "AttValue",
    "xml_parser::system_literal": "SystemLiteral",
    "xml_parser::pubid_literal": "PubidLiteral",
    "xml_parser::char_data": "CharData",
    "xml_parser::comment": "Comment",
    "xml_parser::pi": "PI",
    "xml_parser::pi_target": "PITarget",
    "xml_parser::cdsect": "CDSect",
    "xml_parser::prolog": "prolog",
    "xml_parser::xml_decl": "XMLDecl",
    "xml_parser::version_info": "VersionInfo",
    "xml_parser::eq": "Eq",
    "xml_parser::version_num": "VersionNum",
    "xml_parser::misc": "Misc",
    "xml_parser::doctype_decl": "doctypedecl",
    "xml_parser::decl_sep": "DeclSep",
    "xml_parser::int_subset": "intSubset",
    "xml_parser::markup_decl": "markupdecl",
    "xml_parser::sd_decl": "SDDecl",
    "xml_parser::element": "element",
    "xml_parser::stag": "STag",
    "xml_parser::attribute": "Attribute",
    "xml_parser::etag": "ETag",
    "xml_parser::content": "content",
    "xml_parser::empty_entity_tag": "EmptyElemTag",
    "xml_parser::element_decl": "elementdecl",
    "xml_parser::content_spec": "contentspec",
    "xml_parser::children": "children",
    "xml_parser::cp": "cp",
    "xml_parser::choice": "choice",
    "xml_parser::seq": "seq",
    "xml_parser::mixed": "Mixed",
    "xml_parser::attlist_decl": "AttlistDecl",
    "xml_parser::att_def": "AttDef",
    "xml_parser::att_type": "AttType",
    "xml_parser::notation_type": "NotationType",
    "xml_parser::enumeration": "Enumeration",
    "xml_parser::default_decl": "DefaultDecl",
    "xml_parser::char_ref": "CharRef",
    "xml_parser::reference": "Reference",
    "xml_parser::entity_ref": "EntityRef",
    "xml_parser::pe_reference": "PEReference",
    "xml_parser::entity_decl": "EntityDecl",
    "xml_parser::ge_decl": "GEDecl",
    "xml_parser::pe_decl": "PEDecl",
    "xml_parser::entity_def": "EntityDef",
    "xml_parser::pe_def": "PEDef",
    "xml_parser::external_id": "ExternalID",
    "xml_parser::ndata_decl": "NDataDecl",
    "xml_parser::encoding_decl": "EncodingDecl",
    "xml_parser::enc_name": "EncName",
    "xml_parser::notation_decl": "NotationDecl",
    "xml_parser::public_id": "PublicID",
    "xml_parser::ns_att_name": "NSAttName",
    "xml_nom::ncname": "NCName",
    "xml_nom::qname": "QName",
    "xml_nom::prefixed_name": "PrefixedName",
}

# the productions property C18 names (name syntax)
# productions whose language is a character class or a name (C18): names, public-id and encoding-name literals, references by name
NAME_PRODUCTIONS = ["Name", "Nmtoken", "NCName", "PrefixedName", "QName", "PITarget", "EncName", "NSAttName",
                    "PubidLiteral", "EntityRef", "PEReference", "CharRef", "VersionNum"]

ATOM_FNS = {"xml_parser::element": "element", "xml_parser::cp": "cp"}
