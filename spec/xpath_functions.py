"""XPath 1.0 core function library (section 4): name -> (min args, max args).  None = unbounded.

The table of the library stores arities as a Range used inclusively on both ends (min_args = start,
max_args = end), so `2..2` means exactly two.
"""
CORE = {
    # 4.1 node set functions
    "last": (0, 0), "position": (0, 0), "count": (1, 1), "id": (1, 1), "local-name": (0, 1),
    "namespace-uri": (0, 1), "name": (0, 1),
    # 4.2 string functions
    "string": (0, 1), "concat": (2, None), "starts-with": (2, 2), "contains": (2, 2), "substring-before": (2, 2),
    "substring-after": (2, 2), "substring": (2, 3), "string-length": (0, 1), "normalize-space": (0, 1),
    "translate": (3, 3),
    # 4.3 boolean functions
    "boolean": (1, 1), "not": (1, 1), "true": (0, 0), "false": (0, 0), "lang": (1, 1),
    # 4.4 number functions
    "number": (0, 1), "sum": (1, 1), "floor": (1, 1), "ceiling": (1, 1), "round": (1, 1),
}

# name -> the primitive the implementation must apply (canonical callee name or marker)
PRIMITIVE = {
    "floor": "std::f64::<impl f64>::floor",
    "ceiling": "std::f64::<impl f64>::ceil",
    "starts-with": "core::str::<impl str>::starts_with",
    "contains": "core::str::<impl str>::contains",
    "position": "xml_xpath::eval::model::Context::get_position",
    "last": "xml_xpath::eval::model::Context::get_size",
    "string": "xml_xpath::eval::model::<impl std::convert::TryFrom<&eval::model::Value> for std::string::String>::try_from",
    "number": "xml_xpath::eval::model::<impl std::convert::TryFrom<&eval::model::Value> for f64>::try_from",
    "boolean": "xml_xpath::eval::model::<impl std::convert::TryFrom<&eval::model::Value> for bool>::try_from",
    "not": "xml_xpath::eval::model::<impl std::convert::TryFrom<&eval::model::Value> for bool>::try_from",
    "count": "std::vec::Vec::<T, A>::len",
    "substring-before": "core::str::<impl str>::split_once",
    "substring-after": "core::str::<impl str>::split_once",
    "string-length": "<std::str::Chars<'a> as std::iter::Iterator>::count",
    # concatenation in argument order: appending to one String, or collecting the converted arguments into one
    "concat": ("std::string::String::push_str", "std::iter::Iterator::collect", "std::ops::AddAssign::add_assign",
               "alloc::slice::<impl [T]>::concat", "std::slice::<impl [T]>::concat"),
}

# calls whose std semantics differ from XPath 1.0; none may be used on XPath values inside xml_xpath::eval
DISALLOWED = [
    (r"^std::f64::<impl f64>::round$", "ties away from zero; XPath rounds halves up"),
    (r"^core::str::<impl str>::len$|^std::string::String::len$", "byte length; XPath counts characters"),
    (r"^core::str::<impl str>::(split_at|split_at_checked|get)$|^core::str::traits::<impl std::ops::Index", "byte offsets"),
    (r"^core::str::<impl str>::parse$", "Rust number syntax (exponents, inf, nan, +); XPath has its own Number production"),
    (r"^core::str::<impl str>::(split_whitespace|trim|trim_start|trim_end|split_ascii_whitespace)$", "Unicode / ASCII white space; XPath has #x20 #x9 #xD #xA"),
    (r"^core::f64::<impl f64>::(trunc|round_ties_even)$|^std::f64::<impl f64>::(trunc|round_ties_even)$", "not an XPath rounding"),
    (r"^std::str::<impl str>::(to_lowercase|to_uppercase)$", "no case mapping in XPath 1.0"),
    (r"^core::str::<impl str>::(find|rfind|char_indices|match_indices|rmatch_indices|bytes|as_bytes|is_char_boundary)$",
     "byte offsets / bytes; XPath positions count characters"),
    (r"^(core|std)::f64::<impl f64>::(total_cmp|to_bits|max|min|clamp|signum|copysign)$",
     "not the IEEE 754 comparison XPath prescribes (NaN is unequal to everything, the two zeros are equal)"),
]

# functions of xml_xpath::eval in which a listed call is legitimate, with the reason
DISALLOWED_OK = {
    ("xml_xpath::eval::eval_primary_expr", "parse"): "parses a token that matched production [30] Number, a subset of Rust's syntax",
    ("xml_xpath::eval::model::number_from_str", "parse"): "called only after the string was checked against the XPath Number syntax",
}
