"""DOM Level 1 (Core) exception table for the mutators of this library: which DOMException class each
method may raise, typed in from https://www.w3.org/TR/REC-DOM-Level-1/level-one-core.html.

key: canonical path of the implementing function; value: set of DomException variants the function
itself constructs (exactly), or a pair (required, allowed) where the library refines the table."""

EXC = {
    # Node.insertBefore / appendChild: HIERARCHY_REQUEST_ERR, WRONG_DOCUMENT_ERR, NOT_FOUND_ERR (refChild)
    "xml_dom::<XmlDocument as NodeMut>::insert_before": {"WrongDocumentErr", "NotFoundErr", "HierarchyRequestErr"},
    "xml_dom::<XmlElement as NodeMut>::insert_before": {"WrongDocumentErr", "NotFoundErr", "HierarchyRequestErr"},
    "xml_dom::<XmlAttr as NodeMut>::insert_before": {"WrongDocumentErr", "NotFoundErr", "HierarchyRequestErr"},
    # Node.removeChild: NOT_FOUND_ERR (+ WRONG_DOCUMENT_ERR is this library's refinement for foreign nodes)
    "xml_dom::<XmlDocument as NodeMut>::remove_child": {"WrongDocumentErr", "NotFoundErr"},
    "xml_dom::<XmlElement as NodeMut>::remove_child": {"WrongDocumentErr", "NotFoundErr"},
    "xml_dom::<XmlAttr as NodeMut>::remove_child": {"WrongDocumentErr", "NotFoundErr"},
    # nodeValue of Document / Element is null: setting it has no effect / is refused
    "xml_dom::<XmlDocument as NodeMut>::set_node_value": {"NoDataAllowedErr"},
    "xml_dom::<XmlElement as NodeMut>::set_node_value": {"NoDataAllowedErr"},
    # leaves cannot have children
    "xml_dom::<XmlText as NodeMut>::insert_before": {"HierarchyRequestErr"},
    "xml_dom::<XmlText as NodeMut>::remove_child": {"HierarchyRequestErr"},
    "xml_dom::<XmlComment as NodeMut>::insert_before": {"HierarchyRequestErr"},
    "xml_dom::<XmlComment as NodeMut>::remove_child": {"HierarchyRequestErr"},
    "xml_dom::<XmlCDataSection as NodeMut>::insert_before": {"HierarchyRequestErr"},
    "xml_dom::<XmlCDataSection as NodeMut>::remove_child": {"HierarchyRequestErr"},
    "xml_dom::<XmlProcessingInstruction as NodeMut>::insert_before": {"HierarchyRequestErr"},
    "xml_dom::<XmlProcessingInstruction as NodeMut>::remove_child": {"HierarchyRequestErr"},
    # Element.setAttributeNode: WRONG_DOCUMENT_ERR, INUSE_ATTRIBUTE_ERR; removeAttributeNode: NOT_FOUND_ERR
    "xml_dom::<XmlElement as ElementMut>::set_attribute_node": {"WrongDocumentErr", "InuseAttributeErr"},
    "xml_dom::ElementMut::remove_attribute_node": {"NotFoundErr"},
    "xml_dom::<XmlElement as Node>::attributes::remove": {"NotFoundErr"},
    # Document.create*: INVALID_CHARACTER_ERR
    "xml_dom::<XmlDocument as DocumentMut>::create_element": {"InvalidCharacterErr"},
    "xml_dom::<XmlDocument as DocumentMut>::create_attribute": {"InvalidCharacterErr"},
    "xml_dom::<XmlDocument as DocumentMut>::create_processing_instruction": {"InvalidCharacterErr"},
    "xml_dom::<XmlDocument as DocumentMut>::create_entity_reference": {"InvalidCharacterErr"},
    # CharacterData: INDEX_SIZE_ERR
    "xml_dom::<XmlText as CharacterData>::substring_data": {"IndexSizeErr"},
    "xml_dom::<XmlText as CharacterDataMut>::insert_data": {"IndexSizeErr"},
    "xml_dom::<XmlText as CharacterDataMut>::delete_data": {"IndexSizeErr"},
    "xml_dom::<XmlComment as CharacterData>::substring_data": {"IndexSizeErr"},
    "xml_dom::<XmlComment as CharacterDataMut>::insert_data": {"IndexSizeErr"},
    "xml_dom::<XmlComment as CharacterDataMut>::delete_data": {"IndexSizeErr"},
    "xml_dom::<XmlCDataSection as CharacterData>::substring_data": {"IndexSizeErr"},
    "xml_dom::<XmlCDataSection as CharacterDataMut>::insert_data": {"IndexSizeErr"},
    "xml_dom::<XmlCDataSection as CharacterDataMut>::delete_data": {"IndexSizeErr"},
    "xml_dom::<XmlExpandedText as CharacterData>::substring_data": {"IndexSizeErr"},
    # Text.splitText: INDEX_SIZE_ERR (+ HIERARCHY_REQUEST_ERR for a text without element/attribute parent)
    "xml_dom::<XmlText as TextMut>::split_text": ({"IndexSizeErr"}, {"IndexSizeErr", "HierarchyRequestErr"}),
    "xml_dom::<XmlCDataSection as TextMut>::split_text": ({"IndexSizeErr"}, {"IndexSizeErr", "HierarchyRequestErr"}),
    # DocumentType.entities / notations are read-only maps: NO_MODIFICATION_ALLOWED_ERR
    "xml_dom::<XmlDocumentType as DocumentType>::entities::add": {"NoModificationAllowedErr"},
    "xml_dom::<XmlDocumentType as DocumentType>::entities::remove": {"NoModificationAllowedErr"},
    "xml_dom::<XmlDocumentType as DocumentType>::notations::add": {"NoModificationAllowedErr"},
    "xml_dom::<XmlDocumentType as DocumentType>::notations::remove": {"NoModificationAllowedErr"},
}

# in a match over the information-set error, the arm whose pattern names this variant must build this exception
ARM = {"OufOfIndex": "NotFoundErr"}
