// xfacts — rustc_private driver that dumps, per compilation unit of the analysed workspace,
// a JSON fact file: items, ADTs, typed syntax tree (HIR + typeck results, callees resolved),
// and MIR (control-flow graph with resolved callees, asserts, mentions).
//
// Used as RUSTC_WORKSPACE_WRAPPER: argv = [xfacts, rustc, <rustc args...>].
// Output directory: $XFACTS_OUT (one file per crate/unit, written in one write).
#![feature(rustc_private)]

extern crate rustc_abi;
extern crate rustc_ast;
extern crate rustc_driver;
extern crate rustc_hir;
extern crate rustc_interface;
extern crate rustc_middle;
extern crate rustc_span;

use rustc_driver::Compilation;
use rustc_hir as hir;
use rustc_hir::def::{DefKind, Res};
use rustc_hir::def_id::{DefId, LocalDefId};
use rustc_interface::interface;
use rustc_middle::mir;
use rustc_middle::ty::{self, Instance, Ty, TyCtxt, TypeVisitableExt, TypingEnv};
use rustc_span::Span;
use std::fmt::Write as _;

mod json;
use json::J;

struct Cb;

impl rustc_driver::Callbacks for Cb {
    fn config(&mut self, _config: &mut interface::Config) {}

    fn after_analysis<'tcx>(
        &mut self,
        _compiler: &interface::Compiler,
        tcx: TyCtxt<'tcx>,
    ) -> Compilation {
        let out_dir = match std::env::var("XFACTS_OUT") {
            Ok(v) => v,
            Err(_) => return Compilation::Continue,
        };
        let crate_name = tcx.crate_name(rustc_hir::def_id::LOCAL_CRATE).to_string();
        let only = std::env::var("XFACTS_CRATES").unwrap_or_default();
        if !only.is_empty() && !only.split(',').any(|c| c == crate_name) {
            return Compilation::Continue;
        }
        let dump = Dumper { tcx, crate_name: crate_name.clone() };
        let j = dump.dump_crate();
        let mut s = String::new();
        j.write(&mut s);
        let path = format!("{}/{}.json", out_dir, crate_name);
        let tmp = format!("{}.tmp{}", path, std::process::id());
        std::fs::write(&tmp, s).expect("xfacts: cannot write facts");
        std::fs::rename(&tmp, &path).expect("xfacts: cannot rename facts");
        Compilation::Continue
    }
}

struct Dumper<'tcx> {
    tcx: TyCtxt<'tcx>,
    crate_name: String,
}

fn jstr(s: impl Into<String>) -> J {
    J::Str(s.into())
}

impl<'tcx> Dumper<'tcx> {
    // ---------------------------------------------------------------- naming

    fn path_of(&self, def_id: DefId) -> String {
        let p = ty::print::with_no_trimmed_paths!(self.tcx.def_path_str(def_id));
        if def_id.is_local() {
            format!("{}::{}", self.crate_name, p)
        } else {
            p
        }
    }

    fn path_with_args(&self, def_id: DefId, args: ty::GenericArgsRef<'tcx>) -> String {
        let p = ty::print::with_no_trimmed_paths!(self.tcx.def_path_str_with_args(def_id, args));
        if def_id.is_local() && !p.starts_with('<') {
            format!("{}::{}", self.crate_name, p)
        } else {
            p
        }
    }

    fn id_of(&self, def_id: DefId) -> String {
        self.tcx.def_path_hash(def_id).0.to_hex()
    }

    fn ty_str(&self, t: Ty<'tcx>) -> String {
        ty::print::with_no_trimmed_paths!(format!("{}", t))
    }

    fn loc(&self, span: Span) -> (String, usize) {
        let span = span.source_callsite();
        let sm = self.tcx.sess.source_map();
        let lo = sm.lookup_char_pos(span.lo());
        let file = match &lo.file.name {
            rustc_span::FileName::Real(r) => match r.local_path() {
                Some(p) => p.to_string_lossy().to_string(),
                None => format!("{:?}", r),
            },
            other => format!("{:?}", other),
        };
        (file, lo.line)
    }

    fn line(&self, span: Span) -> J {
        J::Num(self.loc(span).1 as i64)
    }

    fn macro_info(&self, span: Span, o: &mut Vec<(&'static str, J)>) {
        if !span.from_expansion() {
            return;
        }
        // outermost user-written macro invocation
        let mut sp = span;
        let mut name = String::new();
        let mut chain: Vec<String> = vec![];
        while sp.from_expansion() {
            let ed = sp.ctxt().outer_expn_data();
            name = ed.kind.descr();
            chain.push(name.clone());
            sp = ed.call_site;
        }
        o.push(("mac", jstr(name)));
        if chain.len() > 1 {
            o.push(("macs", J::Arr(chain.into_iter().map(jstr).collect())));
        }
        if let Ok(snip) = self.tcx.sess.source_map().span_to_snippet(sp) {
            if snip.len() <= 400 {
                o.push(("snip", jstr(snip)));
            }
        }
    }

    // Resolve a (possibly trait) fn def + args to the concrete implementation if possible.
    fn resolve(
        &self,
        owner: LocalDefId,
        def_id: DefId,
        args: ty::GenericArgsRef<'tcx>,
    ) -> Option<(DefId, ty::GenericArgsRef<'tcx>)> {
        match self.tcx.def_kind(def_id) {
            DefKind::Fn | DefKind::AssocFn => {}
            _ => return None,
        }
        // a trait item needs at least its Self argument; generic parents need all theirs
        let generics = self.tcx.generics_of(def_id);
        if args.len() < generics.count() {
            return None;
        }
        if args.iter().any(|a| a.has_escaping_bound_vars()) {
            return None;
        }
        let env = TypingEnv::post_analysis(self.tcx, owner);
        let args = self.tcx.erase_and_anonymize_regions(args);
        let args = match self.tcx.try_normalize_erasing_regions(env, ty::Unnormalized::new_wip(args)) {
            Ok(a) => a,
            Err(_) => args,
        };
        match Instance::try_resolve(self.tcx, env, def_id, args) {
            Ok(Some(inst)) => match inst.def {
                ty::InstanceKind::Item(d) => Some((d, inst.args)),
                ty::InstanceKind::Virtual(d, _) => Some((d, inst.args)),
                ty::InstanceKind::ReifyShim(d, _) => Some((d, inst.args)),
                ty::InstanceKind::ClosureOnceShim { call_once, .. } => Some((call_once, inst.args)),
                ty::InstanceKind::FnPtrShim(d, _) => Some((d, inst.args)),
                ty::InstanceKind::CloneShim(d, _) => Some((d, inst.args)),
                ty::InstanceKind::DropGlue(d, _) => Some((d, inst.args)),
                ty::InstanceKind::Intrinsic(d) => Some((d, inst.args)),
                _ => Some((inst.def_id(), inst.args)),
            },
            _ => None,
        }
    }

    fn is_foreign_leaf_crate(&self, did: DefId) -> bool {
        if did.is_local() {
            return false;
        }
        let n = self.tcx.crate_name(did.krate);
        let n = n.as_str();
        matches!(n, "std" | "core" | "alloc" | "nom" | "memchr" | "minimal_lexical" | "proc_macro" | "test")
    }

    fn assoc_fn_named(&self, trait_did: DefId, name: &str) -> Option<DefId> {
        for it in self.tcx.associated_items(trait_did).in_definition_order() {
            if it.is_fn() && it.name().as_str() == name {
                return Some(it.def_id);
            }
        }
        None
    }

    // std generic code that calls back into user code through a trait bound:
    // <Rc<T> as Display>::fmt -> <T as Display>::fmt, Into::into -> From::from, to_string -> Display::fmt,
    // fmt::rt::Argument::new_display::<T> -> <T as Display>::fmt ...
    fn forwards(
        &self,
        owner: LocalDefId,
        rd: DefId,
        rargs: ty::GenericArgsRef<'tcx>,
    ) -> Vec<(DefId, ty::GenericArgsRef<'tcx>)> {
        let tcx = self.tcx;
        let mut out = vec![];
        if !self.is_foreign_leaf_crate(rd) {
            // a generic function of the workspace instantiated with a user type: the calls of its body (and of the closures it
            // builds) whose callee depends on a type parameter are resolved with the type arguments of *this* call
            // (`fn concat_display<T: Display>(..)` called with T = XmlAttributeValue reaches <XmlAttributeValue as Display>::fmt
            // through `v.to_string()`, which the generic body alone cannot name)
            if rargs.iter().any(|a| a.as_type().is_some())
                && matches!(tcx.def_kind(rd), rustc_hir::def::DefKind::Fn | rustc_hir::def::DefKind::AssocFn)
                && rd.is_local()
                && tcx.is_mir_available(rd)
            {
                let mut bodies: Vec<(DefId, ty::GenericArgsRef<'tcx>)> = vec![(rd, rargs)];
                let mut seen_bodies = 0usize;
                while seen_bodies < bodies.len() && bodies.len() < 16 {
                    let (bd, bargs) = bodies[seen_bodies];
                    seen_bodies += 1;
                    if !bd.is_local() || !tcx.is_mir_available(bd) {
                        continue;
                    }
                    let body = tcx.optimized_mir(bd);
                    for bb in body.basic_blocks.iter() {
                        for st in bb.statements.iter() {
                            if let mir::StatementKind::Assign(b) = &st.kind {
                                if let mir::Rvalue::Aggregate(k, _) = &b.1 {
                                    if let mir::AggregateKind::Closure(cd, cargs) = &**k {
                                        let inst = ty::EarlyBinder::bind(*cargs).instantiate(tcx, bargs).skip_norm_wip();
                                        if !bodies.iter().any(|(x, _)| x == cd) {
                                            bodies.push((*cd, inst));
                                        }
                                    }
                                }
                            }
                        }
                        if let Some(term) = &bb.terminator {
                            if let mir::TerminatorKind::Call { func, .. } = &term.kind {
                                if let Some((cd, cargs)) = func.const_fn_def() {
                                    if !cargs.iter().any(|a| a.walk().any(|x| matches!(x.as_type().map(|t| t.kind()), Some(ty::Param(_))))) {
                                        continue;   // does not depend on a type parameter: already an ordinary edge of the callee
                                    }
                                    let inst = ty::EarlyBinder::bind(cargs).instantiate(tcx, bargs).skip_norm_wip();
                                    if inst.iter().any(|a| a.walk().any(|x| matches!(x.as_type().map(|t| t.kind()), Some(ty::Param(_))))) {
                                        continue;
                                    }
                                    if let Some((d, da)) = self.resolve(owner, cd, inst) {
                                        if self.is_foreign_leaf_crate(d) {
                                            for (d2, da2) in self.forwards(owner, d, da) {
                                                if !out.iter().any(|(x, _)| *x == d2) {
                                                    out.push((d2, da2));
                                                }
                                            }
                                        } else if !out.iter().any(|(x, _)| *x == d) {
                                            out.push((d, da));
                                        }
                                    }
                                }
                            }
                        }
                    }
                }
            }
            return out;
        }
        let user_tys: Vec<Ty<'tcx>> = rargs
            .iter()
            .flat_map(|a| a.walk())
            .filter_map(|a| a.as_type())
            .filter(|t| match t.kind() {
                ty::Adt(adt, _) => !self.is_foreign_leaf_crate(adt.did()),
                ty::Closure(..) => false,
                _ => false,
            })
            .collect();
        if user_tys.is_empty() {
            return out;
        }
        let name = self.path_of(rd);
        let mut try_push = |tm: DefId, args: Vec<ty::GenericArg<'tcx>>| {
            let a = tcx.mk_args(&args);
            if let Some((d, da)) = self.resolve(owner, tm, a) {
                if !self.is_foreign_leaf_crate(d) && !out.iter().any(|(x, _)| *x == d) {
                    out.push((d, da));
                }
            }
        };
        use rustc_span::sym;
        let display = tcx.get_diagnostic_item(sym::Display).and_then(|t| self.assoc_fn_named(t, "fmt"));
        let debug = tcx.get_diagnostic_item(sym::Debug).and_then(|t| self.assoc_fn_named(t, "fmt"));
        if name.ends_with("::new_display") || name.ends_with("::to_string") {
            if let Some(tm) = display {
                for t in &user_tys {
                    try_push(tm, vec![(*t).into()]);
                }
            }
            return out;
        }
        if name.ends_with("::new_debug") {
            if let Some(tm) = debug {
                for t in &user_tys {
                    try_push(tm, vec![(*t).into()]);
                }
            }
            return out;
        }
        if name.ends_with("std::convert::Into<U>>::into") && rargs.len() == 2 {
            if let Some(tm) = tcx.get_diagnostic_item(sym::From).and_then(|t| self.assoc_fn_named(t, "from")) {
                try_push(tm, vec![rargs[1], rargs[0]]);
            }
            return out;
        }
        if name.ends_with("std::convert::TryInto<U>>::try_into") && rargs.len() == 2 {
            if let Some(tm) = tcx.get_diagnostic_item(sym::TryFrom).and_then(|t| self.assoc_fn_named(t, "try_from")) {
                try_push(tm, vec![rargs[1], rargs[0]]);
            }
            return out;
        }
        // a provided (default) method of a std trait, instantiated for a user type, is written in terms of the other methods
        // of the trait: `a != b` is PartialEq::ne, whose body calls the user's eq; lt / le / gt / ge call partial_cmp ...
        if let Some(tr) = tcx.trait_of_assoc(rd) {
            if tcx.parent(rd) == tr {
                let n = tcx.generics_of(tr).count();
                if rargs.len() >= n {
                    let targs: Vec<ty::GenericArg<'tcx>> = rargs.iter().take(n).collect();
                    for it in tcx.associated_items(tr).in_definition_order() {
                        if it.is_fn() && it.def_id != rd && tcx.generics_of(it.def_id).count() == n {
                            try_push(it.def_id, targs.clone());
                        }
                    }
                }
            }
        }
        // generic rule: a trait-impl method of std forwards to the same trait method of the user types
        if let Some(tm) = tcx.trait_item_of(rd) {
            if let Some(tr) = tcx.trait_of_assoc(tm) {
                let n = tcx.generics_of(tr).count();
                if tcx.generics_of(tm).count() == n {
                    for t in &user_tys {
                        if n == 1 {
                            try_push(tm, vec![(*t).into()]);
                        } else if n == 2 {
                            try_push(tm, vec![(*t).into(), (*t).into()]);
                        }
                    }
                }
            }
        }
        out
    }

    fn callee_fields(
        &self,
        owner: LocalDefId,
        def_id: DefId,
        args: ty::GenericArgsRef<'tcx>,
        o: &mut Vec<(&'static str, J)>,
    ) {
        o.push(("path", jstr(self.path_of(def_id))));
        o.push(("id", jstr(self.id_of(def_id))));
        o.push(("pathargs", jstr(self.path_with_args(def_id, args))));
        // trait method?
        if let Some(tr) = self.tcx.trait_of_assoc(def_id) {
            o.push(("trait", jstr(self.path_of(tr))));
            if args.len() > 0 {
                if let Some(t) = args.get(0).and_then(|a| a.as_type()) {
                    o.push(("selfty", jstr(self.ty_str(t))));
                }
            }
        }
        if let Some((rd, rargs)) = self.resolve(owner, def_id, args) {
            let fw = self.forwards(owner, rd, rargs);
            if !fw.is_empty() {
                let mut v = vec![];
                for (d, _) in fw {
                    v.push(J::obj(vec![("path", jstr(self.path_of(d))), ("id", jstr(self.id_of(d)))]));
                }
                o.push(("fwd", J::Arr(v)));
            }
            if rd != def_id {
                o.push(("rpath", jstr(self.path_of(rd))));
                o.push(("rid", jstr(self.id_of(rd))));
                o.push(("rpathargs", jstr(self.path_with_args(rd, rargs))));
            } else {
                o.push(("res", J::Bool(true)));
            }
        }
    }

    // ---------------------------------------------------------------- crate

    fn dump_crate(&self) -> J {
        let tcx = self.tcx;
        let mut fns = vec![];
        let mut consts = vec![];
        for ldid in tcx.hir_body_owners() {
            let kind = tcx.def_kind(ldid);
            match kind {
                DefKind::Fn | DefKind::AssocFn => {}
                DefKind::Closure => {}
                DefKind::Const { .. } | DefKind::Static { .. } => {
                    // named constants: path + initialiser (typed tree), so that `NAME.contains(c)` can be read
                    let did = ldid.to_def_id();
                    let body = tcx.hir_body_owned_by(ldid);
                    let typeck = tcx.typeck(ldid);
                    let hd = HirDump { d: self, owner: ldid, typeck };
                    let (file, line) = self.loc(tcx.def_span(ldid));
                    consts.push(J::obj(vec![
                        ("path", jstr(self.path_of(did))),
                        ("id", jstr(self.id_of(did))),
                        ("file", jstr(file)),
                        ("line", J::Num(line as i64)),
                        ("body", hd.expr(body.value)),
                    ]));
                    continue;
                }
                _ => continue,
            }
            fns.push(self.dump_fn(ldid, kind));
        }

        let mut adts = vec![];
        let mut impls = vec![];
        let mut traits = vec![];
        let items = tcx.hir_crate_items(());
        for ldid in items.definitions() {
            match tcx.def_kind(ldid) {
                DefKind::Struct | DefKind::Enum => {
                    adts.push(self.dump_adt(ldid));
                }
                DefKind::Impl { .. } => {
                    impls.push(self.dump_impl(ldid));
                }
                DefKind::Trait => {
                    let mut o = vec![("path", jstr(self.path_of(ldid.to_def_id())))];
                    let mut methods = vec![];
                    for it in tcx.associated_items(ldid.to_def_id()).in_definition_order() {
                        if it.is_fn() {
                            let mut m = vec![("name", jstr(it.name().to_string()))];
                            m.push(("path", jstr(self.path_of(it.def_id))));
                            m.push(("id", jstr(self.id_of(it.def_id))));
                            m.push(("has_default", J::Bool(it.defaultness(tcx).has_value())));
                            methods.push(J::obj(m));
                        }
                    }
                    o.push(("methods", J::Arr(methods)));
                    traits.push(J::obj(o));
                }
                _ => {}
            }
        }

        J::obj(vec![
            ("crate", jstr(self.crate_name.clone())),
            ("fns", J::Arr(fns)),
            ("consts", J::Arr(consts)),
            ("adts", J::Arr(adts)),
            ("impls", J::Arr(impls)),
            ("traits", J::Arr(traits)),
        ])
    }

    fn dump_adt(&self, ldid: LocalDefId) -> J {
        let tcx = self.tcx;
        let adt = tcx.adt_def(ldid.to_def_id());
        let mut o = vec![("path", jstr(self.path_of(ldid.to_def_id())))];
        o.push(("kind", jstr(if adt.is_enum() { "enum" } else { "struct" })));
        let (file, line) = self.loc(tcx.def_span(ldid));
        o.push(("file", jstr(file)));
        o.push(("line", J::Num(line as i64)));
        let mut variants = vec![];
        for v in adt.variants() {
            let mut fields = vec![];
            for f in v.fields.iter() {
                let fty = tcx.type_of(f.did).instantiate_identity().skip_norm_wip();
                fields.push(J::obj(vec![
                    ("name", jstr(f.name.to_string())),
                    ("ty", jstr(self.ty_str(fty))),
                ]));
            }
            variants.push(J::obj(vec![
                ("name", jstr(v.name.to_string())),
                ("fields", J::Arr(fields)),
            ]));
        }
        o.push(("variants", J::Arr(variants)));
        J::obj(o)
    }

    fn dump_impl(&self, ldid: LocalDefId) -> J {
        let tcx = self.tcx;
        let did = ldid.to_def_id();
        let mut o = vec![];
        let selfty = tcx.type_of(did).instantiate_identity().skip_norm_wip();
        o.push(("selfty", jstr(self.ty_str(selfty))));
        if let Some(tr) = tcx.impl_opt_trait_ref(did) {
            let tr = tr.instantiate_identity().skip_norm_wip();
            o.push(("trait", jstr(self.path_of(tr.def_id))));
            o.push(("traitref", jstr(ty::print::with_no_trimmed_paths!(format!("{}", tr)))));
        }
        let mut methods = vec![];
        for it in tcx.associated_items(did).in_definition_order() {
            if it.is_fn() {
                let mut m = vec![("name", jstr(it.name().to_string()))];
                m.push(("path", jstr(self.path_of(it.def_id))));
                m.push(("id", jstr(self.id_of(it.def_id))));
                if let Some(t) = it.trait_item_def_id() {
                    m.push(("trait_item", jstr(self.path_of(t))));
                    m.push(("trait_item_id", jstr(self.id_of(t))));
                }
                methods.push(J::obj(m));
            }
        }
        o.push(("methods", J::Arr(methods)));
        let (file, line) = self.loc(tcx.def_span(ldid));
        o.push(("file", jstr(file)));
        o.push(("line", J::Num(line as i64)));
        J::obj(o)
    }

    // ---------------------------------------------------------------- fn

    fn dump_fn(&self, ldid: LocalDefId, kind: DefKind) -> J {
        let tcx = self.tcx;
        let did = ldid.to_def_id();
        let mut o: Vec<(&'static str, J)> = vec![];
        o.push(("path", jstr(self.path_of(did))));
        o.push(("id", jstr(self.id_of(did))));
        o.push(("name", jstr(tcx.item_name(tcx.typeck_root_def_id(did)).to_string())));
        o.push(("kind", jstr(format!("{:?}", kind))));
        let (file, line) = self.loc(tcx.def_span(ldid));
        o.push(("file", jstr(file)));
        o.push(("line", J::Num(line as i64)));
        match kind {
            DefKind::Fn | DefKind::AssocFn => {
                o.push(("vis", jstr(format!("{:?}", tcx.visibility(did)))));
                o.push(("sig", jstr(ty::print::with_no_trimmed_paths!(format!(
                    "{}",
                    tcx.fn_sig(did).instantiate_identity().skip_norm_wip()
                )))));
            }
            _ => {}
        }
        if let DefKind::AssocFn = kind {
            let it = tcx.associated_item(did);
            if let Some(t) = it.trait_item_def_id() {
                o.push(("trait_item", jstr(self.path_of(t))));
                o.push(("trait_item_id", jstr(self.id_of(t))));
            }
            let parent = tcx.parent(did);
            match tcx.def_kind(parent) {
                DefKind::Impl { .. } => {
                    let selfty = tcx.type_of(parent).instantiate_identity().skip_norm_wip();
                    o.push(("impl_self", jstr(self.ty_str(selfty))));
                    if tcx.is_automatically_derived(parent) {
                        o.push(("derived", J::Bool(true)));
                    }
                    if let Some(tr) = tcx.impl_opt_trait_ref(parent) {
                        let tr = tr.instantiate_identity().skip_norm_wip();
                        o.push(("impl_trait", jstr(self.path_of(tr.def_id))));
                    }
                }
                DefKind::Trait => {
                    o.push(("in_trait", jstr(self.path_of(parent))));
                }
                _ => {}
            }
        }
        if let DefKind::Closure = kind {
            o.push(("parent", jstr(self.path_of(tcx.parent(did)))));
            o.push(("parent_id", jstr(self.id_of(tcx.parent(did)))));
        } else {
            // nested fn item?
            let parent = tcx.parent(did);
            if matches!(tcx.def_kind(parent), DefKind::Fn | DefKind::AssocFn | DefKind::Closure) {
                o.push(("parent", jstr(self.path_of(parent))));
                o.push(("parent_id", jstr(self.id_of(parent))));
            }
        }
        // docs
        let hir_id = tcx.local_def_id_to_hir_id(ldid);
        let mut doc = String::new();
        for attr in tcx.hir_attrs(hir_id) {
            if let Some((sym, _)) = attr.doc_str_and_fragment_kind() {
                doc.push_str(sym.as_str());
                doc.push('\n');
            }
        }
        if !doc.is_empty() {
            o.push(("doc", jstr(doc)));
        }

        // typed tree (closures are dumped inline in their parent)
        if !matches!(kind, DefKind::Closure) {
            let body = tcx.hir_body_owned_by(ldid);
            let typeck = tcx.typeck(ldid);
            let hd = HirDump { d: self, owner: ldid, typeck };
            let mut params = vec![];
            for p in body.params {
                params.push(hd.pat(p.pat));
            }
            o.push(("params", J::Arr(params)));
            o.push(("body", hd.expr(body.value)));
        }

        // MIR
        if tcx.is_mir_available(did) {
            let body = tcx.optimized_mir(did);
            o.push(("mir", self.dump_mir(ldid, body)));
        }
        J::obj(o)
    }

    // ---------------------------------------------------------------- MIR

    fn operand(&self, owner: LocalDefId, op: &mir::Operand<'tcx>, mentions: &mut Vec<J>) -> J {
        match op {
            mir::Operand::Copy(p) => jstr(format!("{:?}", p)),
            mir::Operand::Move(p) => jstr(format!("move {:?}", p)),
            mir::Operand::Constant(c) => {
                let t = c.const_.ty();
                match t.kind() {
                    ty::FnDef(d, args) => {
                        let mut o = vec![("k", jstr("fn"))];
                        self.callee_fields(owner, *d, args, &mut o);
                        let j = J::obj(o);
                        mentions.push(j.clone());
                        j
                    }
                    _ => {
                        let mut s = String::new();
                        let _ = write!(s, "{}", ty::print::with_no_trimmed_paths!(format!("{}", c.const_)));
                        J::obj(vec![("k", jstr("const")), ("v", jstr(s)), ("ty", jstr(self.ty_str(t)))])
                    }
                }
            }
            #[allow(unreachable_patterns)]
            _ => jstr(format!("{:?}", op)),
        }
    }

    fn dump_mir(&self, owner: LocalDefId, body: &mir::Body<'tcx>) -> J {
        let mut locals = vec![];
        let mut names: std::collections::HashMap<usize, String> = Default::default();
        for vdi in &body.var_debug_info {
            if let mir::VarDebugInfoContents::Place(p) = &vdi.value {
                if p.projection.is_empty() {
                    names.insert(p.local.as_usize(), vdi.name.to_string());
                } else {
                    names
                        .entry(p.local.as_usize())
                        .or_insert_with(|| format!("{}@{:?}", vdi.name, p));
                }
            }
        }
        for (i, l) in body.local_decls.iter_enumerated() {
            let mut o = vec![("ty", jstr(self.ty_str(l.ty)))];
            if let Some(n) = names.get(&i.as_usize()) {
                o.push(("name", jstr(n.clone())));
            }
            locals.push(J::obj(o));
        }
        let mut blocks = vec![];
        for (_bb, data) in body.basic_blocks.iter_enumerated() {
            let mut stmts = vec![];
            for st in &data.statements {
                if let mir::StatementKind::Assign(b) = &st.kind {
                    let (place, rv) = &**b;
                    let mut mentions = vec![];
                    let mut o: Vec<(&'static str, J)> = vec![];
                    o.push(("l", jstr(format!("{:?}", place))));
                    o.push(("ll", J::Num(place.local.as_usize() as i64)));
                    o.push(("ln", self.line(st.source_info.span)));
                    match rv {
                        mir::Rvalue::Use(op, ..) => {
                            o.push(("rv", jstr("Use")));
                            o.push(("ops", J::Arr(vec![self.operand(owner, op, &mut mentions)])));
                        }
                        mir::Rvalue::Ref(_, bk, p) => {
                            o.push(("rv", jstr("Ref")));
                            o.push(("mut", J::Bool(matches!(bk, mir::BorrowKind::Mut { .. }))));
                            o.push(("ops", J::Arr(vec![jstr(format!("{:?}", p))])));
                        }
                        mir::Rvalue::RawPtr(_, p) => {
                            o.push(("rv", jstr("RawPtr")));
                            o.push(("ops", J::Arr(vec![jstr(format!("{:?}", p))])));
                        }
                        mir::Rvalue::Cast(ck, op, t) => {
                            o.push(("rv", jstr("Cast")));
                            o.push(("cast", jstr(format!("{:?}", ck))));
                            o.push(("ty", jstr(self.ty_str(*t))));
                            o.push(("ops", J::Arr(vec![self.operand(owner, op, &mut mentions)])));
                            if let mir::CastKind::PointerCoercion(..) = ck {
                                // address-taken: fn item or closure coerced to fn ptr / dyn
                                if !mentions.is_empty() {
                                    o.push(("addr_taken", J::Bool(true)));
                                }
                            }
                        }
                        mir::Rvalue::BinaryOp(bop, ops) => {
                            o.push(("rv", jstr("BinaryOp")));
                            o.push(("op", jstr(format!("{:?}", bop))));
                            let (a, b2) = &**ops;
                            o.push((
                                "ops",
                                J::Arr(vec![
                                    self.operand(owner, a, &mut mentions),
                                    self.operand(owner, b2, &mut mentions),
                                ]),
                            ));
                        }
                        mir::Rvalue::UnaryOp(uop, op) => {
                            o.push(("rv", jstr("UnaryOp")));
                            o.push(("op", jstr(format!("{:?}", uop))));
                            o.push(("ops", J::Arr(vec![self.operand(owner, op, &mut mentions)])));
                        }
                        mir::Rvalue::Discriminant(p) => {
                            o.push(("rv", jstr("Discriminant")));
                            o.push(("ops", J::Arr(vec![jstr(format!("{:?}", p))])));
                        }
                        mir::Rvalue::Aggregate(ak, ops) => {
                            o.push(("rv", jstr("Aggregate")));
                            match &**ak {
                                mir::AggregateKind::Adt(d, vi, _, _, _) => {
                                    let adt = self.tcx.adt_def(*d);
                                    o.push(("adt", jstr(self.path_of(*d))));
                                    o.push(("variant", jstr(adt.variant(*vi).name.to_string())));
                                }
                                mir::AggregateKind::Closure(d, _) => {
                                    o.push(("closure", jstr(self.path_of(*d))));
                                    mentions.push(J::obj(vec![
                                        ("k", jstr("closure")),
                                        ("path", jstr(self.path_of(*d))),
                                        ("id", jstr(self.id_of(*d))),
                                    ]));
                                }
                                mir::AggregateKind::Tuple => o.push(("agg", jstr("Tuple"))),
                                mir::AggregateKind::Array(_) => o.push(("agg", jstr("Array"))),
                                other => o.push(("agg", jstr(format!("{:?}", other)))),
                            }
                            let mut v = vec![];
                            for op in ops.iter() {
                                v.push(self.operand(owner, op, &mut mentions));
                            }
                            o.push(("ops", J::Arr(v)));
                        }
                        mir::Rvalue::CopyForDeref(p) => {
                            o.push(("rv", jstr("CopyForDeref")));
                            o.push(("ops", J::Arr(vec![jstr(format!("{:?}", p))])));
                        }
                        mir::Rvalue::Repeat(op, _) => {
                            o.push(("rv", jstr("Repeat")));
                            o.push(("ops", J::Arr(vec![self.operand(owner, op, &mut mentions)])));
                        }
                        other => {
                            o.push(("rv", jstr("Other")));
                            o.push(("dbg", jstr(format!("{:?}", other))));
                        }
                    }
                    if !mentions.is_empty() {
                        o.push(("mentions", J::Arr(mentions)));
                    }
                    stmts.push(J::obj(o));
                }
            }
            let term = data.terminator();
            let mut t: Vec<(&'static str, J)> = vec![];
            t.push(("ln", self.line(term.source_info.span)));
            match &term.kind {
                mir::TerminatorKind::Goto { target } => {
                    t.push(("k", jstr("Goto")));
                    t.push(("succ", J::Arr(vec![J::Num(target.as_usize() as i64)])));
                }
                mir::TerminatorKind::SwitchInt { discr, targets } => {
                    t.push(("k", jstr("SwitchInt")));
                    let mut m = vec![];
                    t.push(("discr", self.operand(owner, discr, &mut m)));
                    let mut vals = vec![];
                    let mut succ = vec![];
                    for (v, bb) in targets.iter() {
                        vals.push(J::Str(v.to_string()));
                        succ.push(J::Num(bb.as_usize() as i64));
                    }
                    succ.push(J::Num(targets.otherwise().as_usize() as i64));
                    t.push(("vals", J::Arr(vals)));
                    t.push(("succ", J::Arr(succ)));
                }
                mir::TerminatorKind::Return => {
                    t.push(("k", jstr("Return")));
                    t.push(("succ", J::Arr(vec![])));
                }
                mir::TerminatorKind::Unreachable => {
                    t.push(("k", jstr("Unreachable")));
                    t.push(("succ", J::Arr(vec![])));
                }
                mir::TerminatorKind::UnwindResume | mir::TerminatorKind::UnwindTerminate(_) => {
                    t.push(("k", jstr("Unwind")));
                    t.push(("succ", J::Arr(vec![])));
                }
                mir::TerminatorKind::Drop { place, target, .. } => {
                    t.push(("k", jstr("Drop")));
                    t.push(("place", jstr(format!("{:?}", place))));
                    t.push(("succ", J::Arr(vec![J::Num(target.as_usize() as i64)])));
                }
                mir::TerminatorKind::Call { func, args, destination, target, fn_span, .. } => {
                    t.push(("k", jstr("Call")));
                    t.push(("ln", self.line(*fn_span)));
                    let mut mentions = vec![];
                    let fty = func.ty(&body.local_decls, self.tcx);
                    match fty.kind() {
                        ty::FnDef(d, gargs) => {
                            let mut o = vec![];
                            self.callee_fields(owner, *d, gargs, &mut o);
                            t.push(("callee", J::obj(o)));
                        }
                        _ => {
                            t.push(("indirect", jstr(self.ty_str(fty))));
                            let mut m = vec![];
                            t.push(("func", self.operand(owner, func, &mut m)));
                        }
                    }
                    let mut av = vec![];
                    for a in args.iter() {
                        av.push(self.operand(owner, &a.node, &mut mentions));
                    }
                    t.push(("args", J::Arr(av)));
                    t.push(("dest", jstr(format!("{:?}", destination))));
                    t.push(("destl", J::Num(destination.local.as_usize() as i64)));
                    match target {
                        Some(bb) => t.push(("succ", J::Arr(vec![J::Num(bb.as_usize() as i64)]))),
                        None => t.push(("succ", J::Arr(vec![]))),
                    }
                    if !mentions.is_empty() {
                        t.push(("mentions", J::Arr(mentions)));
                    }
                    self.macro_info(term.source_info.span, &mut t);
                }
                mir::TerminatorKind::TailCall { .. } => {
                    t.push(("k", jstr("TailCall")));
                    t.push(("succ", J::Arr(vec![])));
                }
                mir::TerminatorKind::Assert { cond, expected, msg, target, .. } => {
                    t.push(("k", jstr("Assert")));
                    let mut m = vec![];
                    t.push(("cond", self.operand(owner, cond, &mut m)));
                    t.push(("expected", J::Bool(*expected)));
                    let kind = match &**msg {
                        mir::AssertKind::BoundsCheck { .. } => "BoundsCheck".to_string(),
                        mir::AssertKind::Overflow(op, a, b) => {
                            let mut mm = vec![];
                            t.push((
                                "ovf_ops",
                                J::Arr(vec![
                                    self.operand(owner, a, &mut mm),
                                    self.operand(owner, b, &mut mm),
                                ]),
                            ));
                            format!("Overflow({:?})", op)
                        }
                        mir::AssertKind::OverflowNeg(_) => "OverflowNeg".to_string(),
                        mir::AssertKind::DivisionByZero(_) => "DivisionByZero".to_string(),
                        mir::AssertKind::RemainderByZero(_) => "RemainderByZero".to_string(),
                        mir::AssertKind::MisalignedPointerDereference { .. } => "Misaligned".to_string(),
                        mir::AssertKind::NullPointerDereference => "NullDeref".to_string(),
                        other => format!("{:?}", std::mem::discriminant(other)),
                    };
                    t.push(("assert", jstr(kind)));
                    t.push(("succ", J::Arr(vec![J::Num(target.as_usize() as i64)])));
                }
                other => {
                    t.push(("k", jstr("Other")));
                    t.push(("dbg", jstr(format!("{:?}", std::mem::discriminant(other)))));
                    let mut succ = vec![];
                    for s in other.successors() {
                        succ.push(J::Num(s.as_usize() as i64));
                    }
                    t.push(("succ", J::Arr(succ)));
                }
            }
            let mut b = vec![("stmts", J::Arr(stmts)), ("term", J::obj(t))];
            if data.is_cleanup {
                b.push(("cleanup", J::Bool(true)));
            }
            blocks.push(J::obj(b));
        }
        J::obj(vec![
            ("argc", J::Num(body.arg_count as i64)),
            ("locals", J::Arr(locals)),
            ("blocks", J::Arr(blocks)),
        ])
    }
}

// -------------------------------------------------------------------- typed tree

struct HirDump<'a, 'tcx> {
    d: &'a Dumper<'tcx>,
    owner: LocalDefId,
    typeck: &'tcx ty::TypeckResults<'tcx>,
}

impl<'a, 'tcx> HirDump<'a, 'tcx> {
    fn tcx(&self) -> TyCtxt<'tcx> {
        self.d.tcx
    }

    fn lit(&self, lit: &hir::Lit, negated: bool) -> J {
        use rustc_ast::LitKind;
        match &lit.node {
            LitKind::Str(s, _) => J::obj(vec![("k", jstr("Lit")), ("t", jstr("str")), ("v", jstr(s.as_str()))]),
            LitKind::Char(c) => J::obj(vec![
                ("k", jstr("Lit")),
                ("t", jstr("char")),
                ("v", J::Num(*c as i64)),
            ]),
            LitKind::Int(n, _) => {
                let v = n.get();
                let j = if v <= i64::MAX as u128 {
                    J::Num(if negated { -(v as i64) } else { v as i64 })
                } else {
                    J::Str(format!("{}{}", if negated { "-" } else { "" }, v))
                };
                J::obj(vec![("k", jstr("Lit")), ("t", jstr("int")), ("v", j)])
            }
            LitKind::Float(s, _) => J::obj(vec![
                ("k", jstr("Lit")),
                ("t", jstr("float")),
                ("v", jstr(format!("{}{}", if negated { "-" } else { "" }, s.as_str()))),
            ]),
            LitKind::Bool(b) => J::obj(vec![("k", jstr("Lit")), ("t", jstr("bool")), ("v", J::Bool(*b))]),
            LitKind::Byte(b) => J::obj(vec![("k", jstr("Lit")), ("t", jstr("byte")), ("v", J::Num(*b as i64))]),
            other => J::obj(vec![("k", jstr("Lit")), ("t", jstr("other")), ("v", jstr(format!("{:?}", other)))]),
        }
    }

    fn res_fields(&self, res: Res, hir_id: hir::HirId, o: &mut Vec<(&'static str, J)>) {
        match res {
            Res::Local(id) => {
                o.push(("res", jstr("Local")));
                o.push(("name", jstr(self.tcx().hir_name(id).to_string())));
                o.push(("lid", J::Num(id.local_id.as_usize() as i64)));
            }
            Res::Def(kind, did) => {
                o.push(("res", jstr(format!("{:?}", kind))));
                match kind {
                    DefKind::Ctor(..) => {
                        // path of the variant / struct
                        let parent = self.tcx().parent(did);
                        o.push(("path", jstr(self.d.path_of(parent))));
                    }
                    DefKind::Fn | DefKind::AssocFn => {
                        let args = self.typeck.node_args(hir_id);
                        self.d.callee_fields(self.owner, did, args, o);
                    }
                    _ => {
                        o.push(("path", jstr(self.d.path_of(did))));
                    }
                }
            }
            Res::SelfCtor(did) => {
                o.push(("res", jstr("SelfCtor")));
                o.push(("path", jstr(self.d.path_of(did))));
            }
            other => {
                o.push(("res", jstr(format!("{:?}", other))));
            }
        }
    }

    fn qpath(&self, qp: &hir::QPath<'tcx>, hir_id: hir::HirId, o: &mut Vec<(&'static str, J)>) {
        let res = self.typeck.qpath_res(qp, hir_id);
        self.res_fields(res, hir_id, o);
    }

    fn pat_expr(&self, pe: &hir::PatExpr<'tcx>) -> J {
        match &pe.kind {
            hir::PatExprKind::Lit { lit, negated } => self.lit(lit, *negated),
            hir::PatExprKind::Path(qp) => {
                let mut o = vec![("k", jstr("Path"))];
                self.qpath(qp, pe.hir_id, &mut o);
                J::obj(o)
            }
        }
    }

    fn pat(&self, p: &hir::Pat<'tcx>) -> J {
        let mut o: Vec<(&'static str, J)> = vec![];
        match &p.kind {
            hir::PatKind::Wild => o.push(("p", jstr("Wild"))),
            hir::PatKind::Missing => o.push(("p", jstr("Missing"))),
            hir::PatKind::Never => o.push(("p", jstr("Never"))),
            hir::PatKind::Binding(mode, id, ident, sub) => {
                o.push(("p", jstr("Bind")));
                o.push(("name", jstr(ident.name.to_string())));
                o.push(("lid", J::Num(id.local_id.as_usize() as i64)));
                o.push(("byref", J::Bool(matches!(mode.0, hir::ByRef::Yes(..)))));
                o.push(("mut", J::Bool(matches!(mode.1, hir::Mutability::Mut))));
                if let Some(s) = sub {
                    o.push(("sub", self.pat(s)));
                }
                if let Some(t) = self.typeck.node_type_opt(p.hir_id) {
                    o.push(("ty", jstr(self.d.ty_str(t))));
                }
            }
            hir::PatKind::Struct(qp, fields, rest) => {
                o.push(("p", jstr("Struct")));
                self.qpath(qp, p.hir_id, &mut o);
                let mut fs = vec![];
                for f in fields.iter() {
                    fs.push(J::obj(vec![
                        ("name", jstr(f.ident.name.to_string())),
                        ("pat", self.pat(f.pat)),
                    ]));
                }
                o.push(("fields", J::Arr(fs)));
                o.push(("rest", J::Bool(rest.is_some())));
            }
            hir::PatKind::TupleStruct(qp, pats, ddpos) => {
                o.push(("p", jstr("TupleStruct")));
                self.qpath(qp, p.hir_id, &mut o);
                o.push(("pats", J::Arr(pats.iter().map(|x| self.pat(x)).collect())));
                if let Some(n) = ddpos.as_opt_usize() {
                    o.push(("dd", J::Num(n as i64)));
                }
            }
            hir::PatKind::Or(pats) => {
                o.push(("p", jstr("Or")));
                o.push(("pats", J::Arr(pats.iter().map(|x| self.pat(x)).collect())));
            }
            hir::PatKind::Tuple(pats, ddpos) => {
                o.push(("p", jstr("Tuple")));
                o.push(("pats", J::Arr(pats.iter().map(|x| self.pat(x)).collect())));
                if let Some(n) = ddpos.as_opt_usize() {
                    o.push(("dd", J::Num(n as i64)));
                }
            }
            hir::PatKind::Box(s) | hir::PatKind::Deref(s) => {
                o.push(("p", jstr("Deref")));
                o.push(("sub", self.pat(s)));
            }
            hir::PatKind::Ref(s, ..) => {
                o.push(("p", jstr("Ref")));
                o.push(("sub", self.pat(s)));
            }
            hir::PatKind::Expr(pe) => {
                o.push(("p", jstr("Expr")));
                o.push(("e", self.pat_expr(pe)));
            }
            hir::PatKind::Guard(s, e) => {
                o.push(("p", jstr("Guard")));
                o.push(("sub", self.pat(s)));
                o.push(("cond", self.expr(e)));
            }
            hir::PatKind::Range(lo, hi, end) => {
                o.push(("p", jstr("Range")));
                if let Some(lo) = lo {
                    o.push(("lo", self.pat_expr(lo)));
                }
                if let Some(hi) = hi {
                    o.push(("hi", self.pat_expr(hi)));
                }
                o.push(("incl", J::Bool(matches!(end, hir::RangeEnd::Included))));
            }
            hir::PatKind::Slice(a, m, b) => {
                o.push(("p", jstr("Slice")));
                o.push(("pats", J::Arr(a.iter().chain(b.iter()).map(|x| self.pat(x)).collect())));
                o.push(("mid", J::Bool(m.is_some())));
            }
            hir::PatKind::Err(_) => o.push(("p", jstr("Err"))),
        }
        J::obj(o)
    }

    fn block(&self, b: &hir::Block<'tcx>) -> J {
        let mut stmts = vec![];
        for s in b.stmts {
            match &s.kind {
                hir::StmtKind::Let(l) => {
                    let mut o = vec![("s", jstr("Let")), ("pat", self.pat(l.pat))];
                    o.push(("ln", self.d.line(l.span)));
                    if let Some(i) = l.init {
                        o.push(("init", self.expr(i)));
                    }
                    if let Some(e) = l.els {
                        o.push(("els", self.block(e)));
                    }
                    stmts.push(J::obj(o));
                }
                hir::StmtKind::Item(_) => {}
                hir::StmtKind::Expr(e) => {
                    stmts.push(J::obj(vec![("s", jstr("Expr")), ("e", self.expr(e))]));
                }
                hir::StmtKind::Semi(e) => {
                    stmts.push(J::obj(vec![("s", jstr("Semi")), ("e", self.expr(e))]));
                }
            }
        }
        let mut o = vec![("k", jstr("Block")), ("stmts", J::Arr(stmts))];
        if let Some(e) = b.expr {
            o.push(("expr", self.expr(e)));
        }
        if !matches!(b.rules, hir::BlockCheckMode::DefaultBlock) {
            o.push(("unsafe", J::Bool(true)));
        }
        J::obj(o)
    }

    fn expr(&self, e: &hir::Expr<'tcx>) -> J {
        let mut o: Vec<(&'static str, J)> = vec![];
        let push_ty = |o: &mut Vec<(&'static str, J)>| {
            if let Some(t) = self.typeck.expr_ty_opt(e) {
                o.push(("ty", jstr(self.d.ty_str(t))));
            }
        };
        match &e.kind {
            hir::ExprKind::Call(f, args) => {
                o.push(("k", jstr("Call")));
                o.push(("ln", self.d.line(e.span)));
                o.push(("f", self.expr(f)));
                o.push(("args", J::Arr(args.iter().map(|a| self.expr(a)).collect())));
                push_ty(&mut o);
                self.d.macro_info(e.span, &mut o);
            }
            hir::ExprKind::MethodCall(seg, recv, args, _) => {
                o.push(("k", jstr("MethodCall")));
                o.push(("ln", self.d.line(e.span)));
                o.push(("m", jstr(seg.ident.name.to_string())));
                if let Some(did) = self.typeck.type_dependent_def_id(e.hir_id) {
                    let gargs = self.typeck.node_args(e.hir_id);
                    self.d.callee_fields(self.owner, did, gargs, &mut o);
                }
                o.push(("recv", self.expr(recv)));
                if let Some(t) = self.typeck.expr_ty_adjusted_opt(recv) {
                    o.push(("recvty", jstr(self.d.ty_str(t))));
                }
                o.push(("args", J::Arr(args.iter().map(|a| self.expr(a)).collect())));
                push_ty(&mut o);
                self.d.macro_info(e.span, &mut o);
            }
            hir::ExprKind::Tup(es) => {
                o.push(("k", jstr("Tup")));
                o.push(("es", J::Arr(es.iter().map(|a| self.expr(a)).collect())));
            }
            hir::ExprKind::Array(es) => {
                o.push(("k", jstr("Array")));
                o.push(("es", J::Arr(es.iter().map(|a| self.expr(a)).collect())));
            }
            hir::ExprKind::Binary(op, a, b) => {
                o.push(("k", jstr("Binary")));
                o.push(("op", jstr(op.node.as_str())));
                o.push(("ln", self.d.line(e.span)));
                // overloaded?
                if let Some(did) = self.typeck.type_dependent_def_id(e.hir_id) {
                    let gargs = self.typeck.node_args(e.hir_id);
                    self.d.callee_fields(self.owner, did, gargs, &mut o);
                }
                o.push(("a", self.expr(a)));
                o.push(("b", self.expr(b)));
                push_ty(&mut o);
            }
            hir::ExprKind::Unary(op, a) => {
                o.push(("k", jstr("Unary")));
                o.push(("op", jstr(op.as_str())));
                if let Some(did) = self.typeck.type_dependent_def_id(e.hir_id) {
                    let gargs = self.typeck.node_args(e.hir_id);
                    self.d.callee_fields(self.owner, did, gargs, &mut o);
                }
                o.push(("a", self.expr(a)));
                push_ty(&mut o);
            }
            hir::ExprKind::Lit(l) => {
                return self.lit(l, false);
            }
            hir::ExprKind::Cast(a, _) => {
                o.push(("k", jstr("Cast")));
                o.push(("a", self.expr(a)));
                if let Some(t) = self.typeck.expr_ty_opt(a) {
                    o.push(("from", jstr(self.d.ty_str(t))));
                }
                push_ty(&mut o);
            }
            hir::ExprKind::Type(a, _) => return self.expr(a),
            hir::ExprKind::DropTemps(a) => return self.expr(a),
            hir::ExprKind::Use(a, _) => return self.expr(a),
            hir::ExprKind::Let(l) => {
                o.push(("k", jstr("Let")));
                o.push(("pat", self.pat(l.pat)));
                o.push(("init", self.expr(l.init)));
            }
            hir::ExprKind::If(c, t, el) => {
                o.push(("k", jstr("If")));
                o.push(("ln", self.d.line(e.span)));
                o.push(("cond", self.expr(c)));
                o.push(("then", self.expr(t)));
                if let Some(el) = el {
                    o.push(("else", self.expr(el)));
                }
                push_ty(&mut o);
            }
            hir::ExprKind::Loop(b, _, src, _) => {
                o.push(("k", jstr("Loop")));
                o.push(("src", jstr(format!("{:?}", src))));
                o.push(("body", self.block(b)));
            }
            hir::ExprKind::Match(scrut, arms, src) => {
                o.push(("k", jstr("Match")));
                o.push(("ln", self.d.line(e.span)));
                o.push(("src", jstr(match src {
                    hir::MatchSource::Normal => "Normal".to_string(),
                    hir::MatchSource::ForLoopDesugar => "ForLoop".to_string(),
                    hir::MatchSource::TryDesugar(_) => "Try".to_string(),
                    hir::MatchSource::AwaitDesugar => "Await".to_string(),
                    other => format!("{:?}", other),
                })));
                o.push(("scrut", self.expr(scrut)));
                if let Some(t) = self.typeck.expr_ty_opt(scrut) {
                    o.push(("scrutty", jstr(self.d.ty_str(t))));
                }
                let mut av = vec![];
                for arm in arms.iter() {
                    let mut a = vec![("pat", self.pat(arm.pat))];
                    if let Some(g) = arm.guard {
                        a.push(("guard", self.expr(g)));
                    }
                    a.push(("body", self.expr(arm.body)));
                    a.push(("ln", self.d.line(arm.span)));
                    av.push(J::obj(a));
                }
                o.push(("arms", J::Arr(av)));
                push_ty(&mut o);
                self.d.macro_info(e.span, &mut o);
            }
            hir::ExprKind::Closure(c) => {
                o.push(("k", jstr("Closure")));
                o.push(("def", jstr(self.d.path_of(c.def_id.to_def_id()))));
                o.push(("id", jstr(self.d.id_of(c.def_id.to_def_id()))));
                o.push(("ln", self.d.line(e.span)));
                let body = self.tcx().hir_body(c.body);
                o.push(("params", J::Arr(body.params.iter().map(|p| self.pat(p.pat)).collect())));
                o.push(("body", self.expr(body.value)));
            }
            hir::ExprKind::Block(b, _) => {
                return self.block(b);
            }
            hir::ExprKind::Assign(l, r, _) => {
                o.push(("k", jstr("Assign")));
                o.push(("ln", self.d.line(e.span)));
                o.push(("l", self.expr(l)));
                o.push(("r", self.expr(r)));
            }
            hir::ExprKind::AssignOp(op, l, r) => {
                o.push(("k", jstr("AssignOp")));
                o.push(("op", jstr(op.node.as_str())));
                o.push(("ln", self.d.line(e.span)));
                if let Some(did) = self.typeck.type_dependent_def_id(e.hir_id) {
                    let gargs = self.typeck.node_args(e.hir_id);
                    self.d.callee_fields(self.owner, did, gargs, &mut o);
                }
                o.push(("l", self.expr(l)));
                o.push(("r", self.expr(r)));
            }
            hir::ExprKind::Field(a, ident) => {
                o.push(("k", jstr("Field")));
                o.push(("name", jstr(ident.name.to_string())));
                o.push(("a", self.expr(a)));
                if let Some(t) = self.typeck.expr_ty_adjusted_opt(a) {
                    o.push(("basety", jstr(self.d.ty_str(t.peel_refs()))));
                }
                push_ty(&mut o);
            }
            hir::ExprKind::Index(a, i, _) => {
                o.push(("k", jstr("Index")));
                o.push(("ln", self.d.line(e.span)));
                o.push(("a", self.expr(a)));
                o.push(("i", self.expr(i)));
                if let Some(t) = self.typeck.expr_ty_adjusted_opt(a) {
                    o.push(("basety", jstr(self.d.ty_str(t.peel_refs()))));
                }
                push_ty(&mut o);
            }
            hir::ExprKind::Path(qp) => {
                o.push(("k", jstr("Path")));
                self.qpath(qp, e.hir_id, &mut o);
                push_ty(&mut o);
            }
            hir::ExprKind::AddrOf(_, m, a) => {
                o.push(("k", jstr("AddrOf")));
                o.push(("mut", J::Bool(matches!(m, hir::Mutability::Mut))));
                o.push(("a", self.expr(a)));
            }
            hir::ExprKind::Break(_, v) => {
                o.push(("k", jstr("Break")));
                if let Some(v) = v {
                    o.push(("v", self.expr(v)));
                }
            }
            hir::ExprKind::Continue(_) => o.push(("k", jstr("Continue"))),
            hir::ExprKind::Ret(v) => {
                o.push(("k", jstr("Ret")));
                o.push(("ln", self.d.line(e.span)));
                if let Some(v) = v {
                    o.push(("v", self.expr(v)));
                }
            }
            hir::ExprKind::Struct(qp, fields, tail) => {
                o.push(("k", jstr("Struct")));
                o.push(("ln", self.d.line(e.span)));
                self.qpath(qp, e.hir_id, &mut o);
                let mut fs = vec![];
                for f in fields.iter() {
                    fs.push(J::obj(vec![
                        ("name", jstr(f.ident.name.to_string())),
                        ("e", self.expr(f.expr)),
                    ]));
                }
                o.push(("fields", J::Arr(fs)));
                if let hir::StructTailExpr::Base(b) = tail {
                    o.push(("base", self.expr(b)));
                }
                push_ty(&mut o);
                self.d.macro_info(e.span, &mut o);
            }
            hir::ExprKind::Repeat(a, _) => {
                o.push(("k", jstr("Repeat")));
                o.push(("a", self.expr(a)));
            }
            hir::ExprKind::ConstBlock(_) => o.push(("k", jstr("ConstBlock"))),
            other => {
                o.push(("k", jstr("Other")));
                o.push(("dbg", jstr(format!("{:?}", std::mem::discriminant(other)))));
            }
        }
        // adjustments that call user code (Deref overloads) are rare here; record autoderef count
        J::obj(o)
    }
}

fn main() {
    let mut args: Vec<String> = std::env::args().collect();
    // RUSTC_WORKSPACE_WRAPPER: argv[1] is the path of the real rustc
    if args.len() > 1 && (args[1].ends_with("rustc") || args[1].contains("/rustc")) {
        args.remove(1);
    }
    rustc_driver::install_ice_hook("https://example.invalid", |_| ());
    let code = rustc_driver::catch_with_exit_code(|| {
        rustc_driver::run_compiler(&args, &mut Cb);
    });
    std::process::exit(if code == std::process::ExitCode::SUCCESS { 0 } else { 1 });
}
