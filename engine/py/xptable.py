"""Extraction of the XPath function table `xml_xpath::eval::func::table()` from the typed tree."""
from facts import walk, BrokenCheck

TABLE_FN = "xml_xpath::eval::func::table"
ENTRY = "xml_xpath::eval::func::Entry"
UNBOUNDED = 1 << 62


def _int(e):
    if e.get("k") == "Lit" and e.get("t") == "int":
        return int(e["v"])
    if e.get("k") == "Path" and str(e.get("path", "")).endswith("::MAX"):
        return UNBOUNDED
    raise BrokenCheck("function table: arity bound is not a literal: %r" % (e.get("k"),))


def entries(facts):
    f = facts.fn(TABLE_FN)
    out = []
    for n in walk(f["body"]):
        if n.get("k") == "Struct" and n.get("path") == ENTRY:
            fields = {x["name"]: x["e"] for x in n["fields"]}
            lp = fields.get("local_part")
            name = None
            if lp and lp.get("k") == "MethodCall" and lp["recv"].get("k") == "Lit":
                name = lp["recv"]["v"]
            elif lp and lp.get("k") == "Call" and lp["args"] and lp["args"][0].get("k") == "Lit":
                name = lp["args"][0]["v"]
            if name is None:
                raise BrokenCheck("function table: entry name is not a string literal (line %s)" % n.get("ln"))
            ns = fields.get("namespace_uri", {})
            ns_none = ns.get("k") == "Path" and str(ns.get("path", "")).endswith("None")
            rng = fields.get("args", {})
            if rng.get("k") != "Struct" or not str(rng.get("path")).endswith("Range"):
                raise BrokenCheck("function table: entry %s arity is not a range literal" % name)
            rf = {x["name"]: x["e"] for x in rng["fields"]}
            lo, hi = _int(rf["start"]), _int(rf["end"])
            call = fields.get("call", {})
            fid = None
            fpath = None
            for c in walk(call):
                if c.get("k") == "Path" and c.get("res") in (True, "Fn") and "id" in c and \
                        not str(c.get("path", "")).startswith("std::"):
                    fid = c.get("rid") or c["id"]
                    fpath = c.get("path")
            if fid is None:
                raise BrokenCheck("function table: entry %s has no function item" % name)
            out.append({"name": name, "ns_none": ns_none, "min": lo, "max": hi, "fid": fid,
                        "fn": facts.name_of(fid), "line": n.get("ln")})
    if len(out) < 12:
        raise BrokenCheck("function table: only %d entries recognised (floor 12)" % len(out))
    return out


def arity_guard_ok(facts):
    """eval_func_expr must test `len < min || max < len` and leave with an error before `exec`."""
    import e1
    f = facts.fn("xml_xpath::eval::eval_func_expr")
    blocks = facts.blocks(f)
    succ = e1.cfg(facts, f)
    dom, _ = e1.dominators(succ)
    exec_bbs, min_bbs, max_bbs = [], [], []
    for bi, t in facts.mir_calls(f):
        c = t.get("callee")
        if not c:
            continue
        n = facts.callee_name(c)
        if n.endswith("func::Entry::exec"):
            exec_bbs.append(bi)
        if n.endswith("func::Entry::min_args"):
            min_bbs.append(bi)
        if n.endswith("func::Entry::max_args"):
            max_bbs.append(bi)
    if not exec_bbs or not min_bbs or not max_bbs:
        return False, "exec/min_args/max_args call missing in eval_func_expr"
    # every exec is dominated by a min_args call; the max_args call may sit on the `||` right
    # branch, so require: removing the blocks in which the two Lt comparisons are *true* leaves
    # exec reachable, and taking either true edge cannot reach exec.
    defs = e1.def_sites(facts, f)
    guards = []
    for bi, b in enumerate(blocks):
        if b.get("cleanup") or b["term"]["k"] != "SwitchInt":
            continue
        dl = e1.local_of(b["term"]["discr"])
        for st in b["stmts"]:
            if st["ll"] == dl and st["rv"] == "BinaryOp" and st["op"] == "Lt":
                pa = e1.producer(facts, f, defs, st["ops"][0])
                pb = e1.producer(facts, f, defs, st["ops"][1])
                guards.append((bi, pa, pb, b["term"]["succ"][-1]))
    want = {("len", "min_args"), ("max_args", "len")}
    have = {(pa, pb) for _, pa, pb, _ in guards}
    if not want <= have:
        return False, "comparisons found %s, wanted len<min_args and max_args<len" % sorted(have)
    # true edges must not reach exec
    for bi, pa, pb, true_t in guards:
        if (pa, pb) not in want:
            continue
        seen, work = set(), [true_t]
        while work:
            x = work.pop()
            if x in seen:
                continue
            seen.add(x)
            work.extend(succ.get(x, []))
        if any(e in seen for e in exec_bbs):
            return False, "the failing arity test (%s < %s) can still reach exec" % (pa, pb)
    return True, "len < min_args and max_args < len both leave before exec"


def helper_arity(facts, arity):
    """Private helpers of the function library that are handed the argument vector of a table function unchanged
    (`substring_around(args, |v| v.0)`): the helper sees at least as many arguments as the least of its callers guarantees.
    -> arity extended by {helper id: min over callers}; only helpers all of whose callers are table functions (or such helpers)
    and that receive the caller's own `args` parameter are added."""
    out = dict(arity)
    edges = facts.edges()
    callers = {}
    for fid, es in edges.items():
        for e in es:
            if e["kind"] in ("call", "cha", "fwd", "mention", "store") and e["to"] in facts.fns:
                callers.setdefault(e["to"], set()).add(fid)
    changed = True
    while changed:
        changed = False
        for gid, g in facts.fns.items():
            if gid in out or "body" not in g or g["crate"] != "xml_xpath" or not g["path"].startswith("xml_xpath::eval::func::"):
                continue
            if not str(g.get("vis", "")).startswith("Restricted") or g.get("parent"):
                continue
            cs = {c for c in callers.get(gid, ()) if c != gid and facts.fns[c].get("parent") != g["path"]}
            if not cs or not all(c in out for c in cs):
                continue
            ok = True
            for c in cs:
                cf = facts.fns[c]
                pl = {p_.get("lid") for p_ in cf.get("params", []) if "Vec<" in str(p_.get("ty", "")) and "Value" in str(p_.get("ty", ""))}
                passed = False
                for m in walk(cf["body"]):
                    if m.get("k") == "Call" and (m["f"].get("rid") or m["f"].get("id")) == gid:
                        passed = bool(m.get("args")) and m["args"][0].get("k") == "Path" and m["args"][0].get("lid") in pl
                        if not passed:
                            ok = False
                ok = ok and passed
            if ok:
                out[gid] = min(out[c] for c in cs)
                changed = True
    return out
