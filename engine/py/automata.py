"""Regular-language algebra over an abstract alphabet (cells of code points + non-terminal atoms).

Terms (tuples):
  ("eps",) ("lit", str) ("cls", CS) ("nt", name) ("seq", [t..]) ("alt", [t..]) ("opt", t)
  ("star", t) ("plus", t) ("minus", a, b) ("and", a, b) ("notcontaining", str)
  ("ciprefixes", str)   -- all case-insensitive prefixes of str (incl. the empty string)
  ("ci", str)           -- all case variants of str
"""
from charset import CS, partition, UNIVERSE, show_cp


class Alphabet:
    def __init__(self, sets, atoms):
        self.cells = partition(list(sets))
        self.atoms = sorted(atoms)
        self.nsym = len(self.cells) + len(self.atoms)
        self._cache = {}
        self.atom_index = {a: len(self.cells) + i for i, a in enumerate(self.atoms)}

    def syms_of(self, cs):
        r = self._cache.get(cs)
        if r is None:
            r = [i for i, c in enumerate(self.cells) if c.iv and (c & cs)]
            # every cell is either inside or outside cs by construction
            for i in r:
                assert not (self.cells[i] - cs), "alphabet does not refine %r" % cs
            self._cache[cs] = r
        return r

    def sym_of_char(self, ch):
        return self.syms_of(CS.of(ord(ch)))[0]

    def show(self, sym):
        if sym < len(self.cells):
            return show_cp(self.cells[sym].min())
        return "<" + self.atoms[sym - len(self.cells)] + ">"

    def render(self, word):
        out = ""
        for s in word:
            if s < len(self.cells):
                cp = self.cells[s].min()
                out += chr(cp) if 0x20 <= cp <= 0x7E else "\\u{%X}" % cp
            else:
                out += "<" + self.atoms[s - len(self.cells)] + ">"
        return out


def collect_sets(term, sets, atoms):
    k = term[0]
    if k == "lit" or k == "notcontaining":
        for ch in term[1]:
            sets.add(CS.of(ord(ch)))
    elif k in ("ciprefixes", "ci"):
        for ch in term[1]:
            sets.add(CS.of(ord(ch.lower())))
            sets.add(CS.of(ord(ch.upper())))
    elif k == "cls":
        sets.add(term[1])
    elif k == "nt":
        atoms.add(term[1])
    elif k in ("seq", "alt"):
        for t in term[1]:
            collect_sets(t, sets, atoms)
    elif k in ("opt", "star", "plus"):
        collect_sets(term[1], sets, atoms)
    elif k in ("minus", "and"):
        collect_sets(term[1], sets, atoms)
        collect_sets(term[2], sets, atoms)


# ------------------------------------------------------------------------------------------
# DFA (total, over alphabet 0..nsym-1); state 0.. ; delta[state][sym]

class DFA:
    __slots__ = ("n", "start", "acc", "delta", "nsym")

    def __init__(self, nsym, start, acc, delta):
        self.nsym = nsym
        self.start = start
        self.acc = acc
        self.delta = delta
        self.n = len(delta)

    def complement(self):
        return DFA(self.nsym, self.start, set(range(self.n)) - self.acc, self.delta)

    def product(self, o, op):
        idx = {(self.start, o.start): 0}
        work = [(self.start, o.start)]
        delta = []
        acc = set()
        while work:
            a, b = work.pop()
            i = idx[(a, b)]
            while len(delta) <= i:
                delta.append(None)
            row = [0] * self.nsym
            for s in range(self.nsym):
                t = (self.delta[a][s], o.delta[b][s])
                j = idx.get(t)
                if j is None:
                    j = len(idx)
                    idx[t] = j
                    work.append(t)
                row[s] = j
            delta[i] = row
            if op(a in self.acc, b in o.acc):
                acc.add(i)
        return DFA(self.nsym, 0, acc, delta).minimize()

    def intersect(self, o):
        return self.product(o, lambda x, y: x and y)

    def minus(self, o):
        return self.product(o, lambda x, y: x and not y)

    def union(self, o):
        return self.product(o, lambda x, y: x or y)

    def is_empty(self):
        return self.shortest() is None

    def shortest(self):
        """Shortlex-minimal accepted word (symbols ordered by index) or None."""
        if self.start in self.acc:
            return []
        seen = {self.start}
        frontier = [(self.start, [])]
        while frontier:
            nxt = []
            for st, w in frontier:
                row = self.delta[st]
                for s in range(self.nsym):
                    t = row[s]
                    if t in seen:
                        continue
                    seen.add(t)
                    if t in self.acc:
                        return w + [s]
                    nxt.append((t, w + [s]))
            frontier = nxt
        return None

    def minimize(self):
        # remove unreachable, then Moore partition refinement
        reach = [self.start]
        seen = {self.start}
        for st in reach:
            for t in self.delta[st]:
                if t not in seen:
                    seen.add(t)
                    reach.append(t)
        part = {st: (1 if st in self.acc else 0) for st in reach}
        while True:
            sig = {}
            newpart = {}
            for st in reach:
                key = (part[st],) + tuple(part[t] for t in self.delta[st])
                if key not in sig:
                    sig[key] = len(sig)
                newpart[st] = sig[key]
            if len(sig) == len(set(part.values())):
                part = newpart
                break
            part = newpart
        n = len(set(part.values()))
        # renumber with start = 0 in BFS order for canonical form
        order = {}
        queue = [self.start]
        order[part[self.start]] = 0
        rep = {part[self.start]: self.start}
        for st in queue:
            for t in self.delta[st]:
                if part[t] not in order:
                    order[part[t]] = len(order)
                    rep[part[t]] = t
                    queue.append(t)
        delta = [None] * len(order)
        acc = set()
        for cls, i in order.items():
            st = rep[cls]
            delta[i] = [order[part[t]] for t in self.delta[st]]
            if st in self.acc:
                acc.add(i)
        return DFA(self.nsym, 0, acc, delta)

    def accepts(self, word):
        st = self.start
        for s in word:
            st = self.delta[st][s]
        return st in self.acc

    def prefix_closed(self):
        """Every prefix of an accepted word is accepted (ignoring the dead state)."""
        live = self.live_states()
        for st in live:
            if st not in self.acc:
                return False
        return True

    def live_states(self):
        # states from which an accepting state is reachable
        rev = {i: set() for i in range(self.n)}
        for st in range(self.n):
            for t in self.delta[st]:
                rev[t].add(st)
        live = set(self.acc)
        work = list(self.acc)
        while work:
            x = work.pop()
            for p in rev[x]:
                if p not in live:
                    live.add(p)
                    work.append(p)
        # and reachable from start
        reach = {self.start}
        work = [self.start]
        while work:
            x = work.pop()
            for t in self.delta[x]:
                if t not in reach:
                    reach.add(t)
                    work.append(t)
        return live & reach


# ------------------------------------------------------------------------------------------
# NFA fragments (Thompson) and determinisation

class Builder:
    def __init__(self, alphabet, resolve_nt=None):
        self.al = alphabet
        self.eps = []      # state -> list of states
        self.tr = []       # state -> list of (sym, state)
        self.resolve_nt = resolve_nt
        self._memo = {}

    def new(self):
        self.eps.append([])
        self.tr.append([])
        return len(self.eps) - 1

    def frag(self, term):
        """Returns (start, end) states of an NFA fragment for term."""
        k = term[0]
        s, e = self.new(), self.new()
        if k == "eps":
            self.eps[s].append(e)
        elif k == "lit":
            cur = s
            for ch in term[1]:
                nxt = self.new()
                self.tr[cur].append((self.al.sym_of_char(ch), nxt))
                cur = nxt
            self.eps[cur].append(e)
        elif k == "cls":
            for sym in self.al.syms_of(term[1]):
                self.tr[s].append((sym, e))
        elif k == "nt":
            sub = self.resolve_nt(term[1]) if self.resolve_nt else None
            if sub is None:
                self.tr[s].append((self.al.atom_index[term[1]], e))
            else:
                a, b = self.frag(sub)
                self.eps[s].append(a)
                self.eps[b].append(e)
        elif k == "seq":
            cur = s
            for t in term[1]:
                a, b = self.frag(t)
                self.eps[cur].append(a)
                cur = b
            self.eps[cur].append(e)
        elif k == "alt":
            for t in term[1]:
                a, b = self.frag(t)
                self.eps[s].append(a)
                self.eps[b].append(e)
        elif k == "opt":
            a, b = self.frag(term[1])
            self.eps[s].extend([a, e])
            self.eps[b].append(e)
        elif k == "star":
            a, b = self.frag(term[1])
            self.eps[s].extend([a, e])
            self.eps[b].extend([a, e])
        elif k == "plus":
            a, b = self.frag(term[1])
            self.eps[s].append(a)
            self.eps[b].extend([a, e])
        elif k in ("minus", "and", "notcontaining", "ciprefixes", "ci"):
            d = self.dfa_of(term)
            self.embed(d, s, e)
        else:
            raise ValueError("unknown term " + str(k))
        return s, e

    def embed(self, d, s, e):
        base = [self.new() for _ in range(d.n)]
        self.eps[s].append(base[d.start])
        dead = dead_states(d)
        for st in range(d.n):
            if st in dead:
                continue
            for sym, t in enumerate(d.delta[st]):
                if t not in dead:
                    self.tr[base[st]].append((sym, base[t]))
            if st in d.acc:
                self.eps[base[st]].append(e)

    def dfa_of(self, term):
        key = repr(term) if term[0] in ("notcontaining", "ciprefixes", "ci") else None
        if key and key in self._memo:
            return self._memo[key]
        k = term[0]
        if k == "minus":
            r = self.dfa_of(term[1]).minus(self.dfa_of(term[2]))
        elif k == "and":
            r = self.dfa_of(term[1]).intersect(self.dfa_of(term[2]))
        elif k == "notcontaining":
            anyc = ("cls", UNIVERSE)
            inner = ("seq", [("star", anyc), ("lit", term[1]), ("star", anyc)])
            r = self.dfa_of(("star", anyc)).minus(self.dfa_of(inner))
        elif k == "ci":
            r = self.dfa_of(("seq", [("cls", CS.of(ord(c.lower()), ord(c.upper()))) for c in term[1]]))
        elif k == "ciprefixes":
            alts = [("eps",)]
            for i in range(1, len(term[1]) + 1):
                alts.append(("ci", term[1][:i]))
            r = self.dfa_of(("alt", alts))
        else:
            b = Builder(self.al, self.resolve_nt)
            s, e = b.frag(term)
            r = b.determinize(s, e)
        if key:
            self._memo[key] = r
        return r

    def closure(self, states):
        out = set(states)
        work = list(states)
        while work:
            x = work.pop()
            for y in self.eps[x]:
                if y not in out:
                    out.add(y)
                    work.append(y)
        return frozenset(out)

    def determinize(self, s, e):
        nsym = self.al.nsym
        start = self.closure([s])
        idx = {start: 0}
        work = [start]
        delta = []
        acc = set()
        while work:
            cur = work.pop()
            i = idx[cur]
            while len(delta) <= i:
                delta.append(None)
            moves = {}
            for st in cur:
                for sym, t in self.tr[st]:
                    moves.setdefault(sym, set()).add(t)
            row = [-1] * nsym
            for sym, ts in moves.items():
                c = self.closure(ts)
                j = idx.get(c)
                if j is None:
                    j = len(idx)
                    idx[c] = j
                    work.append(c)
                row[sym] = j
            delta[i] = row
            if e in cur:
                acc.add(i)
        # add sink
        sink = len(delta)
        need_sink = False
        for row in delta:
            for s2 in range(nsym):
                if row[s2] == -1:
                    row[s2] = sink
                    need_sink = True
        if need_sink:
            delta.append([sink] * nsym)
        return DFA(nsym, 0, acc, delta).minimize()


def dead_states(d):
    live = set(d.acc)
    rev = {i: set() for i in range(d.n)}
    for st in range(d.n):
        for t in d.delta[st]:
            rev[t].add(st)
    work = list(d.acc)
    while work:
        x = work.pop()
        for p in rev[x]:
            if p not in live:
                live.add(p)
                work.append(p)
    return set(range(d.n)) - live


def compare(al, a, b):
    """(only_in_a witness | None, only_in_b witness | None) as symbol lists."""
    return a.minus(b).shortest(), b.minus(a).shortest()


def enumerate_words(d, limit=64, maxlen=6):
    """First `limit` accepted words in shortlex order (symbols ordered by index)."""
    dead = dead_states(d)
    out = []
    frontier = [(d.start, [])]
    if d.start in d.acc:
        out.append([])
    length = 0
    while frontier and len(out) < limit and length < maxlen:
        nxt = []
        for st, w in frontier:
            row = d.delta[st]
            for s in range(d.nsym):
                t = row[s]
                if t in dead:
                    continue
                w2 = w + [s]
                if t in d.acc:
                    out.append(w2)
                    if len(out) >= limit:
                        return out
                nxt.append((t, w2))
        frontier = nxt
        length += 1
        if len(frontier) > 20000:
            break
    return out
