"""Shared result types, known-findings handling, evidence writing."""
import hashlib
import json
import os
import re
import time

VERIF = os.path.dirname(os.path.dirname(os.path.dirname(os.path.abspath(__file__))))
KNOWN = os.path.join(VERIF, "known_findings.json")


class Finding:
    """One violating rule instance. `key` never contains line numbers."""

    def __init__(self, rule, key, msg, file=None, line=None, detail=None):
        self.rule = rule
        self.key = key
        self.msg = msg
        self.file = file
        self.line = line
        self.detail = detail or {}

    def ident(self):
        return "%s:%s" % (self.rule, self.key)

    def to_json(self):
        return {"rule": self.rule, "key": self.key, "message": self.msg,
                "file": self.file, "line": self.line, "detail": self.detail}


class Result:
    def __init__(self, prop):
        self.prop = prop
        self.findings = []
        self.rules = {}          # rule -> stats dict
        self.samples = []
        self.obligations = 0
        self.discharged = 0
        self.assumptions = []
        self.explanation = ""
        self.functions_analysed = 0
        self.notes = []
        self.extra = {}

    def rule(self, name, **kw):
        st = self.rules.setdefault(name, {"instances": 0, "violating": 0})
        st.update(kw)
        return st

    def add(self, finding):
        self.findings.append(finding)
        st = self.rules.setdefault(finding.rule, {"instances": 0, "violating": 0})
        st["violating"] = st.get("violating", 0) + 1

    def oblige(self, n=1, discharged=True):
        self.obligations += n
        if discharged:
            self.discharged += n

    def sample(self, s, limit=12):
        if len(self.samples) < limit:
            self.samples.append(s)


def load_known():
    if not os.path.exists(KNOWN):
        return {"findings": [], "fixed": []}
    with open(KNOWN) as f:
        return json.load(f)


def known_for(prop):
    k = load_known()
    out = {}
    for e in k.get("findings", []):
        if e["property"] == prop:
            out["%s:%s" % (e["rule"], e["key"])] = e
    return out


def safe_name(s):
    h = hashlib.sha1(s.encode()).hexdigest()[:10]
    base = re.sub(r"[^A-Za-z0-9_.-]+", "_", s)[:80]
    return "%s-%s" % (base, h)


def write_evidence(res, tier, seed, level, wall, n_viol, n_known, checker_cmd, extra_cov=None):
    cov = {
        "explanation": res.explanation,
        "obligations": res.obligations,
        "discharged": res.discharged,
        "checker_cmd": checker_cmd,
        "trusted_base": [
            "rustc 1.97.0-nightly: HIR + typeck results and MIR (mir-opt-level=0) are a faithful image of /repo's source",
            "hand-typed reference tables under /verif/spec (each cites its production / section)",
            "meaning of the std / nom leaf functions the engines interpret (nom combinators in e2.py, Vec / Iterator methods in e5.py, staleidx.py, guards.py)",
            "reasoned exceptions: engine/py/reasons_e1.py and the *_REASONS / *_OK tables in engine/py/props (one named site each)",
        ],
        "functions_analysed": res.functions_analysed,
        "rule_instances": res.rules,
        "samples": res.samples if res.samples else ["(no instance sampled)"],
        "known_findings_matched": n_known,
        "notes": res.notes,
        "exhaustive": bool(res.extra.get("exhaustive", False)),
    }
    cov.update({k: v for k, v in res.extra.items() if k != "exhaustive"})
    if extra_cov:
        cov.update(extra_cov)
    ev = {
        "property_id": res.prop,
        "tier": tier,
        "seed": seed,
        "level": level,
        "coverage": cov,
        "assumptions": res.assumptions,
        "wall_s": round(wall, 2),
        "violations": n_viol,
    }
    os.makedirs(os.path.join(VERIF, "evidence"), exist_ok=True)
    path = os.path.join(VERIF, "evidence", res.prop + ".json")
    tmp = path + ".tmp"
    with open(tmp, "w") as f:
        json.dump(ev, f, indent=1, sort_keys=False)
    os.replace(tmp, path)
    return path
