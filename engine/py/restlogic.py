"""When does a condition guarantee that the unconsumed rest of a parser call is empty?

    true_implies(cond)   cond evaluating to true  implies rest.is_empty()
    false_implies(cond)  cond evaluating to false implies rest.is_empty()

    rest.is_empty()           true_implies
    !X                        swaps the two
    A && B                    true_implies if either does;  false_implies only if both do
    A || B                    false_implies if either does; true_implies only if both do

`base(e)` decides whether e is the test `rest.is_empty()` itself (the caller knows which locals are rests and whether a
trimmed rest counts).  `guarded(fn_body, target, base)`: target is only evaluated with an empty rest, because it sits in
the branch of an `if` that implies it or behind a guard clause (`if <false_implies> { return .. }` earlier in an
enclosing block).
"""
from facts import walk


def true_implies(c, base):
    k = c.get("k")
    if base(c):
        return True
    if k == "Unary" and c.get("op") == "!":
        return false_implies(c["a"], base)
    if k == "Binary" and c.get("op") == "&&":
        return true_implies(c["a"], base) or true_implies(c["b"], base)
    if k == "Binary" and c.get("op") == "||":
        return true_implies(c["a"], base) and true_implies(c["b"], base)
    if k == "Block" and not c.get("stmts") and "expr" in c:
        return true_implies(c["expr"], base)
    return False


def false_implies(c, base):
    k = c.get("k")
    if k == "Unary" and c.get("op") == "!":
        return true_implies(c["a"], base)
    if k == "Binary" and c.get("op") == "||":
        return false_implies(c["a"], base) or false_implies(c["b"], base)
    if k == "Binary" and c.get("op") == "&&":
        return false_implies(c["a"], base) and false_implies(c["b"], base)
    if k == "Block" and not c.get("stmts") and "expr" in c:
        return false_implies(c["expr"], base)
    return False


def always_leaves(e):
    """every path through e ends in `return` (or a panic macro)"""
    k = e.get("k")
    if k == "Ret":
        return True
    if k == "Call" and "panic" in str(e.get("mac", "")):
        return True
    if k == "Block":
        for s in e.get("stmts", []):
            x = s.get("e")
            if isinstance(x, dict) and always_leaves(x):
                return True
        return "expr" in e and always_leaves(e["expr"])
    if k == "If":
        return "else" in e and always_leaves(e["then"]) and always_leaves(e["else"])
    if k == "Match" and e.get("src") == "Normal":
        return bool(e.get("arms")) and all(always_leaves(a["body"]) for a in e["arms"])
    return False


def _contains(n, target):
    return any(m is target for m in walk(n))


def guarded(body, target, base):
    """-> description of the guard, or None"""
    for n in walk(body):
        k = n.get("k")
        if k == "If":
            if true_implies(n["cond"], base) and _contains(n["then"], target):
                return "inside `if rest.is_empty() ..`"
            if "else" in n and false_implies(n["cond"], base) and _contains(n["else"], target):
                return "in the else branch of `if !rest.is_empty() ..`"
        if k == "Block":
            items = list(n.get("stmts", [])) + ([{"s": "Expr", "e": n["expr"]}] if "expr" in n else [])
            for i, s in enumerate(items):
                x = s.get("e")
                if isinstance(x, dict) and x.get("k") == "If" and false_implies(x["cond"], base) and always_leaves(x["then"]):
                    if any(_contains(later, target) for later in items[i + 1:]):
                        return "behind the guard clause `if !rest.is_empty() .. { return .. }`"
    return None
