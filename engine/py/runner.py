"""Run one property module over already extracted facts and split the findings into known / new."""
import importlib

import common


def evaluate(prop, facts, tier="quick"):
    """-> (module, Result, [new findings], n_known, [known lines])"""
    mod = importlib.import_module("props." + prop.lower())
    res = mod.run(facts, tier)
    known = common.known_for(prop)
    n_known, viol, lines, seen = 0, [], [], set()
    for f in res.findings:
        ident = f.ident()
        if ident in seen:
            continue
        seen.add(ident)
        if ident in known:
            n_known += 1
            lines.append("KNOWN-FINDING: property=%s %s [%s] %s" % (prop, known[ident]["what"], ident, f.msg))
        else:
            viol.append(f)
    return mod, res, viol, n_known, lines
