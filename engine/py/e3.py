"""E3 — interval abstract interpreter for `char -> bool` predicates on the typed tree.

`pred_set(facts, fn, bindings)` returns the exact set of scalar values for which the predicate
is true, as a charset.CS, or raises Uninterpretable (never guesses).
"""
from charset import CS, UNIVERSE, EMPTY
from facts import BrokenCheck


class Uninterpretable(Exception):
    pass


class X:
    """The symbolic character argument (possibly cast to an integer type)."""
    def __repr__(self):
        return "X"


XV = X()

ASCII_METHODS = {
    "is_ascii_uppercase": CS.of((0x41, 0x5A)),
    "is_ascii_lowercase": CS.of((0x61, 0x7A)),
    "is_ascii_digit": CS.of((0x30, 0x39)),
    "is_ascii_alphabetic": CS.of((0x41, 0x5A), (0x61, 0x7A)),
    "is_ascii_alphanumeric": CS.of((0x30, 0x39), (0x41, 0x5A), (0x61, 0x7A)),
    "is_ascii_hexdigit": CS.of((0x30, 0x39), (0x41, 0x46), (0x61, 0x66)),
    "is_ascii": CS.of((0, 0x7F)),
    "is_ascii_whitespace": CS.of(0x20, 0x09, 0x0A, 0x0C, 0x0D),
    "is_ascii_punctuation": CS.of((0x21, 0x2F), (0x3A, 0x40), (0x5B, 0x60), (0x7B, 0x7E)),
    "is_ascii_graphic": CS.of((0x21, 0x7E)),
    "is_ascii_control": CS.of((0, 0x1F), 0x7F),
}

CHAR_IMPL = ("std::char::methods::<impl char>::", "core::char::methods::<impl char>::")

_UNICODE = {}


def unicode_method(name):
    """Sets for the Unicode-table predicates of `char` (is_alphabetic, is_numeric, ...), computed from Python's unicodedata.
    They approximate Rust's tables (another Unicode version; Alphabetic = letters + Nl here, without Other_Alphabetic).  The
    XML productions are all given by explicit ranges, so these sets only ever appear on the *code* side of a comparison, where
    any such predicate differs from the reference in thousands of code points; the approximation affects the witness, not the
    verdict."""
    if name in _UNICODE:
        return _UNICODE[name]
    import unicodedata as U
    want = {
        "is_alphabetic": lambda c, g: g[0] == "L" or g == "Nl",
        "is_numeric": lambda c, g: g in ("Nd", "Nl", "No"),
        "is_alphanumeric": lambda c, g: g[0] == "L" or g in ("Nl", "Nd", "No"),
        "is_whitespace": lambda c, g: c.isspace() or g == "Zs",
        "is_uppercase": lambda c, g: g == "Lu" or (c.isupper() and g[0] == "L"),
        "is_lowercase": lambda c, g: g == "Ll" or (c.islower() and g[0] == "L"),
        "is_control": lambda c, g: g == "Cc",
    }.get(name)
    if want is None:
        return None
    iv, start, prev = [], None, None
    for cp in range(0x110000):
        if 0xD800 <= cp <= 0xDFFF:
            ok = False
        else:
            ch = chr(cp)
            ok = want(ch, U.category(ch))
        if ok:
            if start is None:
                start = cp
            prev = cp
        elif start is not None:
            iv.append((start, prev))
            start = None
    if start is not None:
        iv.append((start, prev))
    _UNICODE[name] = CS.of(*iv)
    return _UNICODE[name]


class Interp:
    def __init__(self, facts, depth=0):
        self.facts = facts
        self.depth = depth

    # values: XV | int | CS (bool-valued: set where true) | ("str", CS) | bool
    def ev(self, e, env):
        k = e.get("k")
        if k == "Block":
            for s in e.get("stmts", []):
                if s.get("s") == "Let":
                    pat = s["pat"]
                    if pat.get("p") == "Bind" and "init" in s:
                        env = dict(env)
                        env[pat["lid"]] = self.ev(s["init"], env)
                    else:
                        raise Uninterpretable("let pattern")
                else:
                    raise Uninterpretable("statement in predicate")
            if "expr" not in e:
                raise Uninterpretable("block without value")
            return self.ev(e["expr"], env)
        if k == "Lit":
            t = e["t"]
            if t == "bool":
                return UNIVERSE if e["v"] else EMPTY
            if t in ("char", "int", "byte"):
                return int(e["v"])
            if t == "str":
                return ("str", CS.of(e["v"]))
            raise Uninterpretable("literal " + t)
        if k == "Path":
            if e.get("res") == "Local":
                if e["lid"] in env:
                    return env[e["lid"]]
                raise Uninterpretable("unbound local " + e.get("name", "?"))
            c = getattr(self.facts, "consts", {}).get(e.get("rid") or e.get("id")) or getattr(self.facts, "consts_by_path", {}).get(str(e.get("path")))
            if c is not None:
                return self.ev(c["body"], {})        # a named constant: its initialiser
            raise Uninterpretable("path " + str(e.get("path")))
        if k == "Cast":
            v = self.ev(e["a"], env)
            ty = str(e.get("ty", ""))
            if v is XV and ty in ("u8", "i8", "u16", "i16"):
                # a narrowing cast keeps the low bits only: 'к' (U+043A) as u8 is 0x3A, the code of ':'
                return ("xmod", 256 if ty in ("u8", "i8") else 65536)
            if v is XV or isinstance(v, int):
                return v
            raise Uninterpretable("cast")
        if k == "AddrOf":
            return self.ev(e["a"], env)
        if k == "Array":
            return ("arr", [self.ev(x, env) for x in e.get("es", [])])
        if k == "Tup":
            return ("tup", [self.ev(x, env) for x in e.get("es", [])])
        if k == "Unary":
            v = self.ev(e["a"], env)
            if e["op"] == "!":
                if isinstance(v, CS):
                    return ~v
            if e["op"] == "*":
                return v
            raise Uninterpretable("unary " + e["op"])
        if k == "Binary":
            op = e["op"]
            if op in ("||", "|"):
                a, b = self.ev(e["a"], env), self.ev(e["b"], env)
                if isinstance(a, CS) and isinstance(b, CS):
                    return a | b
                raise Uninterpretable("|| on non-bool")
            if op in ("&&", "&"):
                a, b = self.ev(e["a"], env), self.ev(e["b"], env)
                if isinstance(a, CS) and isinstance(b, CS):
                    return a & b
                raise Uninterpretable("&& on non-bool")
            if op in ("==", "!=", "<", "<=", ">", ">="):
                a, b = self.ev(e["a"], env), self.ev(e["b"], env)
                if a is XV and isinstance(b, int):
                    return self.cmp(op, b)
                if b is XV and isinstance(a, int):
                    flip = {"<": ">", "<=": ">=", ">": "<", ">=": "<=", "==": "==", "!=": "!="}[op]
                    return self.cmp(flip, a)
                raise Uninterpretable("comparison operands")
            raise Uninterpretable("binary " + op)
        if k == "If":
            c = self.ev(e["cond"], env)
            if not isinstance(c, CS):
                raise Uninterpretable("if condition")
            t = self.ev(e["then"], env)
            f = self.ev(e["else"], env) if "else" in e else None
            if isinstance(t, CS) and isinstance(f, CS):
                return (c & t) | (~c & f)
            raise Uninterpretable("if branches")
        if k == "Match":
            s = self.ev(e["scrut"], env)
            if s is not XV:
                raise Uninterpretable("match scrutinee")
            rest = UNIVERSE
            out = EMPTY
            for arm in e["arms"]:
                ps = self.pat(arm["pat"])
                if "guard" in arm:
                    g = self.ev(arm["guard"], env)
                    if not isinstance(g, CS):
                        raise Uninterpretable("guard")
                    ps = ps & g
                body = self.ev(arm["body"], env)
                if not isinstance(body, CS):
                    raise Uninterpretable("arm body")
                out = out | (rest & ps & body)
                rest = rest - ps
            return out
        if k == "MethodCall":
            m = e["m"]
            path = e.get("path", "")
            recv = self.ev(e["recv"], env)
            # a constant table: `TABLE.iter().any(|&(first, last)| first <= code && code <= last)`, `TABLE.contains(&c)`
            if isinstance(recv, tuple) and recv[0] == "arr":
                if m in ("iter", "into_iter", "as_slice", "as_ref", "copied", "cloned") and not e["args"]:
                    return recv
                if m in ("any", "all") and e["args"] and e["args"][0].get("k") == "Closure":
                    clo = e["args"][0]
                    if len(clo.get("params", [])) != 1:
                        raise Uninterpretable("closure over a table with %d parameters" % len(clo.get("params", [])))
                    out = EMPTY if m == "any" else UNIVERSE
                    for item in recv[1]:
                        cenv = dict(env)
                        self.bind(clo["params"][0], item, cenv)
                        r = self.ev(clo["body"], cenv)
                        if not isinstance(r, CS):
                            raise Uninterpretable("closure over a table does not answer a boolean")
                        out = (out | r) if m == "any" else (out & r)
                    return out
                if m == "contains" and e["args"]:
                    a = self.ev(e["args"][0], env)
                    if a is XV and all(isinstance(x, int) for x in recv[1]):
                        return CS.of(*[(x, x) for x in recv[1]]) if recv[1] else EMPTY
                    raise Uninterpretable("table contains argument")
            if recv is XV and path.startswith(CHAR_IMPL) and m in ASCII_METHODS and not e["args"]:
                return ASCII_METHODS[m]
            if recv is XV and path.startswith(CHAR_IMPL) and not e["args"] and unicode_method(m) is not None:
                return unicode_method(m)
            if recv is XV and m == "as_char" and path == "nom::AsChar::as_char":
                return XV
            if recv is XV and m in ("clone", "to_owned") and not e["args"]:
                return XV
            if isinstance(recv, tuple) and recv[0] == "str" and m == "contains" and \
                    path in ("core::str::<impl str>::contains", "std::str::<impl str>::contains"):
                a = self.ev(e["args"][0], env)
                if a is XV:
                    return recv[1]
                raise Uninterpretable("str::contains argument")
            if isinstance(recv, tuple) and recv[0] == "str" and m == "as_bytes" and not e["args"]:
                return ("bytes", recv[1])
            if isinstance(recv, tuple) and recv[0] == "bytes" and m == "contains" and e["args"]:
                a = self.ev(e["args"][0], env)
                if isinstance(a, tuple) and a[0] == "xmod" and a[1] == 256 and isinstance(recv[1], CS):
                    lows = [b for b in range(256) if b in recv[1]]
                    return CS.of(*[hi * 256 + b for hi in range(0x1100) for b in lows])
                raise Uninterpretable("[u8]::contains argument")
            if m == "contains" and "RangeInclusive" in path and recv is not None:
                raise Uninterpretable("range contains")
            raise Uninterpretable("method %s (%s)" % (m, path))
        if k == "Call":
            f = e["f"]
            if f.get("k") == "Path" and f.get("res") in ("Fn", "AssocFn", True) or "id" in f:
                fid = f.get("rid") or f.get("id")
                callee = self.facts.fns.get(fid)
                if callee is None:
                    raise Uninterpretable("external call " + str(f.get("path")))
                args = [self.ev(a, env) for a in e["args"]]
                return self.call(callee, args)
            raise Uninterpretable("call")
        raise Uninterpretable("expression kind " + str(k))

    def bind(self, pat, value, env):
        """bind the pattern of a closure parameter to a constant value (integers and tuples of them)"""
        p = pat.get("p")
        if p in ("Ref", "Deref"):
            return self.bind(pat["sub"], value, env)
        if p == "Bind" and "sub" not in pat:
            env[pat["lid"]] = value
            return
        if p == "Wild":
            return
        if p == "Tuple" and isinstance(value, tuple) and value[0] == "tup" and len(value[1]) == len(pat["pats"]) and "dd" not in pat:
            for q, v in zip(pat["pats"], value[1]):
                self.bind(q, v, env)
            return
        raise Uninterpretable("closure parameter pattern " + str(p))

    def call(self, fn, args):
        if self.depth > 12:
            raise Uninterpretable("recursion depth")
        params = fn.get("params")
        if params is None or len(params) != len(args):
            raise Uninterpretable("arity")
        env = {}
        for p, a in zip(params, args):
            if p.get("p") != "Bind":
                raise Uninterpretable("parameter pattern")
            env[p["lid"]] = a
        return Interp(self.facts, self.depth + 1).ev(fn["body"], env)

    def cmp(self, op, n):
        if op == "==":
            return CS.of(n)
        if op == "!=":
            return ~CS.of(n)
        if op == "<":
            return CS.of((0, n - 1)) if n > 0 else EMPTY
        if op == "<=":
            return CS.of((0, n))
        if op == ">":
            return CS.of((n + 1, 0x10FFFF))
        if op == ">=":
            return CS.of((n, 0x10FFFF))
        raise Uninterpretable(op)

    def pat(self, p):
        k = p.get("p")
        if k == "Wild":
            return UNIVERSE
        if k == "Bind" and "sub" not in p:
            return UNIVERSE
        if k == "Or":
            out = EMPTY
            for q in p["pats"]:
                out = out | self.pat(q)
            return out
        if k == "Expr":
            e = p["e"]
            if e.get("k") == "Lit" and e["t"] in ("int", "char", "byte"):
                return CS.of(int(e["v"]))
            raise Uninterpretable("pattern literal")
        if k == "Range":
            lo = p.get("lo")
            hi = p.get("hi")
            lov = int(lo["v"]) if lo else 0
            if hi:
                hiv = int(hi["v"])
                if not p["incl"]:
                    hiv -= 1
            else:
                hiv = 0x10FFFF
            return CS.of((lov, hiv))
        raise Uninterpretable("pattern " + str(k))


def pred_set(facts, fn, extra_args=()):
    """Set of characters for which `fn(X, *extra_args)` is true."""
    it = Interp(facts)
    v = it.call(fn, [XV] + list(extra_args))
    if not isinstance(v, CS):
        raise Uninterpretable("predicate does not evaluate to a boolean set")
    return v


def closure_set(facts, closure, env):
    """Set of item values for which closure(X) is true; env binds captured locals."""
    params = closure["params"]
    if len(params) != 1 or params[0].get("p") != "Bind":
        raise Uninterpretable("closure parameters")
    e = dict(env)
    e[params[0]["lid"]] = XV
    v = Interp(facts).ev(closure["body"], e)
    if not isinstance(v, CS):
        raise Uninterpretable("closure does not evaluate to a boolean set")
    return v
