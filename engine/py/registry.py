"""Registry ownership (R12-6).

Parent lookup goes through Context::node(id): a map id -> Weak<XmlItem>.  The weak entry is only as good as the Rc it
was made from: the tree's child vectors are the strong owners.  So every Rc<XmlItem> that is stored into a child vector
(Vec<Rc<XmlItem>>::push / insert) has to be the Rc the registry points at:

  (a) it was produced in the same function by a constructor that registers its result (a function that calls
      Context::add_item and returns the Rc), or
  (b) the storing function (or the local helper it passes the value to) calls add_item on it, or
  (c) it is a parameter: then the obligation moves to every caller (trait calls: to the callers of the trait method).

A caller that passes a freshly wrapped Rc (XmlNode -> Rc::new(item.into())) without registration makes the registry point
at a dead Rc as soon as the wrapper of the caller is dropped: children of that node then report no parent.
"""
from common import Finding
from facts import BrokenCheck
import staleidx

STORE = ("push", "insert")


def _root(n):
    seen = 0
    while isinstance(n, dict) and seen < 12:
        seen += 1
        k = n.get("k")
        if k == "Path" and n.get("res") == "Local":
            return n.get("lid")
        if k == "Match" and n.get("src") == "Try":      # `x?`
            sc = n.get("scrut", {})
            n = sc["args"][0] if sc.get("k") == "Call" and sc.get("args") else sc
            continue
        if k == "MethodCall" and n["m"] in ("clone", "borrow", "as_ref", "to_owned"):
            n = n.get("recv")
        elif k in ("AddrOf", "Deref", "Unary", "Borrow"):
            n = n.get("a") or n.get("e")
        else:
            return None
    return None


def _callee_ids(facts, n):
    """Workspace function ids a Call / MethodCall node may reach (trait method: all impls + default body)."""
    if n.get("k") == "MethodCall":
        c = n
    elif n.get("k") == "Call" and isinstance(n.get("f"), dict):
        c = n["f"]
    else:
        return []
    cid = c.get("rid") or c.get("id")
    out = []
    if cid in facts.fns:
        out.append(cid)
    if "trait" in c and not c.get("rid"):
        out += list(facts.impls_of.get(c.get("id"), []))
    return out


def analyse(facts, crate="xml_info"):
    fns = {fid: f for fid, f in facts.fns.items() if "body" in f and f["crate"] in (crate, "xml_dom")}
    trees = {fid: [x for x, _, _ in staleidx._walk_parents(f["body"])] for fid, f in fns.items()}
    params = {fid: [p.get("lid") for p in f.get("params", []) if isinstance(p, dict)] for fid, f in fns.items()}
    # constructors that register what they return
    reg_ctor = set()
    for fid, seq in trees.items():
        f = fns[fid]
        if "Rc<XmlItem>" not in f.get("sig", "").split("->")[-1]:
            continue
        if any(n.get("k") == "MethodCall" and n["m"] == "add_item" for n in seq):
            reg_ctor.add(fid)
    # ... and functions that return what such a constructor returned (XmlElement::empty -> XmlElement::node)
    changed = True
    while changed:
        changed = False
        for fid, seq in trees.items():
            f = fns[fid]
            if fid in reg_ctor or "Rc<XmlItem>" not in f.get("sig", "").split("->")[-1] or f["crate"] != crate:
                continue
            if any(n.get("k") in ("Call", "MethodCall") and any(c in reg_ctor for c in _callee_ids(facts, n)) for n in seq):
                reg_ctor.add(fid)
                changed = True
    # per function: parameters that reach a store without registration; local values stored unregistered
    needs = {}       # fid -> set(param index)
    local_bad = []   # (fid, node, what)
    stores = 0

    def registered_in(fid, lid):
        for n in trees[fid]:
            if n.get("k") == "MethodCall" and n["m"] == "add_item" and n.get("args") and _root(n["args"][0]) == lid:
                return True
        return False

    def origin(fid, lid):
        """'param:i' | 'ctor' | 'other'"""
        if lid in params[fid]:
            return "param:%d" % params[fid].index(lid)
        for n in trees[fid]:
            init = pat = None
            if n.get("s") == "Let" or n.get("k") == "Let":
                init, pat = n.get("init"), n.get("pat")
            if not init or not pat:
                continue
            binds = [q.get("lid") for q, _, _ in staleidx._walk_parents(pat) if q.get("p") == "Bind"]
            if lid not in binds:
                continue
            for m, _, _ in staleidx._walk_parents(init):
                if m.get("k") in ("Call", "MethodCall") and any(c in reg_ctor for c in _callee_ids(facts, m)):
                    return "ctor"
            r = _root(init)
            if r is not None and r != lid:
                return origin(fid, r)
            return "other"
        return "other"

    for fid, seq in trees.items():
        for n in seq:
            if n.get("k") != "MethodCall" or n["m"] not in STORE:
                continue
            if not str(n.get("pathargs", "")).startswith("std::vec::Vec::<std::rc::Rc<XmlItem>>::"):
                continue
            # only vectors that live in an item (self.children, doc.children, self.attributes); result lists are locals
            r = n.get("recv")
            in_field = False
            while isinstance(r, dict):
                if r.get("k") == "Field":
                    in_field = True
                    break
                r = r.get("recv") or r.get("a") or r.get("e")
            if not in_field:
                continue
            stores += 1
            v = n["args"][-1]
            lid = _root(v)
            if lid is None:
                # stored expression is itself a constructor call?
                ok = any(m.get("k") in ("Call", "MethodCall") and any(c in reg_ctor for c in _callee_ids(facts, m))
                         for m, _, _ in staleidx._walk_parents(v))
                if not ok:
                    local_bad.append((fid, n, "an unregistered temporary"))
                continue
            if registered_in(fid, lid):
                continue
            o = origin(fid, lid)
            if o == "ctor":
                continue
            if o.startswith("param:"):
                needs.setdefault(fid, set()).add(int(o.split(":")[1]))
            else:
                local_bad.append((fid, n, "a value that was not produced by a registering constructor"))
    # propagate parameter obligations to callers
    violations = []
    changed = True
    rounds = 0
    seen_sites = set()
    while changed and rounds < 12:
        changed = False
        rounds += 1
        for fid, seq in trees.items():
            for n in seq:
                if n.get("k") not in ("Call", "MethodCall"):
                    continue
                for cid in _callee_ids(facts, n):
                    if cid not in needs:
                        continue
                    args = ([n.get("recv")] + n.get("args", [])) if n.get("k") == "MethodCall" else n.get("args", [])
                    for pi in sorted(needs[cid]):
                        if pi >= len(args):
                            continue
                        a = args[pi]
                        lid = _root(a)
                        site = (fid, id(n), cid, pi)
                        if lid is not None and registered_in(fid, lid):
                            continue
                        o = origin(fid, lid) if lid is not None else (
                            "ctor" if any(m.get("k") in ("Call", "MethodCall") and any(c in reg_ctor for c in _callee_ids(facts, m))
                                          for m, _, _ in staleidx._walk_parents(a)) else "other")
                        if o == "ctor":
                            continue
                        if o.startswith("param:"):
                            i = int(o.split(":")[1])
                            if i not in needs.setdefault(fid, set()):
                                needs[fid].add(i)
                                changed = True
                        elif site not in seen_sites:
                            seen_sites.add(site)
                            violations.append((fid, n, cid, pi))
    return {"stores": stores, "reg_ctor": reg_ctor, "needs": needs, "local_bad": local_bad, "violations": violations}


def rule(facts, res, rule_name, floor=4):
    a = analyse(facts)
    st = res.rule(rule_name, instances=a["stores"], registering_constructors=len(a["reg_ctor"]))
    if a["stores"] < floor or len(a["reg_ctor"]) < 4:
        raise BrokenCheck("%s: %d stores of Rc<XmlItem> into child vectors / %d registering constructors (floor %d / 4)"
                          % (rule_name, a["stores"], len(a["reg_ctor"]), floor))
    bad = {}
    for fid, n, cid, pi in a["violations"]:
        # name the storing function (callee chain end) and one unregistered entry
        bad.setdefault(facts.fns[cid]["path"], []).append((facts.fns[fid]["path"], n.get("ln")))
    for fid, n, what in a["local_bad"]:
        bad.setdefault(facts.fns[fid]["path"], []).append((what, n.get("ln")))
    res.oblige(a["stores"] - min(len(bad), a["stores"]), True)
    res.oblige(min(len(bad), a["stores"]), False)
    res.sample({"rule": rule_name, "stores": a["stores"],
                "functions_that_delegate_registration_to_callers": sorted(facts.fns[f]["path"] for f in a["needs"])}, limit=40)
    for callee, entries in sorted(bad.items()):
        f = facts.fn(callee)
        entries = sorted(set(entries), key=lambda e: (str(e[0]), e[1] or 0))
        res.add(Finding(rule_name, callee, "%s makes a caller-supplied Rc<XmlItem> the strong owner of an item without registering it "
                        "(Context::add_item): the registry keeps the Weak of an older Rc, so once that one is dropped the item's children "
                        "report no parent.  Unregistered entries: %s" % (callee, ", ".join("%s:%s" % e for e in entries[:4])),
                        f["file"], f["line"], {"entries": [list(e) for e in entries]}))
    return st


# ------------------------------------------------------------------------------------------
# R12-8: a registered item needs a strong owner while a DOM wrapper of it is alive

PARENT_KINDS = ("XmlElement", "XmlAttr", "XmlNode", "XmlDocumentFragment")


def dangling(facts):
    """xml_dom functions that obtain an Rc<XmlItem> from a registering constructor or from delete(), hand a typed wrapper of
    the item to their caller and let the Rc itself go: from then on Context::node(id) of that item answers None, so every
    child appended to it (or already below it) has no parent."""
    a = analyse(facts)
    out = []
    dangling.with_source = 0
    for fid, f in sorted(facts.fns.items(), key=lambda kv: kv[1]["path"]):
        if f["crate"] != "xml_dom" or "body" not in f or f.get("derived") or "::tests::" in f["path"]:
            continue
        ret = f.get("sig", "").split("->")[-1] if "->" in f.get("sig", "") else ""
        if not any(k in ret for k in PARENT_KINDS):
            continue
        seq = [x for x, _, _ in staleidx._walk_parents(f["body"])]
        src = None
        for n in seq:
            if n.get("k") not in ("Call", "MethodCall"):
                continue
            ty = str(n.get("ty", ""))
            if "Rc<XmlItem>" not in ty and "Rc<xml_info::XmlItem>" not in ty:
                continue
            ids = _callee_ids(facts, n)
            name = n.get("m") or str(n.get("f", {}).get("path", ""))
            if name in ("append", "insert_before", "insert_after", "insert_by_id"):
                continue        # the item was just stored in a child vector: the tree owns it
            if any(c in a["reg_ctor"] for c in ids) or name in ("delete", "delete_by_id") or name.endswith("::delete"):
                src = n
                break
        if src is None:
            continue
        dangling.with_source += 1
        # does the function keep the Rc (store it in a struct field of the returned value / pass it on to an insert)?
        kept = False
        for n in seq:
            if n.get("k") == "Struct":
                for fl in n.get("fields", []):
                    if "Rc<XmlItem>" in str(fl.get("e", {}).get("ty", "")):
                        kept = True
            if n.get("k") == "MethodCall" and n["m"] in ("append", "insert_before", "insert_after", "append_attribute", "push"):
                kept = kept or any("Rc<XmlItem>" in str(x.get("ty", "")) for x in n.get("args", []))
        if not kept:
            out.append((f, src))
    return out


def dangling_rule(facts, res, rule_name, floor=3):
    st = res.rule(rule_name, instances=0)
    ds = dangling(facts)
    n_candidates = dangling.with_source
    st["instances"] = n_candidates
    res.oblige(n_candidates - len(ds), True)
    res.oblige(len(ds), False)
    for f, src in ds:
        what = src.get("m") or str(src.get("f", {}).get("path", ""))
        res.add(Finding(rule_name, f["path"], "%s obtains the item from %s as an Rc<XmlItem>, returns a wrapper of its inner cell and drops "
                        "the Rc: the id registry (Weak<XmlItem>) has no strong owner for this item until it is inserted somewhere, so "
                        "children below it report parent_node() = None" % (f["path"], what), f["file"], src.get("ln"), {}))
    if n_candidates < floor:
        raise BrokenCheck("%s: %d DOM functions return node wrappers (floor %d)" % (rule_name, n_candidates, floor))
