"""C09 — core functions and operators: function table, disallowed std semantics, name <-> primitive,
coercion order of the comparison operators."""
import re

import kindflow
import xpath_functions as XF
import xptable
from common import Finding, Result
from facts import BrokenCheck, walk
from props.c08 import arm_callees, match_arms_on, variants_of_pat, ws

LEVEL = "other"

STRING_TRY = "xml_xpath::eval::model::<impl std::convert::TryFrom<&eval::model::Value> for std::string::String>::try_from"
NUMBER_TRY = "xml_xpath::eval::model::<impl std::convert::TryFrom<&eval::model::Value> for f64>::try_from"
BOOL_TRY = "xml_xpath::eval::model::<impl std::convert::TryFrom<&eval::model::Value> for bool>::try_from"

REL = {
    # fn -> (node fn when b is a node-set, node fn when only a is a node-set, scalar operator)
    "less_than_value": ("less_than_node", "greater_than_node", "<"),
    "less_eq_value": ("less_eq_node", "greater_eq_node", "<="),
    "greater_than_value": ("greater_than_node", "less_than_node", ">"),
    "greater_eq_value": ("greater_eq_node", "less_eq_node", ">="),
}
# X_node(a, nodes) decides `a X node`; the loops test `node Y a`, the Boolean arm `a Z boolean(nodes)`
NODE = {
    # fn -> (operator in *_node_number / *_node_text, (operator, number of `!`) of the Boolean arm, recursion target)
    "equal_node": ("==", ("!=", 0), "equal_value"),
    "not_equal_node": ("!=", ("==", 0), "not_equal_value"),
    "greater_eq_node": ("<=", (">=", 1), "greater_eq_value"),
    "greater_than_node": ("<", ("&", 0), "greater_than_value"),
    "less_eq_node": (">=", ("<=", 1), "less_eq_value"),
    "less_than_node": (">", ("&", 2), "less_than_value"),
}


_TABLE_CACHE = {}


def XF_TABLE_FNS(facts):
    k = id(facts)
    if k not in _TABLE_CACHE:
        _TABLE_CACHE.clear()
        _TABLE_CACHE[k] = {e["fn"].split("::")[-1] for e in xptable.entries(facts)}
    return _TABLE_CACHE[k]


def callees_all(facts, f, depth=0):
    """callees of f and of the closures written inside it (a loop body turned into `iter().map(|x| ..)`), and of the private
    helpers of the function library it calls (two sibling functions sharing `substring_around(args, pick)`)"""
    out = []
    for g in [f] + [c for c in facts.fns.values() if c.get("parent") == f["path"]]:
        if depth < 2:
            for bi, t in facts.mir_calls(g):
                c = t.get("callee")
                h = facts.fns.get(facts.callee_id(c)) if c else None
                if h is not None and h["path"].startswith("xml_xpath::eval::func::") and str(h.get("vis", "")).startswith("Restricted") \
                        and "body" in h and h["id"] != f["id"] and h["path"].split("::")[-1] not in XF_TABLE_FNS(facts):
                    out += callees_all(facts, h, depth + 1)
        for bi, t in facts.mir_calls(g):
            c = t.get("callee")
            if c:
                out.append(facts.callee_name(c))
    return out


def binops(node):
    return [m["op"] for m in walk(node) if m.get("k") == "Binary"]


def nots(node):
    return sum(1 for m in walk(node) if m.get("k") == "Unary" and m.get("op") == "!")


def r09_1(facts, res):
    st = res.rule("R09-1", instances=0)
    entries = xptable.entries(facts)
    have = {e["name"]: e for e in entries}
    for name, (lo, hi) in sorted(XF.CORE.items()):
        st["instances"] += 1
        e = have.get(name)
        hi_v = xptable.UNBOUNDED if hi is None else hi
        ok = e is not None and e["min"] == lo and (e["max"] >= xptable.UNBOUNDED if hi is None else e["max"] == hi_v) and e["ns_none"]
        res.oblige(1, ok)
        if not ok:
            got = "missing" if e is None else "%d..%s%s" % (e["min"], "*" if e["max"] >= xptable.UNBOUNDED else e["max"], "" if e["ns_none"] else " (in a namespace)")
            tf = facts.fn(xptable.TABLE_FN)
            res.add(Finding("R09-1", name, "core function %s(): table says %s, XPath 1.0 section 4 says %d..%s" % (name, got, lo, "*" if hi is None else hi),
                            tf["file"], e["line"] if e else tf["line"], {}))
    extra = sorted(set(have) - set(XF.CORE))
    res.oblige(1, not extra)
    if extra:
        res.add(Finding("R09-1", "extra", "functions %s are not in the core library" % extra, None, None, {}))
    # name <-> implementation: the entry `x-y` is implemented by fn x_y (true/false: ftrue/ffalse)
    for e in entries:
        st["instances"] += 1
        want = {"true": "ftrue", "false": "ffalse"}.get(e["name"], e["name"].replace("-", "_"))
        ok = e["fn"].split("::")[-1] == want
        res.oblige(1, ok)
        if not ok:
            res.add(Finding("R09-1", "impl:" + e["name"], "table entry %s is bound to %s" % (e["name"], e["fn"]), None, e["line"], {}))
    ok, why = xptable.arity_guard_ok(facts)
    st["instances"] += 1
    res.oblige(1, ok)
    if not ok:
        f = facts.fn("xml_xpath::eval::eval_func_expr")
        res.add(Finding("R09-1", "arity-guard", "eval_func_expr: %s" % why, f["file"], f["line"], {}))
    return have


def r09_2(facts, res):
    st = res.rule("R09-2", instances=0, functions=0)
    rx = [(re.compile(a), b) for a, b in XF.DISALLOWED]
    for f in facts.fns.values():
        if f["crate"] != "xml_xpath" or not f["path"].startswith(("xml_xpath::eval::", "xml_xpath::<eval::")) or f.get("derived"):
            continue
        st["functions"] += 1
        for bi, t in facts.mir_calls(f):
            c = t.get("callee")
            if not c:
                continue
            n = facts.callee_name(c)
            for r, why in rx:
                if r.search(n):
                    st["instances"] += 1
                    short = n.split("::")[-1]
                    if (f["path"], short) in XF.DISALLOWED_OK:
                        # the reason covers the conversion to f64 only: an integer type has no negative zero, no fraction
                        # and a bounded range, so `parse::<i64>` first and f64 as the fallback changes "-0" and large values
                        inst = str(c.get("pathargs", ""))
                        okp = short != "parse" or inst.endswith("::<f64>") or "::<" not in inst.split("parse")[-1]
                        res.oblige(1, okp)
                        if not okp:
                            res.add(Finding("R09-2", "%s|parse-as-%s" % (f["path"], inst.split("::<")[-1].rstrip(">")),
                                            "%s parses an XPath number as %s: integers have no negative zero and a bounded range (XPath numbers are IEEE doubles)"
                                            % (f["path"], inst.split("::<")[-1].rstrip(">")), f["file"], t.get("ln"), {}))
                        break
                    res.oblige(1, False)
                    res.add(Finding("R09-2", "%s|%s" % (f["path"], short), "%s calls %s on an XPath value: %s" % (f["path"], n, why),
                                    f["file"], t.get("ln"), {}))
                    break
        # f64 -> integer casts (truncate, saturate, NaN -> 0)
        if "body" in f:
            for m in walk(f["body"]):
                if m.get("k") == "Cast" and m.get("from") == "f64" and m.get("ty") in ("usize", "u32", "u64", "i32", "i64", "isize"):
                    st["instances"] += 1
                    res.oblige(1, False)
                    res.add(Finding("R09-2", "%s|f64-as-%s" % (f["path"], m["ty"]), "%s casts an XPath number to %s (truncates, saturates, maps NaN to 0)"
                                    % (f["path"], m["ty"]), f["file"], f["line"], {}))
    if st["functions"] < 48:
        raise BrokenCheck("R09-2: %d evaluator functions scanned (floor 48)" % st["functions"])
    # translate(): "if a character occurs more than once in the second argument, the first occurrence determines the
    # replacement".  A keyed map filled from the (from, to) pairs keeps the *last* pair (collect / from_iter / insert / extend);
    # a search from the back does the same.  `entry(..).or_insert(..)` keeps the first and is accepted.
    tr = facts.fn("xml_xpath::eval::func::translate")
    st["instances"] += 1
    bad = []
    fam = facts.family(tr)
    for g in fam + [c for c in facts.fns.values() if c.get("parent") in {x["path"] for x in fam}]:
        for bi, t in facts.mir_calls(g):
            c = t.get("callee")
            if not c:
                continue
            n = facts.callee_name(c)
            inst = str(c.get("pathargs", ""))
            last = n.split("::")[-1]
            if last in ("collect", "from_iter", "extend") and re.search(r"collections::(HashMap|BTreeMap|hash_map::HashMap|btree_map::BTreeMap)<", inst.rsplit("::" + last + "::<", 1)[-1] if last == "collect" else inst):
                bad.append((n, t.get("ln"), "fills a keyed map from the character pairs: the last occurrence wins"))
            elif re.search(r"collections::(HashMap|BTreeMap)::<.*>::insert$|collections::(hash_map::)?HashMap<.*>::insert$|BTreeMap<.*>::insert$", n + "|" + inst) or \
                    (last == "insert" and re.search(r"(HashMap|BTreeMap)", n)):
                bad.append((n, t.get("ln"), "insert overwrites the pair of an earlier occurrence"))
            elif last in ("rposition", "rfind", "rev", "last", "max_by_key", "rsplit"):
                bad.append((n, t.get("ln"), "searches the second argument from the back"))
    res.oblige(1, not bad)
    for n, ln, why in bad[:2]:
        res.add(Finding("R09-2", "translate|first-occurrence", "translate(): %s (%s); XPath 1.0 4.2: the first occurrence of a character in the second "
                        "argument determines its replacement" % (why, n), tr["file"], ln, {}))
    # number -> string: both zeros print as "0"
    f = facts.fn(STRING_TRY)
    st["instances"] += 1
    zero = False
    for arm in match_arms_on(f, "model::Value") or []:
        if "Number" in variants_of_pat(arm["pat"]):
            for m in walk(arm["body"]):
                if m.get("k") == "Lit" and m.get("t") in ("float", "int") and str(m.get("v")).rstrip("f64_.0") in ("", "0"):
                    zero = True
    res.oblige(1, zero)
    if not zero:
        res.add(Finding("R09-2", "string(number)|zero", "string() of a number has no case for zero: negative zero is printed by f64's Display as \"-0\"",
                        f["file"], f["line"], {}))


def r09_2b(facts, res, table):
    st = res.rule("R09-2b", instances=0)
    for name, prim in sorted(XF.PRIMITIVE.items()):
        e = table.get(name)
        if e is None:
            continue
        f = facts.fns[e["fid"]]
        st["instances"] += 1
        cs = callees_all(facts, f)
        prims = prim if isinstance(prim, tuple) else (prim,)
        ok = any(p_ in cs for p_ in prims)
        if name == "concat":
            ok = ok and STRING_TRY in cs        # every argument goes through string()
        prim = " or ".join(prims)
        if name == "not":
            ok = ok and nots(f["body"]) == 1
        if name == "boolean":
            ok = ok and nots(f["body"]) == 0
        if name in ("true", "false"):
            pass
        res.oblige(1, ok)
        if not ok:
            res.add(Finding("R09-2b", name, "%s() does not apply %s (calls: %s)" % (name, prim, sorted(set(ws(cs)) | {c for c in cs if "f64" in c or "str" in c})[:8]),
                            f["file"], f["line"], {}))
    for name, lit in (("true", True), ("false", False)):
        f = facts.fns[table[name]["fid"]]
        st["instances"] += 1
        ok = any(m.get("k") == "Lit" and m.get("t") == "bool" and m.get("v") is lit for m in walk(f["body"])) and \
            not any(m.get("k") == "Lit" and m.get("t") == "bool" and m.get("v") is (not lit) for m in walk(f["body"]))
        res.oblige(1, ok)
        if not ok:
            res.add(Finding("R09-2b", name, "%s() does not answer the constant %s" % (name, lit), f["file"], f["line"], {}))
    # ceiling must not call floor and vice versa
    for name, other in (("floor", "ceil"), ("ceiling", "floor")):
        f = facts.fns[table[name]["fid"]]
        cs = callees_all(facts, f)
        st["instances"] += 1
        ok = not any(c.endswith("::" + other) for c in cs)
        res.oblige(1, ok)
        if not ok:
            res.add(Finding("R09-2b", name + "|other", "%s() calls f64::%s" % (name, other), f["file"], f["line"], {}))
    # substring(s, a, b): characters at positions p with round(a) <= p < round(a) + round(b)  (XPath 1.0 4.2): each numeric
    # argument is rounded on its own - round(a + b) differs for fractions that interact (1.5, 2.6)
    import e1
    f = facts.fns[table["substring"]["fid"]]
    defs = e1.def_sites(facts, f)
    rounds = [(bi, t) for bi, t in facts.mir_calls(f) if t.get("callee") and facts.callee_name(t["callee"]).endswith("round_half_up")]
    st["instances"] += 1

    def from_arith(op, depth=0):
        l = e1.local_of(op)
        if l is None or depth > 10:
            return False
        for kind, _, x in defs.get(l, []):
            if kind == "stmt":
                if x["rv"] == "BinaryOp" and x.get("op", "").startswith(("Add", "Sub", "Mul", "Div")):
                    return True
                if x["rv"] in ("Use", "Cast") and x.get("ops") and from_arith(x["ops"][0], depth + 1):
                    return True
        return False
    ok = len(rounds) == 2 and not any(from_arith(t["args"][0]) for _, t in rounds)
    res.oblige(1, ok)
    if not ok:
        res.add(Finding("R09-2b", "substring|rounding", "substring(): expected round() applied to the second and to the third argument separately "
                        "(found %d calls of round_half_up%s)" % (len(rounds), ", one of them on a sum" if any(from_arith(t["args"][0]) for _, t in rounds) else ""),
                        f["file"], f["line"], {}))
    # round(): the integer closest to the argument, ties towards +infinity.  `floor(x + 0.5)` is not that: the addition
    # rounds (0.49999999999999994 + 0.5 = 1.0; 4503599627370497 + 0.5 = 4503599627370498).
    g = facts.fn("xml_xpath::eval::func::round_half_up")
    st["instances"] += 1
    adds_half = any(m.get("k") == "Binary" and m.get("op") == "+" and
                    any(x.get("k") == "Lit" and str(x.get("v")) in ("0.5", "0.5f64") for x in (m["a"], m["b"])) for m in walk(g["body"]))
    res.oblige(1, not adds_half)
    if adds_half:
        res.add(Finding("R09-2b", "round|plus-half", "round_half_up adds 0.5 before flooring: the sum is rounded to the nearest double, so "
                        "round(0.49999999999999994) is 1 and odd integers above 2^52 move to the next even one", g["file"], g["line"], {}))
    # unary minus: `-` applies number() to its operand; an even run of signs cancels but still converts
    u = facts.fn("xml_xpath::eval::eval_unary_expr")
    st["instances"] += 1
    bound = set()
    for m in walk(u["body"]):
        if m.get("s") == "Let" and any(str(c.get("f", {}).get("path", "")).endswith("eval_union_expr") for c in walk(m.get("init", {})) if c.get("k") == "Call"):
            bound |= {q["lid"] for q in walk(m["pat"]) if q.get("p") == "Bind"}
    import staleidx
    seq = staleidx._walk_parents(u["body"])
    bad_ret = None
    for i, (m, pi, slot) in enumerate(seq):
        if m.get("k") == "Call" and str(m.get("f", {}).get("path", "")).endswith("Ok") and m.get("args") and \
                m["args"][0].get("k") == "Path" and m["args"][0].get("lid") in bound:
            # the unconverted operand is returned: only allowed under `inv().is_empty()`
            k, ok_guard = pi, False
            while k is not None:
                pn, ppi, pslot = seq[k]
                if pn.get("k") == "If":
                    if any(x.get("k") == "MethodCall" and x["m"] == "is_empty" for x in walk(pn["cond"])):
                        ok_guard = True
                k = ppi
            if not ok_guard:
                bad_ret = m
    # ... and an even run cancels: the number of signs is taken modulo 2
    st["instances"] += 1
    parity = any(m.get("k") == "Binary" and ((m.get("op") == "%" and any(x.get("k") == "Lit" and x.get("v") == 2 for x in (m["a"], m["b"]))) or
                                             (m.get("op") == "&" and any(x.get("k") == "Lit" and x.get("v") == 1 for x in (m["a"], m["b"]))))
                 for m in walk(u["body"])) or any(m.get("k") == "Loop" or (m.get("k") == "Match" and m.get("src") == "ForLoop") for m in walk(u["body"]))
    res.oblige(1, parity)
    if not parity:
        res.add(Finding("R09-2b", "unary-minus|parity", "eval_unary_expr does not look at the parity of the number of minus signs: --1 is -1",
                        u["file"], u["line"], {}))
    res.oblige(1, bad_ret is None)
    if bad_ret is not None:
        res.add(Finding("R09-2b", "unary-minus|conversion", "eval_unary_expr returns its operand unconverted although minus signs were applied "
                        "(the test is not `no sign at all`): --'2' is the string '2' instead of the number 2", u["file"], bad_ret.get("ln"), {}))
    # lang(): xml:lang of the nearest element, case-insensitive, sublanguages
    e = table.get("lang")
    if e is not None:
        f = facts.fns[e["fid"]]
        st["instances"] += 1
        names_ = {m["m"] for m in walk(f["body"]) if m.get("k") == "MethodCall"}
        for c in [x for x in facts.fns.values() if x.get("parent") == f["path"] and "body" in x]:
            names_ |= {m["m"] for m in walk(c["body"]) if m.get("k") == "MethodCall"}
        lits = {str(m.get("v")) for m in walk(f["body"]) if m.get("k") == "Lit"}
        for c in [x for x in facts.fns.values() if x.get("parent") == f["path"] and "body" in x]:
            lits |= {str(m.get("v")) for m in walk(c["body"]) if m.get("k") == "Lit"}
        problems = []
        if not names_ & {"to_ascii_lowercase", "to_lowercase", "eq_ignore_ascii_case"}:
            problems.append("the comparison is case-sensitive")
        if not (names_ & {"strip_prefix", "starts_with"} and ("-" in lits or "45" in lits)):
            problems.append("a sublanguage (en-US for en) does not match")
        if "http://www.w3.org/XML/1998/namespace" not in lits:
            problems.append("the attribute is not required to be xml:lang (any attribute with the local name lang counts)")
        # the nearest xml:lang decides, matched or not: where the attribute is found the function answers with the computed
        # comparison itself; answering only when it matched lets an outer xml:lang overrule an inner one
        def payloads(g):
            out = []
            for m in walk(g["body"]):
                if m.get("k") == "Call" and str(m["f"].get("path", "")).endswith("Value::Boolean") and m.get("args"):
                    out.append(m["args"][0])
            return out
        pls = payloads(f)
        if pls and not any(p_.get("k") != "Lit" for p_ in pls):
            problems.append("the walk over the ancestors answers only with constants (true where an xml:lang matches, false at the end): "
                            "a non-matching xml:lang on a nearer element does not end the search")
        res.oblige(1, not problems)
        if problems:
            res.add(Finding("R09-2b", "lang", "lang(): %s (XPath 1.0 4.3)" % "; ".join(problems), f["file"], f["line"], {}))
    if st["instances"] < 9:
        raise BrokenCheck("R09-2b: %d primitives (floor 9)" % st["instances"])


def if_chain(body):
    """[(cond methods, then workspace callees)] of a top-level if / else-if chain, last = else."""
    e = body
    while e.get("k") == "Block" and "expr" in e and not e.get("stmts"):
        e = e["expr"]
    out = []
    while e.get("k") == "If":
        methods = [m["m"] for m in walk(e["cond"]) if m.get("k") == "MethodCall"]
        out.append((methods, e["then"]))
        e = e.get("else") or {}
        while e.get("k") == "Block" and "expr" in e and not e.get("stmts"):
            e = e["expr"]
    out.append(([], e))
    return out


def r09_2c(facts, res, rule="R09-2c"):
    """IEEE 754: every ordering comparison with NaN is false, so `!(a >= b)` is not `a < b`.  In the evaluator no ordering
    comparison of two f64 may stand under an odd number of negations (`!x.is_some_and(|e| p >= e)` for `x.map(|e| p < e)
    .unwrap_or(true)` keeps the characters of substring('12345', 1, 0 div 0))."""
    st = res.rule(rule, instances=0)

    def go(n, neg, f):
        if isinstance(n, list):
            for x in n:
                go(x, neg, f)
            return
        if not isinstance(n, dict):
            return
        if n.get("k") == "Unary" and n.get("op") == "!":
            go(n.get("a"), neg + 1, f)
            return
        if n.get("k") == "Binary" and n.get("op") in ("<", "<=", ">", ">=") and \
                str(n["a"].get("ty", "")).replace("&", "") == "f64" and str(n["b"].get("ty", "")).replace("&", "") == "f64":
            st["instances"] += 1
            ok = neg % 2 == 0
            res.oblige(1, ok)
            if not ok:
                res.add(Finding(rule, "%s|%s" % (f["path"], n["op"]), "%s negates the f64 comparison `%s`: with a NaN operand the negation is true where "
                                "the opposite comparison is false" % (f["path"], n["op"]), f["file"], n.get("ln"), {}))
        for k, v in n.items():
            if k != "mir" and isinstance(v, (dict, list)):
                go(v, neg, f)
    for f in sorted(facts.fns.values(), key=lambda x: x["path"]):
        if f["crate"] == "xml_xpath" and f["path"].startswith("xml_xpath::eval") and "body" in f and f["kind"] != "Closure" and "::tests::" not in f["path"]:
            go(f["body"], 0, f)
    if st["instances"] < 3:
        raise BrokenCheck("%s: %d f64 ordering comparisons in the evaluator (floor 3)" % (rule, st["instances"]))


def r09_3(facts, res):
    st = res.rule("R09-3", instances=0)

    def fail(key, msg, f):
        res.oblige(1, False)
        res.add(Finding("R09-3", key, msg, f["file"], f["line"], {}))

    # = and != : node-set first, then boolean, then number, then string (XPath 1.0 3.4)
    for fn_, node_fn, op in (("equal_value", "equal_node", "=="), ("not_equal_value", "not_equal_node", "!=")):
        f = facts.fn("xml_xpath::eval::" + fn_)
        # kindflow: under which kinds of (a, b) is each conversion / delegate reached, and which comparison operator with it
        targets = {"xml_xpath::eval::" + node_fn: "node", BOOL_TRY: "boolean", NUMBER_TRY: "number", STRING_TRY: "string"}

        def callee_of(n):
            if n.get("k") == "Call" and n["f"].get("k") == "Path":
                fid = n["f"].get("rid") or n["f"].get("id")
                return facts.name_of(fid) if fid in facts.fns else n["f"].get("path")
            if n.get("k") == "MethodCall":
                fid = n.get("rid") or n.get("id")
                return facts.name_of(fid) if fid in facts.fns else n.get("path")
            return None
        st["instances"] += 4
        try:
            kf = kindflow.KindFlow(facts, f, "eval::model::Value")
            hits = kf.run(lambda n: callee_of(n) in targets or (n.get("k") == "Binary" and n.get("op") in ("==", "!=")))
        except kindflow.Unknown as u:
            fail(fn_ + "|shape", "%s: %s" % (fn_, u), f)
            continue
        if len(kf.idx) != 2:
            fail(fn_ + "|shape", "%s: expected two operands of type Value" % fn_, f)
            continue
        per = {s_: set() for s_ in kf.universe}
        for n, S in hits:
            what = targets.get(callee_of(n)) or n.get("op")
            for s_ in S:
                per[s_].add(what)
        classes = [("node", lambda s_: "Node" in s_, 1), ("boolean", lambda s_: "Boolean" in s_, 2),
                   ("number", lambda s_: "Number" in s_, 3), ("string", lambda s_: True, 4)]
        bad = {}
        for s_ in sorted(kf.universe):
            cls, _, bi = next(c for c in classes if c[1](s_))
            wantset = {cls} if cls == "node" else {cls, op}
            got = per[s_]
            if cls == "node":
                got = got - {"==", "!="} if got & {"node"} else got
            if got != wantset:
                bad.setdefault(bi, []).append((s_, sorted(got), sorted(wantset)))
        for bi in (1, 2, 3, 4):
            res.oblige(1, bi not in bad)
            if bi in bad:
                s_, got, wantset = bad[bi][0]
                res.add(Finding("R09-3", "%s|branch%d" % (fn_, bi),
                                "%s: for operands of kinds %s it applies %s; XPath 1.0 3.4 (node-set, else boolean, else number, else string) "
                                "wants %s" % (fn_, list(s_), got, wantset), f["file"], f["line"], {}))
    # relational operators: both operands to numbers; node-set cases delegated with the right orientation
    for fn_, (n1, n2, op) in REL.items():
        f = facts.fn("xml_xpath::eval::" + fn_)
        st["instances"] += 3
        outer = match_arms_on(f, "model::Value")
        if not outer or len(outer) != 2:
            fail(fn_ + "|shape", "%s: expected `match b { Node => .., _ => match a { Node => .., _ => numbers } }`" % fn_, f)
            continue
        c1 = arm_callees(facts, outer[0]["body"])
        ok1 = "Node" in variants_of_pat(outer[0]["pat"]) and ws(c1) == ["xml_xpath::eval::" + n1]
        res.oblige(1, ok1)
        if not ok1:
            res.add(Finding("R09-3", fn_ + "|b-node", "%s: with a node-set on the right it calls %s, expected %s" % (fn_, ws(c1), n1), f["file"], f["line"], {}))
        inner = None
        for m in walk(outer[1]["body"]):
            if m.get("k") == "Match" and m.get("src") == "Normal":
                inner = m["arms"]
                break
        if not inner or len(inner) != 2:
            fail(fn_ + "|shape2", "%s: inner match on the left operand not found" % fn_, f)
            continue
        c2 = arm_callees(facts, inner[0]["body"])
        ok2 = "Node" in variants_of_pat(inner[0]["pat"]) and ws(c2) == ["xml_xpath::eval::" + n2]
        res.oblige(1, ok2)
        if not ok2:
            res.add(Finding("R09-3", fn_ + "|a-node", "%s: with a node-set on the left only it calls %s, expected %s (operands swapped)" % (fn_, ws(c2), n2),
                            f["file"], f["line"], {}))
        c3 = arm_callees(facts, inner[1]["body"])
        ok3 = c3.count(NUMBER_TRY) == 2 and binops(inner[1]["body"]) == [op]
        res.oblige(1, ok3)
        if not ok3:
            res.add(Finding("R09-3", fn_ + "|scalar", "%s: scalars must both be converted with number() and compared with %s (found %s, %s)"
                            % (fn_, op, ws(c3), binops(inner[1]["body"])), f["file"], f["line"], {}))
    # node-set comparisons
    for fn_, (loop_op, (bop, bnots), rec) in NODE.items():
        f = facts.fn("xml_xpath::eval::" + fn_)
        arms = match_arms_on(f, "model::Value")
        st["instances"] += 4
        if not arms:
            fail(fn_ + "|shape", "%s: match over Value not found" % fn_, f)
            continue
        by = {}
        for arm in arms:
            for v in variants_of_pat(arm["pat"]):
                by[v] = arm
        # Boolean arm
        b = by.get("Boolean")
        okb = b is not None and binops(b["body"]) == [bop] and nots(b["body"]) == bnots and \
            any(m.get("k") == "MethodCall" and m["m"] == "is_empty" for m in walk(b["body"]))
        res.oblige(1, okb)
        if not okb:
            res.add(Finding("R09-3", fn_ + "|Boolean", "%s: the boolean arm computes %s with %d negation(s); expected `a %s boolean(nodes)` written with "
                            "%s and %d negation(s) of is_empty()" % (fn_, binops(b["body"]) if b else None, nots(b["body"]) if b else -1, bop, bop, bnots),
                            f["file"], f["line"], {}))
        n = by.get("Node")
        okn = n is not None and "xml_xpath::eval::" + rec in arm_callees(facts, n["body"])
        res.oblige(1, okn)
        if not okn:
            res.add(Finding("R09-3", fn_ + "|Node", "%s: node-set vs node-set must compare string-values with %s" % (fn_, rec), f["file"], f["line"], {}))
        for variant, suffix in (("Number", "_number"), ("Text", "_text")):
            a = by.get(variant)
            target = "xml_xpath::eval::" + fn_ + suffix
            oka = a is not None and ws(arm_callees(facts, a["body"])) == [target]
            g = facts.fn_opt(target)
            okop = g is not None and binops(g["body"]) == [loop_op]
            res.oblige(1, oka and okop)
            if not (oka and okop):
                res.add(Finding("R09-3", fn_ + "|" + variant, "%s: the %s arm must call %s, which tests `string-value %s a` (found %s / %s)"
                                % (fn_, variant, target.split("::")[-1], loop_op, ws(arm_callees(facts, a["body"])) if a else None,
                                   binops(g["body"]) if g else None), f["file"], f["line"], {}))
    # Value vs scalar: conversions used by the PartialEq / PartialOrd impls
    conv = {
        "xml_xpath::<eval::model::Value as std::cmp::PartialEq<bool>>::eq": BOOL_TRY,
        "xml_xpath::<eval::model::Value as std::cmp::PartialEq<f64>>::eq": NUMBER_TRY,
        "xml_xpath::<eval::model::Value as std::cmp::PartialEq<std::string::String>>::eq": STRING_TRY,
        "xml_xpath::<eval::model::Value as std::cmp::PartialOrd<f64>>::partial_cmp": NUMBER_TRY,
        "xml_xpath::<eval::model::Value as std::cmp::PartialOrd<std::string::String>>::partial_cmp": NUMBER_TRY,
        "xml_xpath::<eval::model::Value as std::cmp::PartialOrd<bool>>::partial_cmp": NUMBER_TRY,
    }
    for path, want in conv.items():
        f = facts.fn(path)
        st["instances"] += 1
        cs = set(callees_all(facts, f))
        for c in [x for x in facts.fns.values() if x.get("parent") == f["path"]]:
            cs |= set(callees_all(facts, c))
        mentions = {e["name"] for e in facts.edges()[f["id"]]}
        ok = want in (cs | mentions)
        res.oblige(1, ok)
        if not ok:
            res.add(Finding("R09-3", path.split("::", 1)[1], "%s must convert with %s" % (path, want.split(" for ")[-1]), f["file"], f["line"], {}))
    # the three conversions themselves
    f = facts.fn(BOOL_TRY)
    st["instances"] += 1
    arms = {v: a for a in (match_arms_on(f, "model::Value") or []) for v in variants_of_pat(a["pat"])}
    okb = all(k in arms for k in ("Boolean", "Node", "Number", "Text")) and \
        nots(arms["Node"]["body"]) == 1 and nots(arms["Text"]["body"]) == 1 and \
        any(m.get("k") == "MethodCall" and m["m"] == "is_nan" for m in walk(arms["Number"]["body"])) and "==" in binops(arms["Number"]["body"])
    res.oblige(1, okb)
    if not okb:
        res.add(Finding("R09-3", "boolean()", "boolean(): node-set -> non-empty, string -> non-empty, number -> neither zero nor NaN", f["file"], f["line"], {}))
    f = facts.fn(STRING_TRY)
    st["instances"] += 1
    lits = {m["v"] for m in walk(f["body"]) if m.get("k") == "Lit" and m.get("t") == "str"}
    # the empty string may be spelled `"".to_string()`, `String::new()` or `String::default()`
    if any(m.get("k") == "Call" and str(m["f"].get("path", "")) in ("std::string::String::new", "std::default::Default::default") and not m.get("args")
           and "String" in str(m.get("ty", "")) for m in walk(f["body"])):
        lits.add("")
    oks = {"true", "false", "Infinity", "-Infinity", ""} <= lits
    res.oblige(1, oks)
    if not oks:
        res.add(Finding("R09-3", "string()", "string(): literals %s, expected true / false / Infinity / -Infinity / empty" % sorted(lits), f["file"], f["line"], {}))
    if st["instances"] < 30:
        raise BrokenCheck("R09-3: %d cells (floor 30)" % st["instances"])


def run(facts, tier):
    res = Result("C09")
    res.explanation = (
        "static: R09-1 the function table (27 names, arity ranges, bound implementation, arity test before exec) against XPath "
        "1.0 section 4; R09-2 type-resolved calls whose std semantics differ from the Recommendation (f64::round, byte lengths "
        "and offsets, str::parse, Unicode white space, f64->integer casts) must not occur in the evaluator; R09-2b each "
        "function applies the primitive of its name; R09-3 the coercion order and orientation of the six comparison operators "
        "(if-chains, match arms, operators and negations extracted from the typed tree) against section 3.4.")
    res.assumptions = ["results of translate, substring-before/after, sum, lang and IEEE arithmetic are not computed"]
    table = r09_1(facts, res)
    r09_2(facts, res)
    r09_2b(facts, res, table)
    r09_2c(facts, res)
    r09_3(facts, res)
    res.functions_analysed = res.rules["R09-2"]["functions"]
    return res
