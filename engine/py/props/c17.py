"""C17 — the xe and xq tools (narrow)."""
import e1
import reasons_e1
import restcheck
from common import Finding, Result
from facts import BrokenCheck, walk

LEVEL = "other"

TOOLS = ("xe", "xq")


def run(facts, tier):
    res = Result("C17")
    res.explanation = (
        "static (narrow): C17-1 document() and parse_node() of both tools test the unconsumed rest (R02-1); C17-2 panic sites "
        "in the tools' own code reachable from the two main functions (library sites belong to C03 / C06 / C13); C17-3 error "
        "discipline: no Result is dropped (`let _ =`, `.ok()`, an unused Result statement) and main returns the error; C17-4 the "
        "names handed to create_element / create_attribute when xe rebuilds the replacement are qualified names (the producer "
        "must read the prefix).")
    res.assumptions = ["that exactly the selected nodes are rewritten, and the printed bytes, are not decided"]
    # ---- C17-1
    restcheck.rule(facts, res, "C17-1", caller_filter=lambda p: p.split("::")[0] in TOOLS, floor=3)
    # ---- C17-2
    roots = [facts.fn("xe::main")["id"], facts.fn("xq::main")["id"]]
    reach0, _ = facts.reachable(roots)
    reasons, verdicts = reasons_e1.resolve(facts, reach0)
    e1.panic_rule(facts, res, "C17-2", roots, reasons, {}, only_crates=TOOLS)
    if res.rules["C17-2"]["instances"] < 2:
        raise BrokenCheck("C17-2: %d sites in the tools (floor 2)" % res.rules["C17-2"]["instances"])
    # ---- C17-3
    st = res.rule("C17-3", instances=0)
    for f in facts.fns.values():
        if f["crate"] not in TOOLS or "body" not in f:
            continue
        for n in walk(f["body"]):
            # statements whose value is a Result and is thrown away
            if n.get("s") == "Semi":
                e = n["e"]
                ty = str(e.get("ty", ""))
                if ty.startswith("std::result::Result<") and e.get("k") in ("Call", "MethodCall"):
                    st["instances"] += 1
                    res.oblige(1, False)
                    res.add(Finding("C17-3", "%s|unused-result|%s" % (f["path"], e.get("m") or e["f"].get("path")),
                                    "%s ignores the Result of %s" % (f["path"], e.get("m") or e["f"].get("path")), f["file"], e.get("ln"), {}))
            if n.get("s") == "Let" and n["pat"].get("p") == "Wild" and "init" in n:
                ty = str(n["init"].get("ty", ""))
                if ty.startswith("std::result::Result<"):
                    st["instances"] += 1
                    res.oblige(1, False)
                    res.add(Finding("C17-3", "%s|let-underscore" % f["path"], "%s discards a Result with `let _ =`" % f["path"], f["file"], n.get("ln"), {}))
            if n.get("k") == "MethodCall" and n["m"] == "ok" and str(n.get("recvty", "")).lstrip("&").startswith("std::result::Result<"):
                st["instances"] += 1
                res.oblige(1, False)
                res.add(Finding("C17-3", "%s|ok()" % f["path"], "%s turns an error into None with .ok()" % f["path"], f["file"], n.get("ln"), {}))
    for t in TOOLS:
        m = facts.fn(t + "::main")
        st["instances"] += 1
        ok = "-> std::result::Result<()" in m.get("sig", "")
        tries = sum(1 for n in walk(m["body"]) if n.get("k") == "Match" and n.get("src") == "Try")
        ok = ok and tries >= 3
        res.oblige(1, ok)
        if not ok:
            res.add(Finding("C17-3", t + "::main", "%s::main must return Result and propagate failures with `?` (found %d)" % (t, tries), m["file"], m["line"], {}))
    # ---- C17-4
    st4 = res.rule("C17-4", instances=0)
    f = facts.fn("xe::append_child_to_tree")
    for n in walk(f["body"]):
        if n.get("k") == "MethodCall" and n["m"] in ("create_element", "create_attribute"):
            st4["instances"] += 1
            arg = n["args"][0]
            producers = [m for m in walk(arg) if m.get("k") == "MethodCall" and (m.get("rid") or m.get("id")) in facts.fns]
            reads_prefix = False
            for p in producers:
                g = facts.fns[p.get("rid") or p["id"]]
                reach, _ = facts.reachable([g["id"]])
                if any(facts.fns[x]["path"].endswith("::prefix") or facts.fns[x]["path"].endswith("::qname") for x in reach):
                    reads_prefix = True
            res.oblige(1, reads_prefix)
            if not reads_prefix:
                res.add(Finding("C17-4", n["m"], "xe::append_child_to_tree passes %s to %s: that name is the local part only, so a prefixed "
                                "element or attribute in --value is rebuilt without its prefix"
                                % ([p["m"] + "()" for p in producers], n["m"]), f["file"], n.get("ln"), {}))
    if st4["instances"] < 2:
        raise BrokenCheck("C17-4: %d create_* calls in append_child_to_tree (floor 2)" % st4["instances"])
    # ---- C17-5: a number result is printed through the XPath string conversion, never through f64's own Display
    # (which writes inf / -inf where XPath 1.0 4.2 says Infinity / -Infinity)
    import re
    st5 = res.rule("C17-5", instances=0)
    for f in facts.fns.values():
        if f["crate"] not in TOOLS:
            continue
        for bi, t in facts.mir_calls(f):
            c = t.get("callee")
            if not c:
                continue
            pa = c.get("rpathargs") or c.get("pathargs") or ""
            m = re.search(r"Argument::<'_>::new_(display|debug|lower_exp|upper_exp)::<(.*)>$", pa)
            if not m:
                if re.search(r"^<f64 as std::string::ToString>::to_string$|impl std::fmt::Display for f64>::fmt$", pa):
                    m = re.match(r"()(.*)", "f64")
                else:
                    continue
            st5["instances"] += 1
            ty = m.group(2).lstrip("&").strip()
            bad = ty in ("f64", "f32") or ty.endswith("eval::model::Value")
            res.oblige(1, not bad)
            if bad:
                res.add(Finding("C17-5", "%s|display<%s>" % (f["path"], ty), "%s prints a %s with the standard formatter: an infinite number "
                                "result is written as inf instead of Infinity; convert with String::try_from(&value)" % (f["path"], ty),
                                f["file"], t.get("ln"), {}))
    if st5["instances"] < 2:
        raise BrokenCheck("C17-5: %d formatted values in the tools (floor 2)" % st5["instances"])
    # ---- C17-6: xe rebuilds every kind of node of the replacement with the factory of the same kind
    st6 = res.rule("C17-6", instances=0)
    f = facts.fn("xe::append_child_to_tree")
    want = {"Element": "create_element", "Text": "create_text_node", "CData": "create_cdata_section", "Comment": "create_comment",
            "PI": "create_processing_instruction", "EntityReference": "create_entity_reference", "Attribute": "create_attribute"}
    # enumflow over the kinds of XmlNode: which factory is reached for which kind of node, through nested or split matches and
    # through helpers that are handed the node
    import xpdispatch
    seen, nuses = xpdispatch.table(facts, f, "xml_dom::XmlNode", lambda nm: str(nm).split("::")[-1].startswith("create_"), "C17-6",
                                   exact_type="xml_dom::XmlNode")
    for v in sorted(want):
        made = sorted({str(x).split("::")[-1] for x in seen.get(v, ())})
        if not made:
            continue                 # a kind the tool does not rebuild (refused with an error)
        st6["instances"] += 1
        ok = made == [want[v]]
        res.oblige(1, ok)
        if not ok:
            res.add(Finding("C17-6", "append_child_to_tree|" + v, "xe rebuilds a %s node of the replacement with %s (expected %s): the "
                            "children of the selected element are not the parsed replacement" % (v, made, want[v]), f["file"], f["line"], {}))
    if st6["instances"] < 3:
        raise BrokenCheck("C17-6: %d node kinds rebuilt in append_child_to_tree (floor 3)" % st6["instances"])
    # ---- C17-8: xq prints the selection in document order, each node once (typestate of C07); its compact output is the
    # printers' output (quoting, XML declaration order, presence paths of C04)
    from props import c07, c04
    c07.summary_rule(facts, res, "C17-8")
    c04.r04_4(facts, res)
    c04.r04_7(facts, res)
    c04.r04_8(facts, res)
    c04.r04_9(facts, res)
    c04.r04_10(facts, res)
    c04.r04_11(facts, res)
    c04.r04_12(facts, res)
    c04.r04_13(facts, res)
    c04.r04_14(facts, res)
    from props import c01, c15
    c01.r01_3(facts, res)       # every item of the input reaches the information set (xe leaves the others unchanged)
    c15.r15_6(facts, res, "C17-10")
    # ---- C17-7: xe empties the selected node with child_nodes() + remove_child(); merged text nodes must go completely
    from props import c13
    c13.r13_5(facts, res, "C17-7")
    c13.r13_7(facts, res, "C17-9")     # xe appends the replacement to nodes it has just emptied or detached
    c13.r13_12(facts, res, "C17-11")   # .. and remove_child of a merged text node takes every piece with it, whatever its kind
    # "xq prints exactly the selection": the abbreviations select what their expansions select (R08-3: @, empty step, the three
    # expansions of `//`) and a numeric predicate is position() = n (R08-4)
    from props import c08
    c08.r08_3(facts, res)
    c08.r08_4(facts, res)
    # both tools read documents and replacement fragments through XmlDocument::new: a start tag may carry a:id next to b:id
    from props import c02
    ok, why = c02.wfc_unique_att(facts)
    res.rule("C17-12", instances=1)
    res.oblige(1, ok)
    if not ok:
        f_ = facts.fn("xml_info::XmlElement::node")
        res.add(Finding("C17-12", "Unique Att Spec", "XmlElement::node: %s (xq / xe refuse or accept input the grammar decides otherwise)" % why, f_["file"], f_["line"], {}))
    res.functions_analysed = sum(1 for f in facts.fns.values() if f["crate"] in TOOLS)
    return res
