"""C17 — the xe and xq tools (narrow)."""
import e1
import reasons_e1
import restcheck
from common import Finding, Result
from facts import BrokenCheck, walk

LEVEL = "other"

TOOLS = ("xe", "xq")


def run(facts, tier):
    res = Result("C17")
    res.explanation = (
        "static (narrow): C17-1 document() and parse_node() of both tools test the unconsumed rest (R02-1); C17-2 panic sites "
        "in the tools' own code reachable from the two main functions (library sites belong to C03 / C06 / C13); C17-3 error "
        "discipline: no Result is dropped (`let _ =`, `.ok()`, an unused Result statement) and main returns the error; C17-4 the "
        "names handed to create_element / create_attribute when xe rebuilds the replacement are qualified names (the producer "
        "must read the prefix).")
    res.assumptions = ["that exactly the selected nodes are rewritten, and the printed bytes, are not decided"]
    # ---- C17-1
    restcheck.rule(facts, res, "C17-1", caller_filter=lambda p: p.split("::")[0] in TOOLS, floor=3)
    # ---- C17-2
    roots = [facts.fn("xe::main")["id"], facts.fn("xq::main")["id"]]
    reach0, _ = facts.reachable(roots)
    reasons, verdicts = reasons_e1.resolve(facts, reach0)
    e1.panic_rule(facts, res, "C17-2", roots, reasons, {}, only_crates=TOOLS)
    if res.rules["C17-2"]["instances"] < 3:
        raise BrokenCheck("C17-2: %d sites in the tools (floor 3)" % res.rules["C17-2"]["instances"])
    # ---- C17-3
    st = res.rule("C17-3", instances=0)
    for f in facts.fns.values():
        if f["crate"] not in TOOLS or "body" not in f:
            continue
        for n in walk(f["body"]):
            # statements whose value is a Result and is thrown away
            if n.get("s") == "Semi":
                e = n["e"]
                ty = str(e.get("ty", ""))
                if ty.startswith("std::result::Result<") and e.get("k") in ("Call", "MethodCall"):
                    st["instances"] += 1
                    res.oblige(1, False)
                    res.add(Finding("C17-3", "%s|unused-result|%s" % (f["path"], e.get("m") or e["f"].get("path")),
                                    "%s ignores the Result of %s" % (f["path"], e.get("m") or e["f"].get("path")), f["file"], e.get("ln"), {}))
            if n.get("s") == "Let" and n["pat"].get("p") == "Wild" and "init" in n:
                ty = str(n["init"].get("ty", ""))
                if ty.startswith("std::result::Result<"):
                    st["instances"] += 1
                    res.oblige(1, False)
                    res.add(Finding("C17-3", "%s|let-underscore" % f["path"], "%s discards a Result with `let _ =`" % f["path"], f["file"], n.get("ln"), {}))
            if n.get("k") == "MethodCall" and n["m"] == "ok" and str(n.get("recvty", "")).lstrip("&").startswith("std::result::Result<"):
                st["instances"] += 1
                res.oblige(1, False)
                res.add(Finding("C17-3", "%s|ok()" % f["path"], "%s turns an error into None with .ok()" % f["path"], f["file"], n.get("ln"), {}))
    for t in TOOLS:
        m = facts.fn(t + "::main")
        st["instances"] += 1
        ok = "-> std::result::Result<()" in m.get("sig", "")
        tries = sum(1 for n in walk(m["body"]) if n.get("k") == "Match" and n.get("src") == "Try")
        ok = ok and tries >= 3
        res.oblige(1, ok)
        if not ok:
            res.add(Finding("C17-3", t + "::main", "%s::main must return Result and propagate failures with `?` (found %d)" % (t, tries), m["file"], m["line"], {}))
    # ---- C17-4
    st4 = res.rule("C17-4", instances=0)
    f = facts.fn("xe::append_child_to_tree")
    for n in walk(f["body"]):
        if n.get("k") == "MethodCall" and n["m"] in ("create_element", "create_attribute"):
            st4["instances"] += 1
            arg = n["args"][0]
            producers = [m for m in walk(arg) if m.get("k") == "MethodCall" and (m.get("rid") or m.get("id")) in facts.fns]
            reads_prefix = False
            for p in producers:
                g = facts.fns[p.get("rid") or p["id"]]
                reach, _ = facts.reachable([g["id"]])
                if any(facts.fns[x]["path"].endswith("::prefix") or facts.fns[x]["path"].endswith("::qname") for x in reach):
                    reads_prefix = True
            res.oblige(1, reads_prefix)
            if not reads_prefix:
                res.add(Finding("C17-4", n["m"], "xe::append_child_to_tree passes %s to %s: that name is the local part only, so a prefixed "
                                "element or attribute in --value is rebuilt without its prefix"
                                % ([p["m"] + "()" for p in producers], n["m"]), f["file"], n.get("ln"), {}))
    if st4["instances"] < 2:
        raise BrokenCheck("C17-4: %d create_* calls in append_child_to_tree (floor 2)" % st4["instances"])
    res.functions_analysed = sum(1 for f in facts.fns.values() if f["crate"] in TOOLS)
    return res
