"""C18 — character classes and name syntax (R18-1 tables, R18-2 name productions)."""
import charset
from common import Finding, Result
from e3 import pred_set, Uninterpretable
from facts import BrokenCheck
import xmlchars

LEVEL = "other"


def witness(diff):
    cp = diff.min()
    return "U+%04X" % cp


def r18_1(facts, res):
    """Five classification predicates vs productions [2], [4], [4a], [13], [81], for every scalar value."""
    st = res.rule("R18-1", instances=0, floor=5, exhaustive=True,
                  domain="all 1,112,064 Unicode scalar values, by interval algebra")
    for path, (prod, ref) in xmlchars.CLASS_TABLE.items():
        fn = facts.fn(path)
        st["instances"] += 1
        try:
            got = pred_set(facts, fn)
        except Uninterpretable as u:
            raise BrokenCheck("R18-1: predicate %s uses a construct the interval interpreter does not know: %s" % (path, u))
        extra = got - ref
        missing = ref - got
        ok = not extra and not missing
        res.oblige(1, ok)
        res.sample({"rule": "R18-1", "predicate": path, "production": prod,
                    "members": got.size(), "reference_members": ref.size(),
                    "intervals": len(got.iv), "verdict": "equal" if ok else "differs"})
        if extra:
            res.add(Finding("R18-1", "%s:accepts-too-much" % path,
                            "%s accepts %d code points outside %s: %r (first %s)" % (path, extra.size(), prod, extra, witness(extra)),
                            fn["file"], fn["line"], {"extra": extra.to_json(), "production": prod}))
        if missing:
            res.add(Finding("R18-1", "%s:rejects" % path,
                            "%s rejects %d code points of %s: %r (first %s)" % (path, missing.size(), prod, missing, witness(missing)),
                            fn["file"], fn["line"], {"missing": missing.to_json(), "production": prod}))
    if st["instances"] < st["floor"]:
        raise BrokenCheck("R18-1: %d predicates found, floor %d" % (st["instances"], st["floor"]))


def r18_3(facts, res, rule="R18-3"):
    """White space is production [3] S = #x20 | #x9 | #xD | #xA and nothing else: a helper of the library that asks whether a
    name contains white space (the DOM factories refuse such names) must test exactly these four characters - Unicode white
    space (`char::is_whitespace`) includes U+1680, which is a NameStartChar and NameChar."""
    import e3
    from facts import walk
    st = res.rule(rule, instances=0)
    S = e3.CS.of((0x9, 0xA), (0xD, 0xD), (0x20, 0x20))
    for f in sorted(facts.fns.values(), key=lambda x: x["path"]):
        if f["crate"] not in ("xml_info", "xml_dom") or "body" not in f or "::tests::" in f["path"]:
            continue
        nm = f["path"].split("::")[-1]
        if not ("white_space" in nm or "whitespace" in nm) or not str(f.get("sig", "")).endswith("-> bool"):
            continue
        st["instances"] += 1
        got = None
        try:
            for n in walk(f["body"]):
                if n.get("k") == "MethodCall" and n.get("m") in ("contains", "any", "find", "starts_with", "ends_with") and n.get("args"):
                    a = n["args"][0]
                    while a.get("k") == "AddrOf":
                        a = a["a"]
                    if a.get("k") == "Closure":
                        got = e3.closure_set(facts, a, {})
                    elif a.get("k") == "Path" and str(a.get("path", "")).split("::")[-1].startswith("is_"):
                        m = str(a["path"]).split("::")[-1]
                        got = e3.ASCII_METHODS.get(m) if m in e3.ASCII_METHODS else e3.unicode_method(m)
                    else:
                        v = e3.Interp(facts).ev(a, {})
                        if isinstance(v, tuple) and v[0] == "arr" and all(isinstance(x, int) for x in v[1]):
                            got = e3.CS.of(*[(x, x) for x in v[1]])
                        elif isinstance(v, int):
                            got = e3.CS.of((v, v))
                        elif isinstance(v, tuple) and v[0] == "str":
                            got = v[1]
        except e3.Uninterpretable as u:
            raise BrokenCheck("%s: %s: %s" % (rule, f["path"], u))
        if got is None:
            raise BrokenCheck("%s: %s: the set of characters tested is not recognised" % (rule, f["path"]))
        ok = got == S
        res.oblige(1, ok)
        if not ok:
            extra, missing = got - S, S - got
            res.add(Finding(rule, f["path"], "%s treats %s as white space, XML 1.0 [3] S is #x20 #x9 #xD #xA (%d code points too many, first %s; "
                            "%d missing)" % (f["path"], "other characters", extra.size(), ("U+%04X" % extra.min()) if extra else "-", missing.size()),
                            f["file"], f["line"], {}))
    if st["instances"] < 1:
        raise BrokenCheck("%s: no white-space helper found in xml_info / xml_dom" % rule)


def run(facts, tier):
    res = Result("C18")
    res.explanation = (
        "static: R18-1 evaluates the five character predicates symbolically to interval sets over all Unicode "
        "scalar values and compares them with productions [2],[4],[4a],[13],[81]; R18-2 extracts the nom "
        "combinator terms of the name productions (Name, NCName, QName, Nmtoken, PITarget, EncName, ...) from the "
        "typed syntax tree, turns them into automata over an abstract alphabet that refines every class and literal "
        "in code and specification, and decides language equality with the Recommendation's productions.")
    res.assumptions = [
        "Rust `char` = Unicode scalar value (surrogates excluded on both sides)",
        "semantics of char::is_ascii_* and str::contains(char) as documented in std",
    ]
    r18_1(facts, res)
    r18_3(facts, res)
    try:
        import e2
        e2.r18_2(facts, res, tier)
    except ImportError:
        res.notes.append("R18-2 engine not available in this build")
    res.functions_analysed = len(xmlchars.CLASS_TABLE) + res.extra.get("grammar_functions", 0)
    res.extra["exhaustive"] = True
    return res
