"""C18 — character classes and name syntax (R18-1 tables, R18-2 name productions)."""
import charset
from common import Finding, Result
from e3 import pred_set, Uninterpretable
from facts import BrokenCheck
import xmlchars

LEVEL = "other"


def witness(diff):
    cp = diff.min()
    return "U+%04X" % cp


def r18_1(facts, res):
    """Five classification predicates vs productions [2], [4], [4a], [13], [81], for every scalar value."""
    st = res.rule("R18-1", instances=0, floor=5, exhaustive=True,
                  domain="all 1,112,064 Unicode scalar values, by interval algebra")
    for path, (prod, ref) in xmlchars.CLASS_TABLE.items():
        fn = facts.fn(path)
        st["instances"] += 1
        try:
            got = pred_set(facts, fn)
        except Uninterpretable as u:
            raise BrokenCheck("R18-1: predicate %s uses a construct the interval interpreter does not know: %s" % (path, u))
        extra = got - ref
        missing = ref - got
        ok = not extra and not missing
        res.oblige(1, ok)
        res.sample({"rule": "R18-1", "predicate": path, "production": prod,
                    "members": got.size(), "reference_members": ref.size(),
                    "intervals": len(got.iv), "verdict": "equal" if ok else "differs"})
        if extra:
            res.add(Finding("R18-1", "%s:accepts-too-much" % path,
                            "%s accepts %d code points outside %s: %r (first %s)" % (path, extra.size(), prod, extra, witness(extra)),
                            fn["file"], fn["line"], {"extra": extra.to_json(), "production": prod}))
        if missing:
            res.add(Finding("R18-1", "%s:rejects" % path,
                            "%s rejects %d code points of %s: %r (first %s)" % (path, missing.size(), prod, missing, witness(missing)),
                            fn["file"], fn["line"], {"missing": missing.to_json(), "production": prod}))
    if st["instances"] < st["floor"]:
        raise BrokenCheck("R18-1: %d predicates found, floor %d" % (st["instances"], st["floor"]))


def run(facts, tier):
    res = Result("C18")
    res.explanation = (
        "static: R18-1 evaluates the five character predicates symbolically to interval sets over all Unicode "
        "scalar values and compares them with productions [2],[4],[4a],[13],[81]; R18-2 extracts the nom "
        "combinator terms of the name productions (Name, NCName, QName, Nmtoken, PITarget, EncName, ...) from the "
        "typed syntax tree, turns them into automata over an abstract alphabet that refines every class and literal "
        "in code and specification, and decides language equality with the Recommendation's productions.")
    res.assumptions = [
        "Rust `char` = Unicode scalar value (surrogates excluded on both sides)",
        "semantics of char::is_ascii_* and str::contains(char) as documented in std",
    ]
    r18_1(facts, res)
    try:
        import e2
        e2.r18_2(facts, res, tier)
    except ImportError:
        res.notes.append("R18-2 engine not available in this build")
    res.functions_analysed = len(xmlchars.CLASS_TABLE) + res.extra.get("grammar_functions", 0)
    res.extra["exhaustive"] = True
    return res
