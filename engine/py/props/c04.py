"""C04 — serialisation round-trips (structural clauses)."""
import re

import automata as A
import e2
from charset import CS, UNIVERSE
from common import Finding, Result
from facts import BrokenCheck, walk

LEVEL = "other"

ITEM_TYPES = ["XmlAttribute", "XmlAttributeValue", "XmlCData", "XmlCharReference", "XmlComment", "XmlDeclarationAttList",
              "XmlDocument", "XmlDocumentTypeDeclaration", "XmlElement", "XmlEntity", "XmlEntityValue", "XmlItem",
              "XmlNamespace", "XmlNotation", "XmlProcessingInstruction", "XmlText", "XmlUnexpandedEntityReference",
              "XmlUnparsedEntity"]

# fields that are printed but need not be compared (reason)
EQ_REASONS = {
    ("XmlCharReference", "num"): "the referenced character (`text`, derived from num and radix) is compared instead",
    ("XmlCharReference", "radix"): "see num: &#65; and &#x41; denote the same character",
    ("XmlUnexpandedEntityReference", "name"): "the entity item (which holds the name) is compared",
    ("XmlUnparsedEntity", "name"): "derived PartialEq compares all fields",
    ("XmlNamespace", "prefix"): "derived PartialEq compares all fields",
    ("XmlNamespace", "namespace_name"): "derived PartialEq compares all fields",
}


def writes_something(facts, f):
    for bi, t in facts.mir_calls(f):
        c = t.get("callee")
        if not c:
            continue
        n = facts.callee_name(c)
        if n.endswith("Formatter::<'a>::write_fmt") or n.endswith("Formatter::<'a>::write_str") or n.endswith("io::Write::write_fmt") \
                or n.endswith("::fmt") or n.endswith("::indented") or n.endswith("::pretty"):
            return True
    return False


def directly_compared(body):
    """Fields F with `self.F == other.F` (the field values themselves, not their length or another derived quantity)."""
    out = set()

    def field_of(x, who):
        while isinstance(x, dict) and x.get("k") in ("AddrOf", "Deref", "Unary"):
            x = x.get("a") or x.get("e")
        if isinstance(x, dict) and x.get("k") == "MethodCall" and x["m"] in ("as_deref", "as_str", "as_ref", "borrow", "as_slice") and not x.get("args"):
            return field_of(x.get("recv"), who)
        if isinstance(x, dict) and x.get("k") == "Field" and x["a"].get("k") == "Path" and (x["a"].get("name") == "self") == (who == "self"):
            return x["name"]
        return None
    for m in walk(body):
        if m.get("k") == "Binary" and m.get("op") == "==":
            a, b = field_of(m["a"], "self"), field_of(m["b"], "other")
            if a and a == b:
                out.add(a)
            a, b = field_of(m["b"], "self"), field_of(m["a"], "other")
            if a and a == b:
                out.add(a)
    return out


def self_fields(body):
    out = set()
    for m in walk(body):
        if m.get("k") == "Field" and m["a"].get("k") == "Path" and m["a"].get("name") == "self":
            out.add(m["name"])
    return out


# ------------------------------------------------------------------------------------------
# R04-2 printer templates inside productions

def split_args(snip):
    m = re.search(r'"((?:[^"\\]|\\.)*)"', snip)
    if not m:
        return None, []
    tmpl = m.group(1).replace('\\"', '"').replace("\\n", "\n")
    rest = snip[m.end():].rstrip(")").strip()
    args, depth, cur = [], 0, ""
    for ch in rest:
        if ch in "([{":
            depth += 1
        elif ch in ")]}":
            depth -= 1
        if ch == "," and depth == 0:
            if cur.strip():
                args.append(cur.strip())
            cur = ""
        else:
            cur += ch
    if cur.strip():
        args.append(cur.strip())
    return tmpl, args


def print_paths(e, binds):
    """All execution paths of a Display body as lists of (template, [arg field names])."""
    k = e.get("k")
    if k == "Block":
        paths = [[]]
        for s in e.get("stmts", []):
            x = s.get("e") or s.get("init")
            if s.get("s") == "Let":
                continue
            sub = print_paths(x, binds)
            paths = [p + q for p in paths for q in sub]
        if "expr" in e:
            sub = print_paths(e["expr"], binds)
            paths = [p + q for p in paths for q in sub]
        return paths
    if k == "Match" and e.get("src") == "Try":
        sc = e["scrut"]
        inner = sc["args"][0] if sc.get("k") == "Call" and sc["args"] else sc
        return print_paths(inner, binds)
    if k in ("Call", "MethodCall") and e.get("mac", "").startswith(("write", "writeln")) and e.get("snip"):
        tmpl, args = split_args(e["snip"])
        fields = []
        for a in args[1:] if args and args[0] in ("f",) else args:
            m = re.search(r"self\.(\w+)", a)
            if m:
                fields.append(m.group(1))
            elif re.match(r"^\w+$", a) and a in binds:
                fields.append(binds[a])
            else:
                fields.append("?" + a)
        return [[(tmpl + ("\n" if e["mac"].startswith("writeln") else ""), fields)]]
    if k in ("Call", "MethodCall") and e.get("mac", "").startswith(("unreachable", "panic", "unimplemented", "todo")):
        return []
    if k == "If":
        c = e["cond"]
        b2 = dict(binds)
        if c.get("k") == "Let":
            fld = [m["name"] for m in walk(c["init"]) if m.get("k") == "Field" and m["a"].get("name") == "self"]
            for p in walk(c["pat"]):
                if p.get("p") == "Bind" and fld:
                    b2[p["name"]] = fld[0]
        t = print_paths(e["then"], b2)
        f = print_paths(e["else"], binds) if "else" in e else [[]]
        return t + f
    if k == "Match":
        out = []
        for arm in e["arms"]:
            tag = None
            pat = arm["pat"]
            if pat.get("p") == "Expr" and pat["e"].get("k") == "Lit":
                tag = pat["e"]["v"]
            for p in print_paths(arm["body"], binds):
                out.append([("@arm", [tag])] + p if tag is not None else p)
        return out
    if k == "Call" and str(e["f"].get("path", "")).endswith("::Ok"):
        return [[]]
    return [[]]


def r04_2(facts, res):
    import xml10
    X = xml10
    digits = X.Plus(X.C(CS.of((0x30, 0x39))))
    hexd = X.Plus(X.C(CS.of((0x30, 0x39), (0x41, 0x46), (0x61, 0x66))))
    table = {
        # type: (production, {field: language}, arm-specific overrides)
        "XmlComment": ("Comment", {"comment": X.Star(X.Alt(X.NotIn("-"), X.Seq(X.L("-"), X.NotIn("-"))))}),
        "XmlCData": ("CDSect", {"data": X.Minus(X.ANY, X.Containing("]]>"))}),
        "XmlProcessingInstruction": ("PI", {"target": X.NT("PITarget"), "content": X.Minus(X.ANY, X.Containing("?>"))}),
        "XmlCharReference": ("CharRef", {"num": {10: digits, 16: hexd}}),
        "XmlUnexpandedEntityReference": ("EntityRef", {"name": X.NT("Name")}),
        "XmlText": ("CharData", {"text": X.NT("CharData")}),
    }
    st = res.rule("R04-2", instances=0, paths=0)
    for ty, (prod, holes) in table.items():
        f = facts.fn("xml_info::<%s as std::fmt::Display>::fmt" % ty)
        paths = print_paths(f["body"], {})
        paths = [p for p in paths if p]
        if not paths:
            raise BrokenCheck("R04-2: no printing path recognised in %s" % f["path"])
        st["instances"] += 1
        target = e2.expand_spec(X.P, X.P[prod], set())
        for p in paths:
            st["paths"] += 1
            arm = None
            terms = []
            bad = None
            for tmpl, fields in p:
                if tmpl == "@arm":
                    arm = fields[0]
                    continue
                pieces = re.split(r"(\{\})", tmpl)
                fi = 0
                for piece in pieces:
                    if piece == "{}":
                        fld = fields[fi] if fi < len(fields) else "?"
                        fi += 1
                        lang = holes.get(fld)
                        if isinstance(lang, dict):
                            lang = lang.get(arm)
                        if lang is None:
                            bad = "hole filled from `%s`, for which no stored language is known" % fld
                            break
                        terms.append(e2.expand_spec(X.P, lang, set()))
                    elif piece:
                        terms.append(("lit", piece))
                if bad:
                    break
            key = "%s|%s" % (ty, "".join(t for t, _ in p if t != "@arm"))
            if bad:
                res.oblige(1, False)
                res.add(Finding("R04-2", key, "%s: %s" % (f["path"], bad), f["file"], f["line"], {}))
                continue
            printed = ("seq", terms)
            sets, atoms = {UNIVERSE}, set()
            A.collect_sets(printed, sets, atoms)
            A.collect_sets(target, sets, atoms)
            al = A.Alphabet(sets, atoms)
            b = A.Builder(al)
            w = b.dfa_of(printed).minus(b.dfa_of(target)).shortest()
            res.oblige(1, w is None)
            res.sample({"rule": "R04-2", "item": ty, "template": key.split("|", 1)[1], "production": prod,
                        "verdict": "inside" if w is None else "prints " + al.render(w)}, limit=12)
            if w is not None:
                res.add(Finding("R04-2", key, "%s can print %r, which production %s does not derive: the serialisation is not re-parsed as the same item"
                                % (f["path"], al.render(w), prod), f["file"], f["line"], {"witness": al.render(w)}))
    if st["paths"] < 4:
        raise BrokenCheck("R04-2: %d printing paths (floor 4)" % st["paths"])


def quote_rule(facts, res):
    """escape(): a value containing '"' is written in single quotes, any other value in double quotes."""
    st = res.rule("R04-2q", instances=1)
    f = facts.fn("xml_info::escape")
    tm = []
    cond_lit = None
    for n in walk(f["body"]):
        if n.get("k") == "If":
            for m in walk(n["cond"]):
                if m.get("k") == "MethodCall" and m["m"] == "contains" and m["args"] and m["args"][0].get("k") == "Lit":
                    cond_lit = m["args"][0]["v"]
            for branch in ("then", "else"):
                for m in walk(n[branch]):
                    if m.get("k") in ("Call", "MethodCall") and m.get("mac", "").startswith("format") and m.get("snip"):
                        t, _ = split_args(m["snip"])
                        tm.append((branch, t))
    tm = list(dict.fromkeys(tm))
    ok = cond_lit in ('"', 34) and ("then", "'{}'") in tm and ("else", '"{}"') in tm
    res.oblige(1, ok)
    if not ok:
        res.add(Finding("R04-2q", "escape", "escape(): expected `if value.contains('\"') { '{}' } else { \"{}\" }`, found condition on %r and templates %s"
                        % (cond_lit, tm), f["file"], f["line"], {}))


# ------------------------------------------------------------------------------------------
# R04-4 quoting discipline, R04-5 value coverage of printed fields

# fields that may stand between hard-coded quotes: the production they are parsed by derives no quote character
QUOTE_FREE_FIELDS = {("XmlDocument", "version"): "VersionNum", ("XmlDocument", "encoding"): "EncName"}


def _quote_free(prod):
    """L(prod) contains no string with a quote character (automaton: L minus the quote-free strings is empty)."""
    import xml10 as X
    t = e2.expand_spec(X.P, X.P[prod], set())
    free = e2.expand_spec(X.P, X.Minus(X.ANY, X.Alt(X.Containing('"'), X.Containing("'"))), set())
    sets, atoms = {UNIVERSE}, set()
    A.collect_sets(t, sets, atoms)
    A.collect_sets(free, sets, atoms)
    b = A.Builder(A.Alphabet(sets, atoms))
    return b.dfa_of(t).minus(b.dfa_of(free)).shortest() is None


def _local_origin(f, name):
    """What a bare identifier printed by a template is bound to: ('field', x) / ('literal', None) / ('other', None)."""
    for n in walk(f["body"]):
        init = None
        if n.get("s") == "Let" and any(p.get("p") == "Bind" and p.get("name") == name for p in walk(n["pat"])):
            init = n.get("init")
        if n.get("k") == "Let" and any(p.get("p") == "Bind" and p.get("name") == name for p in walk(n["pat"])):
            init = n.get("init")
        if init is None:
            continue
        if init.get("k") == "If":
            leaves = []
            for br in ("then", "else"):
                b = init.get(br) or {}
                e = b.get("expr") if b.get("k") == "Block" else b
                leaves.append(isinstance(e, dict) and e.get("k") == "Lit")
            if all(leaves):
                return ("literal", None)
        flds = [m["name"] for m in walk(init) if m.get("k") == "Field" and m["a"].get("name") == "self"]
        if flds:
            return ("field", flds[0])
        return ("other", None)
    return ("other", None)


def printers(facts):
    out = []
    for ty in ITEM_TYPES:
        for tr, m in (("std::fmt::Display", "fmt"), ("IndentedDisplay", "indented")):
            f = facts.fn_opt("xml_info::<%s as %s>::%s" % (ty, tr, m))
            if f is not None and "body" in f:
                out.append((ty, m, f))
    return out


def r04_4(facts, res):
    """Hard-coded quotes in a printer may only surround values that cannot contain a quote; every other string goes through
    escape(), which picks the delimiter from the value."""
    st = res.rule("R04-4", instances=0)
    safe = {k: _quote_free(v) for k, v in QUOTE_FREE_FIELDS.items()}
    for k, ok in safe.items():
        if not ok:
            raise BrokenCheck("R04-4: production %s derives a quote character" % QUOTE_FREE_FIELDS[k])
    for ty, m, f in printers(facts):
        seen = set()
        for n in walk(f["body"]):
            if not (n.get("k") in ("Call", "MethodCall") and n.get("mac", "").startswith(("write", "format")) and n.get("snip")):
                continue
            if (n.get("ln"), n["snip"]) in seen:
                continue
            seen.add((n.get("ln"), n["snip"]))
            tmpl, args = split_args(n["snip"])
            if tmpl is None or not ('"' in tmpl or "'" in tmpl):
                continue
            st["instances"] += 1
            args = args[1:] if args and args[0] == "f" else args
            key = "%s::%s|%s" % (ty, m, tmpl)
            if "{" not in tmpl and tmpl.count('"') % 2 == 0 and tmpl.count("'") % 2 == 0:
                res.oblige(1, True)      # a constant with balanced quotes
                continue
            if "{" not in tmpl:
                res.oblige(1, False)
                res.add(Finding("R04-4", key, "%s writes a bare delimiter %r around a value that is streamed separately: a value containing "
                                "that quote ends the literal early; use escape()" % (f["path"], tmpl), f["file"], n.get("ln"), {}))
                continue
            bad = []
            for a in args:
                mm = re.search(r"self\.(\w+)", a)
                if mm:
                    origin = ("field", mm.group(1))
                elif re.match(r"^\w+$", a):
                    origin = _local_origin(f, a)
                elif re.match(r'^".*"$', a):
                    origin = ("literal", None)
                else:
                    origin = ("other", None)
                if origin[0] == "literal" or (origin[0] == "field" and safe.get((ty, origin[1]))):
                    continue
                bad.append(a)
            res.oblige(1, not bad)
            res.sample({"rule": "R04-4", "printer": f["path"], "template": tmpl, "args": args, "verdict": "quote-free" if not bad else "dynamic"}, limit=40)
            if bad:
                res.add(Finding("R04-4", key, "%s writes %s between hard-coded quotes (%r): a value containing that quote is printed as text the "
                                "parser rejects; use escape()" % (f["path"], bad, tmpl), f["file"], n.get("ln"), {}))
    # a delimiter handled as a character value (`let quote = if .. { '\'' } else { '"' }; write!(f, "{}={}", name, quote)`) is a
    # second place that decides the quote: nothing ties the text it was decided on to the text that is written between the quotes
    for ty, m, f in printers(facts):
        qs = [n for n in walk(f["body"]) if n.get("k") == "Lit" and n.get("t") == "char" and n.get("v") in (34, 39, '"', "'")]
        if qs:
            st["instances"] += 1
            res.oblige(1, False)
            res.add(Finding("R04-4", "%s::%s|quote-char" % (ty, m), "%s picks the delimiter itself (character literal %s) instead of handing the text "
                            "it prints to escape(): the delimiter is decided on one string and wrapped around another (expanded value vs "
                            "literal pieces)" % (f["path"], sorted({chr(n["v"]) if isinstance(n["v"], int) else n["v"] for n in qs})), f["file"], qs[0].get("ln") or f["line"], {}))
    if st["instances"] < 3:
        raise BrokenCheck("R04-4: %d quoted templates in printers (floor 3)" % st["instances"])


def _pat_is_presence(p):
    """Some(binding) / Some(_) - refutable only in the absent case."""
    if p.get("p") == "TupleStruct" and str(p.get("path", "")).endswith("Some") and len(p.get("pats", [])) == 1:
        q = p["pats"][0]
        while q.get("p") in ("Ref", "Deref") and "pat" in q:
            q = q["pat"]
        return q.get("p") in ("Bind", "Wild") and "sub" not in q
    return False


def r04_5(facts, res):
    """A printer may skip a field only when it is absent: an `if let` over a field of self without else must be
    `Some(binding)`; a literal or variant below it (Some(true), Some(Kind::A)) silently drops the other values."""
    st = res.rule("R04-5", instances=0)
    for ty, m, f in printers(facts):
        for n in walk(f["body"]):
            if n.get("k") != "If" or n["cond"].get("k") != "Let":
                continue
            c = n["cond"]
            flds = [x["name"] for x in walk(c["init"]) if x.get("k") == "Field" and x["a"].get("name") == "self"]
            if not flds:
                continue
            st["instances"] += 1
            writes_else = "else" in n and any(x.get("mac", "").startswith("write") for x in walk(n["else"]))
            ok = _pat_is_presence(c["pat"]) or writes_else
            res.oblige(1, ok)
            if not ok:
                res.add(Finding("R04-5", "%s::%s|%s" % (ty, m, flds[0]), "%s prints field `%s` only for some of its values (refutable pattern below "
                                "Some and no else branch): the other values are lost in a round trip" % (f["path"], flds[0]),
                                f["file"], n.get("ln"), {}))
    if st["instances"] < 9:
        raise BrokenCheck("R04-5: %d conditional field prints (floor 9)" % st["instances"])


IDENTITY_FIELDS = ("id", "parent_id", "context", "order_cache", "order_version", "owner")
IDENTITY_CALLS = ("ptr_eq", "as_ptr", "addr_eq", "addr", "as_raw", "into_raw")


def structural_eq(facts, res, rule):
    """Equality of information items is structural: two parses of one text build different Rc cells and different ids, so an
    eq that looks at pointer identity or at an id field makes equal documents unequal (and only a document equal to itself)."""
    st = res.rule(rule, instances=0)
    for ty in ITEM_TYPES:
        eq = facts.fn_opt("xml_info::<%s as std::cmp::PartialEq>::eq" % ty)
        if eq is None or "body" not in eq or eq.get("derived"):
            continue
        st["instances"] += 1
        bad = []
        for n in walk(eq["body"]):
            name = None
            if n.get("k") == "MethodCall":
                name = n["m"]
            elif n.get("k") == "Call" and isinstance(n.get("f"), dict):
                name = str(n["f"].get("path", "")).split("::")[-1]
            if name in IDENTITY_CALLS or (name == "eq" and "std::ptr" in str(n.get("f", {}).get("path", ""))):
                bad.append("calls %s" % name)
        for fld in sorted(self_fields(eq["body"])):
            if fld in IDENTITY_FIELDS:
                bad.append("compares the field `%s`" % fld)
        res.oblige(1, not bad)
        if bad:
            res.add(Finding(rule, ty + "|identity", "%s %s: equality by identity - two parses of the same text are not equal"
                            % (eq["path"], ", ".join(sorted(set(bad)))), eq["file"], eq["line"], {}))
    if st["instances"] < 7:
        raise BrokenCheck("%s: %d hand-written eq impls of information items (floor 7)" % (rule, st["instances"]))


# ------------------------------------------------------------------------------------------
# R04-7: a field that may be present is either printed or was tested absent, on every path through the printer

def _presence_test(cond):
    """-> [(field, present_in_then)] for conditions that test the presence of fields of self; [] for other conditions."""
    out = []
    if cond.get("k") == "Let":
        flds = [m["name"] for m in walk(cond["init"]) if m.get("k") == "Field" and m["a"].get("name") == "self"]
        if len(flds) == 1 and _pat_is_presence(cond["pat"]):
            out.append((flds[0], True))
        return out
    neg = 0
    n = cond
    while n.get("k") == "Unary" and n.get("op") == "!":
        neg += 1
        n = n["a"]
    if n.get("k") == "MethodCall" and n["m"] in ("is_empty", "is_none", "is_some"):
        flds = [m["name"] for m in walk(n) if m.get("k") == "Field" and m["a"].get("name") == "self"]
        if len(flds) == 1:
            present = n["m"] == "is_some"
            if neg % 2:
                present = not present
            out.append((flds[0], present))
    return out


def _printed_fields(e):
    return {m["name"] for m in walk(e) if m.get("k") == "Field" and m["a"].get("k") == "Path" and m["a"].get("name") == "self"}


def presence_paths(e, binds=None):
    """[(assumptions {field: bool}, printed {field})] for every path through a printer body (conditions that are not
    presence tests fork without an assumption)."""
    binds = binds or {}
    k = e.get("k") if isinstance(e, dict) else None
    if k == "Block":
        paths = [({}, set())]
        items = [s.get("e") or s.get("init") for s in e.get("stmts", [])] + ([e["expr"]] if "expr" in e else [])
        for it in items:
            if not isinstance(it, dict):
                continue
            sub = presence_paths(it, binds)
            new = []
            for a1, p1 in paths:
                for a2, p2 in sub:
                    if any(a1.get(f, v) != v for f, v in a2.items()):
                        continue      # contradictory assumptions: infeasible
                    a = dict(a1)
                    a.update(a2)
                    new.append((a, p1 | p2))
            paths = new[:4096]
        return paths
    if k == "Match" and e.get("src") == "Try":
        sc = e["scrut"]
        inner = sc["args"][0] if sc.get("k") == "Call" and sc.get("args") else sc
        return presence_paths(inner, binds)
    if k == "If":
        tests = _presence_test(e["cond"])
        cond_printed = set()
        if e["cond"].get("k") == "Let" and tests:
            # `if let Some(x) = self.f`: the field is printed when the then-branch uses x
            lids = {q.get("lid") for q in walk(e["cond"]["pat"]) if q.get("p") == "Bind"}
            if any(m.get("k") == "Path" and m.get("res") == "Local" and m.get("lid") in lids for m in walk(e["then"])):
                cond_printed.add(tests[0][0])
        t = presence_paths(e["then"], binds)
        f = presence_paths(e["else"], binds) if "else" in e else [({}, set())]
        out = []
        for a, p in t:
            a = dict(a)
            ok = True
            for fld, present in tests:
                if a.get(fld, present) != present:
                    ok = False
                a[fld] = present
            if ok:
                out.append((a, p | cond_printed))
        for a, p in f:
            a = dict(a)
            ok = True
            for fld, present in tests:
                if a.get(fld, not present) != (not present):
                    ok = False
                a[fld] = not present
            if ok:
                out.append((a, p))
        return out
    if k == "Match":
        # match over a tuple of self fields: Some(..) / None per position
        scr = e["scrut"]
        elems = scr.get("es") or scr.get("elems") or scr.get("args") if scr.get("k") == "Tup" else None
        flds = []
        if elems:
            for x in elems:
                fl = [m["name"] for m in walk(x) if m.get("k") == "Field" and m["a"].get("name") == "self"]
                flds.append(fl[0] if len(fl) == 1 else None)
        else:
            fl = [m["name"] for m in walk(scr) if m.get("k") == "Field" and m["a"].get("name") == "self"]
            flds = [fl[0]] if len(fl) == 1 else []
        out = []
        for arm in e["arms"]:
            a0 = {}
            pat = arm["pat"]
            pats = pat.get("pats") if pat.get("p") == "Tuple" else [pat]
            if pats and len(pats) == len(flds):
                for fld, q in zip(flds, pats):
                    if fld is None:
                        continue
                    if q.get("p") == "TupleStruct" and str(q.get("path", "")).endswith("Some"):
                        a0[fld] = True
                    elif q.get("p") in ("Path", "Expr") and str(q.get("path") or q.get("e", {}).get("path", "")).endswith("None"):
                        a0[fld] = False
            used = {m.get("lid") for m in walk(arm["body"]) if m.get("k") == "Path" and m.get("res") == "Local"}
            arm_printed = set()
            if pats and len(pats) == len(flds):
                for fld, q in zip(flds, pats):
                    if fld is not None and any(b.get("p") == "Bind" and b.get("lid") in used for b in walk(q)):
                        arm_printed.add(fld)
            for a, p in presence_paths(arm["body"], binds):
                if any(a0.get(f, v) != v for f, v in a.items()):
                    continue
                aa = dict(a0)
                aa.update(a)
                out.append((aa, p | arm_printed))
        return out
    if k in ("Call", "MethodCall") and str(e.get("mac", "")).startswith(("unreachable", "panic", "unimplemented", "todo")):
        return []
    if isinstance(e, dict):
        return [({}, _printed_fields(e))]
    return [({}, set())]


# (item, field) is absent whenever (other field, state) holds - by the grammar, one reason each
IMPLIED_ABSENT = {
    ("XmlDocument", "encoding"): [("version", False, "[23] XMLDecl: VersionInfo is mandatory, a document without version has no declaration")],
    ("XmlDocument", "standalone"): [("version", False, "[23] XMLDecl: VersionInfo is mandatory, a document without version has no declaration")],
    ("XmlEntity", "values"): [("system_identifier", True, "[73] EntityDef ::= EntityValue | (ExternalID NDataDecl?): a literal value excludes an external id"),
                              ("public_identifier", True, "[73] EntityDef: a literal value excludes an external id")],
}


def r04_7(facts, res):
    st = res.rule("R04-7", instances=0, paths=0)
    for ty, m, f in printers(facts):
        tested = set()
        for n in walk(f["body"]):
            if n.get("k") == "If":
                tested |= {fld for fld, _ in _presence_test(n["cond"])}
            if n.get("k") == "Match" and n.get("src") == "Normal":
                sc = n["scrut"]
                if sc.get("k") == "Tup":
                    tested |= {x["name"] for x in walk(sc) if x.get("k") == "Field" and x["a"].get("name") == "self"}
        if not tested:
            continue
        paths = presence_paths(f["body"])
        st["instances"] += 1
        st["paths"] += len(paths)
        bad = {}
        for a, printed in paths:
            for fld in tested:
                if fld not in printed and a.get(fld) is not False:
                    # the field may be present on this path, and the path neither prints it nor found it absent
                    if any(a.get(o) is st_ for o, st_, _why in IMPLIED_ABSENT.get((ty, fld), [])):
                        continue
                    bad.setdefault(fld, a)
        res.oblige(1, not bad)
        for fld, a in sorted(bad.items()):
            ctx = ", ".join("%s %s" % (k2, "present" if v else "absent") for k2, v in sorted(a.items()) if k2 != fld) or "no other test"
            res.add(Finding("R04-7", "%s::%s|%s" % (ty, m, fld), "%s: on the path with %s the field `%s` is neither printed nor found absent: a "
                            "value stored there is lost in the serialisation" % (f["path"], ctx, fld), f["file"], f["line"], {}))
    if st["instances"] < 3:
        raise BrokenCheck("R04-7: %d printers with optional fields (floor 3)" % st["instances"])


def r04_8(facts, res):
    """The XML declaration the printers write is an XMLDecl [23]: `<?xml` VersionInfo EncodingDecl? SDDecl? S? `?>` - in this
    order.  Every printing path of the declaration block, with the stored languages in the holes, is included in the
    production (automaton inclusion)."""
    import xml10 as X
    st = res.rule("R04-8", instances=0, paths=0)
    holes = {"version": X.NT("VersionNum"), "encoding": X.NT("EncName"), "?yes_no": X.Alt(X.L("yes"), X.L("no"))}
    target = e2.expand_spec(X.P, X.P["XMLDecl"], set())
    for tr, m in (("std::fmt::Display", "fmt"), ("IndentedDisplay", "indented")):
        f = facts.fn("xml_info::<XmlDocument as %s>::%s" % (tr, m))
        blk = None
        for n in walk(f["body"]):
            if n.get("k") == "If" and n["cond"].get("k") == "Let" and \
                    any(x.get("k") == "Field" and x.get("name") == "version" for x in walk(n["cond"]["init"])):
                blk = n
                break
        if blk is None:
            raise BrokenCheck("R04-8: %s has no `if let Some(version) = self.version` block" % f["path"])
        bname = [q["name"] for q in walk(blk["cond"]["pat"]) if q.get("p") == "Bind"]
        paths = print_paths(blk["then"], {b: "version" for b in bname})
        st["instances"] += 1
        for p in paths:
            terms, bad, done = [], None, False
            for tmpl, fields in p:
                if tmpl == "@arm" or done:
                    continue
                pieces = re.split(r"(\{\})", tmpl)
                fi = 0
                for piece in pieces:
                    if piece == "{}":
                        fld = fields[fi] if fi < len(fields) else "?"
                        fi += 1
                        lang = holes.get(fld)
                        if lang is None:
                            bad = "hole filled from `%s`" % fld
                            break
                        terms.append(e2.expand_spec(X.P, lang, set()))
                    elif piece:
                        terms.append(("lit", piece))
                if "?>" in tmpl:
                    done = True
                if bad:
                    break
            if not done and not bad:
                continue      # a path that never closes the declaration (none expected)
            st["paths"] += 1
            key = "XmlDocument::%s|%s" % (m, "".join(t for t, _ in p if t != "@arm").split("?>")[0] + "?>")
            if bad:
                res.oblige(1, False)
                res.add(Finding("R04-8", key, "%s: %s, for which no stored language is known" % (f["path"], bad), f["file"], f["line"], {}))
                continue
            printed = ("seq", terms)
            sets, atoms = {UNIVERSE}, set()
            A.collect_sets(printed, sets, atoms)
            A.collect_sets(target, sets, atoms)
            al = A.Alphabet(sets, atoms)
            b = A.Builder(al)
            w = b.dfa_of(printed).minus(b.dfa_of(target)).shortest()
            res.oblige(1, w is None)
            if w is not None:
                res.add(Finding("R04-8", key, "%s can print the declaration %r, which production XMLDecl does not derive (pseudo-attributes out "
                                "of order or malformed): the output is not well-formed" % (f["path"], al.render(w)), f["file"], f["line"], {}))
    if st["paths"] < 2:
        raise BrokenCheck("R04-8: %d declaration paths (floor 2)" % st["paths"])


def r04_9(facts, res):
    """A printer that writes the members of a collection field under a condition may only ask whether *that* collection is
    empty.  A narrower condition (`!self.entities().is_empty() || !self.notations().is_empty()` around a loop over
    `self.children`) drops the members the condition does not know about (processing instructions of the internal subset)."""
    import staleidx
    st = res.rule("R04-9", instances=0)
    for ty, m, f in printers(facts):
        seq = staleidx._walk_parents(f["body"])
        for i, (n, pi, slot) in enumerate(seq):
            if not (n.get("k") == "Match" and n.get("src") == "ForLoop"):
                continue
            over = [x["name"] for x in walk(n["scrut"]) if x.get("k") == "Field" and x["a"].get("k") == "Path" and x["a"].get("name") == "self"]
            if not over:
                continue
            fld = over[0]
            # enclosing conditions
            k, slot_k = pi, slot
            while k is not None:
                pn, ppi, pslot = seq[k]
                if pn.get("k") == "If" and slot_k in ("then", "else"):
                    cond = pn["cond"]
                    mentions_self = any(x.get("k") == "Path" and x.get("name") == "self" for x in walk(cond))
                    on_field = any(x.get("k") == "Field" and x.get("name") == fld and x["a"].get("name") == "self" for x in walk(cond))
                    other_calls = [x["m"] for x in walk(cond) if x.get("k") == "MethodCall" and x.get("recv", {}).get("k") == "Path"
                                   and x["recv"].get("name") == "self"]
                    if mentions_self:
                        st["instances"] += 1
                        ok = on_field and not other_calls
                        res.oblige(1, ok)
                        if not ok:
                            res.add(Finding("R04-9", "%s::%s|%s" % (ty, m, fld), "%s prints the members of `%s` under a condition on %s: members "
                                            "outside that condition are not printed" % (f["path"], fld, other_calls or "other state"),
                                            f["file"], pn.get("ln"), {}))
                slot_k = pslot
                k = ppi
    if st["instances"] < 2:
        raise BrokenCheck("R04-9: %d guarded member loops (floor 2)" % st["instances"])


RADIX_TEMPLATES = {10: "&#{};", 16: "&#x{};"}


def r04_10(facts, res):
    """A character reference is written `&#` digits `;` for radix 10 and `&#x` hex digits `;` for radix 16 (production [66]):
    the printers that hold (digits, radix) select the template by the *literal* radix."""
    st = res.rule("R04-10", instances=0)
    for path in ("xml_info::<XmlEntityValue as std::fmt::Display>::fmt", "xml_info::<XmlCharReference as std::fmt::Display>::fmt"):
        f = facts.fn(path)
        got = {}
        guards_ = []
        for n in walk(f["body"]):
            if n.get("k") == "Match" and n.get("src") == "Normal":
                for arm in n["arms"]:
                    pat = arm["pat"]
                    lit = pat["e"]["v"] if pat.get("p") == "Expr" and pat.get("e", {}).get("k") == "Lit" else None
                    tm = [split_args(x["snip"])[0] for x in walk(arm["body"]) if x.get("mac", "").startswith("write") and x.get("snip")]
                    tm = [t for t in tm if t and "&#" in t]
                    if lit in (10, 16) and tm:
                        got[lit] = tm[0]
                    elif tm and arm.get("guard") is not None:
                        guards_.append(tm[0])
                    elif tm and lit is None and pat.get("p") not in ("Expr",) and not any(a for a in walk(arm["body"]) if a.get("k") == "Match" and a.get("src") == "Normal"):
                        guards_.append(tm[0])
        st["instances"] += 1
        ok = got == RADIX_TEMPLATES and not guards_
        res.oblige(1, ok)
        if not ok:
            res.add(Finding("R04-10", path.split("<")[1].split(" ")[0], "%s selects the reference templates %s%s; expected %s by literal radix: a hexadecimal "
                            "reference printed without `x` is another (or no) character" % (path, got, (" and by guard " + str(guards_)) if guards_ else "", RADIX_TEMPLATES),
                            f["file"], f["line"], {}))


LEAF_ITEMS = ("XmlComment", "XmlCData", "XmlProcessingInstruction", "XmlCharReference", "XmlUnexpandedEntityReference", "XmlText")


def r04_11(facts, res):
    """For the leaf items the templates of the compact printer are checked against their productions (R04-2).  The pretty
    printer of a leaf item therefore has to write the item through Display (`write!(f, "{}", self)`, with indentation at most):
    a pretty printer that writes a field itself (`self.text` for a character reference) emits unescaped content."""
    st = res.rule("R04-11", instances=0)
    for ty in LEAF_ITEMS:
        f = facts.fn_opt("xml_info::<%s as IndentedDisplay>::indented" % ty)
        if f is None or "body" not in f:
            continue
        st["instances"] += 1
        bad, delegated = [], False
        seen = set()
        for n in walk(f["body"]):
            if n.get("k") in ("Call", "MethodCall") and str(n.get("mac", "")).startswith(("write", "writeln")) and n.get("snip") and n["snip"] not in seen:
                seen.add(n["snip"])
                tmpl, args = split_args(n["snip"])
                for a in args[1:] if args and args[0] == "f" else args:
                    if a == "self":
                        delegated = True
                    elif re.search(r"self\.\w+", a):
                        bad.append(a)
        ok = delegated and not bad
        res.oblige(1, ok)
        if not ok:
            res.add(Finding("R04-11", ty, "%s %s: the pretty-printed form of this item is not the checked compact form"
                            % (f["path"], ("writes %s itself" % bad) if bad else "does not write the item through Display"), f["file"], f["line"], {}))
    if st["instances"] < 3:
        raise BrokenCheck("R04-11: %d leaf pretty printers (floor 3)" % st["instances"])


def r04_12(facts, res, rule="R04-12"):
    """Inside the loop in which a printer writes the members of one of its collections, a property that the member has itself
    (prefix, local name, value ..) is read from the member, not from the container: `self.prefix` in the loop over `self.atts`
    prints the element's prefix in front of every declared attribute name."""
    st = res.rule(rule, instances=0)
    for ty, m, f in printers(facts):
        for n in walk(f["body"]):
            if not (n.get("k") == "Match" and n.get("src") == "ForLoop"):
                continue
            over = [x for x in walk(n["scrut"]) if x.get("k") == "Field" and x["a"].get("k") == "Path" and x["a"].get("name") == "self"]
            if not over:
                continue
            # the loop variable and the struct it refers to
            item_ty = None
            for q in walk(n["arms"]):
                if isinstance(q, dict) and q.get("p") == "Bind" and q.get("ty") and "iter" not in str(q.get("name")):
                    t = str(q["ty"]).replace("&", "").strip()
                    for pth, a in facts.adts.items():
                        if a.get("kind") == "struct" and a["crate"] == "xml_info" and (t == pth or t == pth.split("::")[-1]):
                            item_ty = a
                    if item_ty:
                        break
            if item_ty is None:
                continue
            item_fields = {fl["name"] for fl in item_ty["variants"][0]["fields"]}
            st["instances"] += 1
            wrong = sorted({x["name"] for body in [a["body"] for inner in walk(n["arms"]) if inner.get("k") == "Match" and inner.get("src") == "ForLoop"
                                                    for a in inner["arms"]]
                            for x in walk(body) if x.get("k") == "Field" and x["a"].get("k") == "Path" and x["a"].get("name") == "self"
                            and x["name"] in item_fields and x["name"] != over[0]["name"]})
            res.oblige(1, not wrong)
            if wrong:
                res.add(Finding(rule, "%s::%s|%s" % (ty, m, over[0]["name"]), "%s: in the loop over `self.%s` the printer reads `self.%s`, a property every "
                                "member (%s) has itself" % (f["path"], over[0]["name"], ", self.".join(wrong), item_ty["path"].split("::")[-1]),
                                f["file"], n.get("ln"), {}))
    if st["instances"] < 1:
        raise BrokenCheck("%s: no printer loop over a collection of structs found" % rule)


def r04_14(facts, res, rule="R04-14"):
    """A scratch string of a printer that is filled and read inside a loop belongs to one iteration: declared outside the loop
    and never emptied inside it, the text of the second item starts with the text of the first (`a CDATA "x" b CDATA "xy"`).
    Accepted: the declaration inside the loop, a reset (clear / truncate / mem::take / assignment) inside the loop, or a
    buffer that is only appended to in the loop and read after it."""
    import guards
    st = res.rule(rule, instances=0, printers=0)
    APPEND = {"push", "push_str", "extend", "insert_str", "write_str", "write_fmt", "write_char", "extend_from_slice"}
    RESET = {"clear", "truncate", "drain", "split_off"}
    for f in facts.fns.values():
        if f["crate"] != "xml_info" or "body" not in f or f.get("derived") or f.get("test"):
            continue
        if not (" as std::fmt::Display>::fmt" in f["path"] or "IndentedDisplay>::indented" in f["path"]):
            continue
        st["printers"] += 1
        bufs = {}
        for n in walk(f["body"]):
            if n.get("s") == "Let" and n.get("pat", {}).get("p") == "Bind" and "String" in str(n["pat"].get("ty", "")) and n["pat"].get("mut") and \
                    isinstance(n.get("init"), dict) and n["init"].get("k") == "Call" and \
                    str(n["init"]["f"].get("path", "")).endswith(("String::new", "String::with_capacity", "Default::default")):
                bufs[n["pat"]["lid"]] = n
        if not bufs:
            continue
        for lp in walk(f["body"]):
            if lp.get("k") != "Loop":
                continue
            inside = list(walk(lp))
            for lid, let in bufs.items():
                if any(m is let for m in inside):
                    continue
                app_recv, appended, reset = set(), False, False
                for m in inside:
                    if m.get("k") == "MethodCall" and guards._root_local(m.get("recv"))[1] == lid and m.get("recv", {}).get("k") != "MethodCall":
                        if m["m"] in APPEND:
                            appended = True
                            for x in walk(m["recv"]):
                                app_recv.add(id(x))
                        elif m["m"] in RESET:
                            reset = True
                            for x in walk(m["recv"]):
                                app_recv.add(id(x))
                    if m.get("k") in ("Assign", "AssignOp") and guards._root_local(m.get("l"))[1] == lid:
                        if m.get("k") == "Assign":
                            reset = True
                        else:
                            appended = True
                        for x in walk(m["l"]):
                            app_recv.add(id(x))
                    if m.get("k") == "Call" and str(m["f"].get("path", "")).endswith(("mem::take", "mem::replace")) and \
                            any(guards._root_local(a)[1] == lid for a in m.get("args", [])):
                        reset = True
                read = any(m.get("k") == "Path" and m.get("res") == "Local" and m.get("lid") == lid and id(m) not in app_recv for m in inside)
                if not appended:
                    continue
                st["instances"] += 1
                ok = reset or not read
                res.oblige(1, ok)
                if not ok:
                    res.add(Finding(rule, "%s|%s" % (f["path"].split("::", 1)[1], let["pat"].get("name")), "%s: the scratch string `%s` is declared outside "
                                    "the loop, appended to and printed inside it and never emptied: from the second item on the printed text "
                                    "starts with the text of the items before it" % (f["path"], let["pat"].get("name")), f["file"], let.get("ln") or f["line"], {}))
    res.oblige(1, True)
    if st["printers"] < 20:
        raise BrokenCheck("%s: %d printers scanned (floor 20)" % (rule, st["printers"]))


def r04_15(facts, res, rule="R04-15"):
    """[82] NotationDecl ::= '<!NOTATION' S Name S (ExternalID | PublicID) S? '>': a notation may have a public identifier and no
    system identifier.  The printer reaches the public identifier without requiring a system identifier (it is not nested in
    the branch that has just found one)."""
    st = res.rule(rule, instances=0)

    def mentions(x, field):
        return any(m.get("k") == "Field" and m.get("name") == field for m in walk(x))
    for f in facts.fns.values():
        if f["crate"] != "xml_info" or "body" not in f or f.get("impl_self") != "XmlNotation" or \
                not (" as std::fmt::Display>::fmt" in f["path"] or "IndentedDisplay>::indented" in f["path"]):
            continue
        if not mentions(f["body"], "public_identifier"):
            continue
        st["instances"] += 1
        under = set()
        for n in walk(f["body"]):
            scrut = n.get("cond") if n.get("k") == "If" else (n.get("scrut") if n.get("k") == "Match" else None)
            if scrut is not None and mentions(scrut, "system_identifier") and not mentions(scrut, "public_identifier"):
                branches = [n.get("then")] if n.get("k") == "If" else [a["body"] for a in n["arms"] if "Some" in str(a.get("pat"))]
                for b in branches:
                    for m in walk(b):
                        if m.get("k") == "Field" and m.get("name") == "public_identifier":
                            under.add(id(m))
        free = [m for m in walk(f["body"]) if m.get("k") == "Field" and m.get("name") == "public_identifier" and id(m) not in under]
        res.oblige(1, bool(free))
        if not free:
            res.add(Finding(rule, f["path"].split("::", 1)[1], "%s prints the public identifier only inside the branch that found a system identifier: "
                            "<!NOTATION n PUBLIC 'p'> (PublicID, production [83]) is printed as <!NOTATION n>, which the parser rejects"
                            % f["path"], f["file"], f["line"], {}))
    if st["instances"] < 1:
        raise BrokenCheck("%s: no printer of XmlNotation mentions public_identifier (floor 1)" % rule)


def r04_13(facts, res, rule="R04-13"):
    """The standalone document declaration is printed whenever the document has one, with the value it has: Some(false) is
    `standalone="no"`, not nothing (the re-parsed document has no declaration, which is a different [document] property)."""
    import enumflow
    st = res.rule(rule, instances=1)
    f = facts.fn("xml_info::<XmlDocument as std::fmt::Display>::fmt")
    # which of None / Some(true) / Some(false) reach a write that mentions `standalone`
    writes = [n for n in walk(f["body"]) if n.get("k") in ("Call", "MethodCall") and str(n.get("mac", "")).rstrip("!") in ("write", "writeln")
              and "standalone" in str(n.get("snip", ""))]
    lits = {str(m.get("v")) for m in walk(f["body"]) if m.get("k") == "Lit" and m.get("t") == "str"} | {str(n.get("snip", "")) for n in writes}
    has_yes = any("yes" in l for l in lits)
    has_no = any(re.search(r'(^|[^a-z])no($|[^a-z])', l) for l in lits)
    # the guard of the write must not pick one value: `self.standalone == Some(true)`, `if let Some(true) = ..`, `matches!(.., Some(true))`
    picks = []
    for n in walk(f["body"]):
        if n.get("k") == "Binary" and n.get("op") in ("==", "!=") and any(x.get("k") == "Field" and x.get("name") == "standalone" for x in walk(n)):
            if any(x.get("k") == "Lit" and x.get("t") == "bool" for x in walk(n)):
                picks.append("comparison with a constant")
        if (n.get("k") == "Let" or n.get("s") == "Let") and any(x.get("k") == "Field" and x.get("name") == "standalone" for x in walk(n.get("init", {}))):
            if any(q.get("p") == "Expr" and q["e"].get("t") == "bool" for q in walk(n.get("pat", {}))):
                picks.append("pattern with a constant")
    ok = bool(writes) and has_yes and has_no and not picks
    res.oblige(1, ok)
    if not ok:
        res.add(Finding(rule, "XmlDocument::fmt|standalone", "%s: the standalone declaration is not printed for both of its values (yes %s, no %s%s)"
                        % (f["path"], "found" if has_yes else "missing", "found" if has_no else "missing",
                           "; the test is a " + picks[0] if picks else ""), f["file"], f["line"], {}))


def run(facts, tier):
    res = Result("C04")
    res.explanation = (
        "static: R04-1 every Display / IndentedDisplay impl of an information item writes or delegates (an impl that prints "
        "nothing loses the item in a round trip); R04-2 for the text-like items the printer's templates, with each hole filled "
        "by the language the parser stores in that field, are included in the production that reads them back (automaton "
        "inclusion, one check per printing path), and escape() picks the quote that the value does not contain; R04-3 every "
        "field that is printed is compared by PartialEq (or is on the reasoned list); R04-4 hard-coded quotes in a printer "
        "surround only values whose production derives no quote (version, encoding, literals), everything else is quoted by "
        "escape(); R04-5 a printer skips a field only when it is absent (if-let patterns are Some(binding)).")
    res.assumptions = ["equality of the re-parsed document and the fixpoint of the printer are not computed",
                       "R04-2 covers comment, CDATA, PI, character / entity reference and text items; element and DTD items are covered by R04-1/R04-3 only"]
    # ---- R04-1
    st = res.rule("R04-1", instances=0)
    for ty in ITEM_TYPES:
        for tr, m in (("std::fmt::Display", "fmt"), ("IndentedDisplay", "indented")):
            f = facts.fn_opt("xml_info::<%s as %s>::%s" % (ty, tr, m))
            if f is None:
                continue
            st["instances"] += 1
            ok = writes_something(facts, f)
            res.oblige(1, ok)
            if not ok:
                res.add(Finding("R04-1", "%s|%s" % (ty, m), "%s writes nothing: an item of this kind disappears from the serialisation" % f["path"],
                                f["file"], f["line"], {}))
    if st["instances"] < 18:
        raise BrokenCheck("R04-1: %d printer impls (floor 18)" % st["instances"])
    r04_2(facts, res)
    quote_rule(facts, res)
    # ---- R04-0: what the printers emit is checked against the Recommendation's productions (R04-2, R04-4), so the parser has
    # to accept every string those productions derive: the `rejects` half of the grammar comparison of C01
    from props import c01
    tmp = Result("C04")
    c01.grammar_rules(facts, tmp, tier)
    st0 = res.rule("R04-0", instances=tmp.rules["R01-1"]["instances"])
    rej = [f for f in tmp.findings if ":rejects:" in f.key]
    res.oblige(st0["instances"] - len(rej), True)
    res.oblige(len(rej), False)
    for f in rej:
        res.add(Finding("R04-0", f.key, f.msg + " - a serialisation that uses this form is not read back", f.file, f.line, f.detail))
    r04_4(facts, res)
    r04_5(facts, res)
    structural_eq(facts, res, "R04-6")
    r04_7(facts, res)
    r04_8(facts, res)
    r04_9(facts, res)
    r04_10(facts, res)
    r04_11(facts, res)
    r04_12(facts, res)
    r04_13(facts, res)
    r04_14(facts, res)
    r04_15(facts, res)
    # ---- R04-3
    st3 = res.rule("R04-3", instances=0)
    for ty in ITEM_TYPES:
        d = facts.fn_opt("xml_info::<%s as std::fmt::Display>::fmt" % ty)
        eq = facts.fn_opt("xml_info::<%s as std::cmp::PartialEq>::eq" % ty)
        if d is None or eq is None or eq.get("derived") or "body" not in eq:
            continue
        printed = self_fields(d["body"])
        compared = directly_compared(eq["body"])
        for fld in sorted(printed):
            st3["instances"] += 1
            ok = fld in compared or (ty, fld) in EQ_REASONS
            res.oblige(1, ok)
            if not ok:
                res.add(Finding("R04-3", "%s.%s" % (ty, fld), "%s.%s is printed but not compared by PartialEq: two documents that print differently "
                                "compare equal" % (ty, fld), eq["file"], eq["line"], {}))
    if st3["instances"] < 12:
        raise BrokenCheck("R04-3: %d printed fields (floor 12)" % st3["instances"])
    res.functions_analysed = st["instances"]
    return res
