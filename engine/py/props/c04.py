"""C04 — serialisation round-trips (structural clauses)."""
import re

import automata as A
import e2
from charset import CS, UNIVERSE
from common import Finding, Result
from facts import BrokenCheck, walk

LEVEL = "other"

ITEM_TYPES = ["XmlAttribute", "XmlAttributeValue", "XmlCData", "XmlCharReference", "XmlComment", "XmlDeclarationAttList",
              "XmlDocument", "XmlDocumentTypeDeclaration", "XmlElement", "XmlEntity", "XmlEntityValue", "XmlItem",
              "XmlNamespace", "XmlNotation", "XmlProcessingInstruction", "XmlText", "XmlUnexpandedEntityReference",
              "XmlUnparsedEntity"]

# fields that are printed but need not be compared (reason)
EQ_REASONS = {
    ("XmlCharReference", "num"): "the referenced character (`text`, derived from num and radix) is compared instead",
    ("XmlCharReference", "radix"): "see num: &#65; and &#x41; denote the same character",
    ("XmlUnexpandedEntityReference", "name"): "the entity item (which holds the name) is compared",
    ("XmlUnparsedEntity", "name"): "derived PartialEq compares all fields",
    ("XmlNamespace", "prefix"): "derived PartialEq compares all fields",
    ("XmlNamespace", "namespace_name"): "derived PartialEq compares all fields",
}


def writes_something(facts, f):
    for bi, t in facts.mir_calls(f):
        c = t.get("callee")
        if not c:
            continue
        n = facts.callee_name(c)
        if n.endswith("Formatter::<'a>::write_fmt") or n.endswith("Formatter::<'a>::write_str") or n.endswith("io::Write::write_fmt") \
                or n.endswith("::fmt") or n.endswith("::indented") or n.endswith("::pretty"):
            return True
    return False


def self_fields(body):
    out = set()
    for m in walk(body):
        if m.get("k") == "Field" and m["a"].get("k") == "Path" and m["a"].get("name") == "self":
            out.add(m["name"])
    return out


# ------------------------------------------------------------------------------------------
# R04-2 printer templates inside productions

def split_args(snip):
    m = re.search(r'"((?:[^"\\]|\\.)*)"', snip)
    if not m:
        return None, []
    tmpl = m.group(1).replace('\\"', '"').replace("\\n", "\n")
    rest = snip[m.end():].rstrip(")").strip()
    args, depth, cur = [], 0, ""
    for ch in rest:
        if ch in "([{":
            depth += 1
        elif ch in ")]}":
            depth -= 1
        if ch == "," and depth == 0:
            if cur.strip():
                args.append(cur.strip())
            cur = ""
        else:
            cur += ch
    if cur.strip():
        args.append(cur.strip())
    return tmpl, args


def print_paths(e, binds):
    """All execution paths of a Display body as lists of (template, [arg field names])."""
    k = e.get("k")
    if k == "Block":
        paths = [[]]
        for s in e.get("stmts", []):
            x = s.get("e") or s.get("init")
            if s.get("s") == "Let":
                continue
            sub = print_paths(x, binds)
            paths = [p + q for p in paths for q in sub]
        if "expr" in e:
            sub = print_paths(e["expr"], binds)
            paths = [p + q for p in paths for q in sub]
        return paths
    if k == "Match" and e.get("src") == "Try":
        sc = e["scrut"]
        inner = sc["args"][0] if sc.get("k") == "Call" and sc["args"] else sc
        return print_paths(inner, binds)
    if k in ("Call", "MethodCall") and e.get("mac", "").startswith(("write", "writeln")) and e.get("snip"):
        tmpl, args = split_args(e["snip"])
        fields = []
        for a in args[1:] if args and args[0] in ("f",) else args:
            m = re.search(r"self\.(\w+)", a)
            if m:
                fields.append(m.group(1))
            elif re.match(r"^\w+$", a) and a in binds:
                fields.append(binds[a])
            else:
                fields.append("?" + a)
        return [[(tmpl + ("\n" if e["mac"].startswith("writeln") else ""), fields)]]
    if k in ("Call", "MethodCall") and e.get("mac", "").startswith(("unreachable", "panic", "unimplemented", "todo")):
        return []
    if k == "If":
        c = e["cond"]
        b2 = dict(binds)
        if c.get("k") == "Let":
            fld = [m["name"] for m in walk(c["init"]) if m.get("k") == "Field" and m["a"].get("name") == "self"]
            for p in walk(c["pat"]):
                if p.get("p") == "Bind" and fld:
                    b2[p["name"]] = fld[0]
        t = print_paths(e["then"], b2)
        f = print_paths(e["else"], binds) if "else" in e else [[]]
        return t + f
    if k == "Match":
        out = []
        for arm in e["arms"]:
            tag = None
            pat = arm["pat"]
            if pat.get("p") == "Expr" and pat["e"].get("k") == "Lit":
                tag = pat["e"]["v"]
            for p in print_paths(arm["body"], binds):
                out.append([("@arm", [tag])] + p if tag is not None else p)
        return out
    if k == "Call" and str(e["f"].get("path", "")).endswith("::Ok"):
        return [[]]
    return [[]]


def r04_2(facts, res):
    import xml10
    X = xml10
    digits = X.Plus(X.C(CS.of((0x30, 0x39))))
    hexd = X.Plus(X.C(CS.of((0x30, 0x39), (0x41, 0x46), (0x61, 0x66))))
    table = {
        # type: (production, {field: language}, arm-specific overrides)
        "XmlComment": ("Comment", {"comment": X.Star(X.Alt(X.NotIn("-"), X.Seq(X.L("-"), X.NotIn("-"))))}),
        "XmlCData": ("CDSect", {"data": X.Minus(X.ANY, X.Containing("]]>"))}),
        "XmlProcessingInstruction": ("PI", {"target": X.NT("PITarget"), "content": X.Minus(X.ANY, X.Containing("?>"))}),
        "XmlCharReference": ("CharRef", {"num": {10: digits, 16: hexd}}),
        "XmlUnexpandedEntityReference": ("EntityRef", {"name": X.NT("Name")}),
        "XmlText": ("CharData", {"text": X.NT("CharData")}),
    }
    st = res.rule("R04-2", instances=0, paths=0)
    for ty, (prod, holes) in table.items():
        f = facts.fn("xml_info::<%s as std::fmt::Display>::fmt" % ty)
        paths = print_paths(f["body"], {})
        paths = [p for p in paths if p]
        if not paths:
            raise BrokenCheck("R04-2: no printing path recognised in %s" % f["path"])
        st["instances"] += 1
        target = e2.expand_spec(X.P, X.P[prod], set())
        for p in paths:
            st["paths"] += 1
            arm = None
            terms = []
            bad = None
            for tmpl, fields in p:
                if tmpl == "@arm":
                    arm = fields[0]
                    continue
                pieces = re.split(r"(\{\})", tmpl)
                fi = 0
                for piece in pieces:
                    if piece == "{}":
                        fld = fields[fi] if fi < len(fields) else "?"
                        fi += 1
                        lang = holes.get(fld)
                        if isinstance(lang, dict):
                            lang = lang.get(arm)
                        if lang is None:
                            bad = "hole filled from `%s`, for which no stored language is known" % fld
                            break
                        terms.append(e2.expand_spec(X.P, lang, set()))
                    elif piece:
                        terms.append(("lit", piece))
                if bad:
                    break
            key = "%s|%s" % (ty, "".join(t for t, _ in p if t != "@arm"))
            if bad:
                res.oblige(1, False)
                res.add(Finding("R04-2", key, "%s: %s" % (f["path"], bad), f["file"], f["line"], {}))
                continue
            printed = ("seq", terms)
            sets, atoms = {UNIVERSE}, set()
            A.collect_sets(printed, sets, atoms)
            A.collect_sets(target, sets, atoms)
            al = A.Alphabet(sets, atoms)
            b = A.Builder(al)
            w = b.dfa_of(printed).minus(b.dfa_of(target)).shortest()
            res.oblige(1, w is None)
            res.sample({"rule": "R04-2", "item": ty, "template": key.split("|", 1)[1], "production": prod,
                        "verdict": "inside" if w is None else "prints " + al.render(w)}, limit=12)
            if w is not None:
                res.add(Finding("R04-2", key, "%s can print %r, which production %s does not derive: the serialisation is not re-parsed as the same item"
                                % (f["path"], al.render(w), prod), f["file"], f["line"], {"witness": al.render(w)}))
    if st["paths"] < 8:
        raise BrokenCheck("R04-2: %d printing paths (floor 8)" % st["paths"])


def quote_rule(facts, res):
    """escape(): a value containing '"' is written in single quotes, any other value in double quotes."""
    st = res.rule("R04-2q", instances=1)
    f = facts.fn("xml_info::escape")
    tm = []
    cond_lit = None
    for n in walk(f["body"]):
        if n.get("k") == "If":
            for m in walk(n["cond"]):
                if m.get("k") == "MethodCall" and m["m"] == "contains" and m["args"] and m["args"][0].get("k") == "Lit":
                    cond_lit = m["args"][0]["v"]
            for branch in ("then", "else"):
                for m in walk(n[branch]):
                    if m.get("k") in ("Call", "MethodCall") and m.get("mac", "").startswith("format") and m.get("snip"):
                        t, _ = split_args(m["snip"])
                        tm.append((branch, t))
    tm = list(dict.fromkeys(tm))
    ok = cond_lit in ('"', 34) and ("then", "'{}'") in tm and ("else", '"{}"') in tm
    res.oblige(1, ok)
    if not ok:
        res.add(Finding("R04-2q", "escape", "escape(): expected `if value.contains('\"') { '{}' } else { \"{}\" }`, found condition on %r and templates %s"
                        % (cond_lit, tm), f["file"], f["line"], {}))


def run(facts, tier):
    res = Result("C04")
    res.explanation = (
        "static: R04-1 every Display / IndentedDisplay impl of an information item writes or delegates (an impl that prints "
        "nothing loses the item in a round trip); R04-2 for the text-like items the printer's templates, with each hole filled "
        "by the language the parser stores in that field, are included in the production that reads them back (automaton "
        "inclusion, one check per printing path), and escape() picks the quote that the value does not contain; R04-3 every "
        "field that is printed is compared by PartialEq (or is on the reasoned list).")
    res.assumptions = ["equality of the re-parsed document and the fixpoint of the printer are not computed",
                       "R04-2 covers comment, CDATA, PI, character / entity reference and text items; element and DTD items are covered by R04-1/R04-3 only"]
    # ---- R04-1
    st = res.rule("R04-1", instances=0)
    for ty in ITEM_TYPES:
        for tr, m in (("std::fmt::Display", "fmt"), ("IndentedDisplay", "indented")):
            f = facts.fn_opt("xml_info::<%s as %s>::%s" % (ty, tr, m))
            if f is None:
                continue
            st["instances"] += 1
            ok = writes_something(facts, f)
            res.oblige(1, ok)
            if not ok:
                res.add(Finding("R04-1", "%s|%s" % (ty, m), "%s writes nothing: an item of this kind disappears from the serialisation" % f["path"],
                                f["file"], f["line"], {}))
    if st["instances"] < 30:
        raise BrokenCheck("R04-1: %d printer impls (floor 30)" % st["instances"])
    r04_2(facts, res)
    quote_rule(facts, res)
    # ---- R04-3
    st3 = res.rule("R04-3", instances=0)
    for ty in ITEM_TYPES:
        d = facts.fn_opt("xml_info::<%s as std::fmt::Display>::fmt" % ty)
        eq = facts.fn_opt("xml_info::<%s as std::cmp::PartialEq>::eq" % ty)
        if d is None or eq is None or eq.get("derived") or "body" not in eq:
            continue
        printed = self_fields(d["body"])
        compared = self_fields(eq["body"])
        for fld in sorted(printed):
            st3["instances"] += 1
            ok = fld in compared or (ty, fld) in EQ_REASONS
            res.oblige(1, ok)
            if not ok:
                res.add(Finding("R04-3", "%s.%s" % (ty, fld), "%s.%s is printed but not compared by PartialEq: two documents that print differently "
                                "compare equal" % (ty, fld), eq["file"], eq["line"], {}))
    if st3["instances"] < 20:
        raise BrokenCheck("R04-3: %d printed fields (floor 20)" % st3["instances"])
    res.functions_analysed = st["instances"]
    return res
