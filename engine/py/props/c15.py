"""C15 — successful edits keep the document serialisable: every store into a content field is validated
as stored."""
import re

import automata as A
import e2
from charset import UNIVERSE
from common import Finding, Result
from facts import BrokenCheck, walk

LEVEL = "other"

CONTENT_FIELDS = {
    "XmlCData": ["data"], "XmlComment": ["comment"], "XmlText": ["text"],
    "XmlProcessingInstruction": ["target", "content"],
    "XmlElement": ["local_name", "prefix"], "XmlAttribute": ["local_name", "prefix"],
}
CONSTRUCTORS = ("node", "new", "empty", "new_from_declaration", "from", "clone")


def root_local(e):
    """The local variable an expression is a view of (through field access, borrows, as_str, clone ...)."""
    k = e.get("k")
    if k == "Path" and e.get("res") == "Local":
        return e["lid"]
    if k in ("AddrOf", "Unary"):
        return root_local(e["a"])
    if k == "Field":
        return root_local(e["a"])
    if k == "MethodCall" and e["m"] in ("as_str", "clone", "to_string", "as_deref", "as_ref", "to_owned", "map", "borrow", "deref"):
        return root_local(e["recv"])
    if k == "Block" and "expr" in e and not e.get("stmts"):
        return root_local(e["expr"])
    return None


def strip_try(e):
    """`x?` -> x ; returns (inner, was_try)."""
    if e.get("k") == "Match" and e.get("src") == "Try":
        s = e["scrut"]
        if s.get("k") == "Call" and s["args"]:
            return s["args"][0], True
    return e, False


def lets(body):
    for n in walk(body):
        if n.get("s") == "Let":
            yield n


def parser_bound_locals(fn):
    """lid -> parser path, for locals bound by `let (rest, tree) = xml_parser::X(..)?` ; also rest lids."""
    trees, rests = {}, {}
    for l in lets(fn["body"]):
        if "init" not in l:
            continue
        init, tried = strip_try(l["init"])
        if init.get("k") == "Call" and str(init["f"].get("path", "")).startswith("xml_parser::") and tried:
            pat = l["pat"]
            if pat.get("p") == "Tuple" and len(pat["pats"]) == 2:
                r, t = pat["pats"]
                if r.get("p") == "Bind":
                    rests[r["lid"]] = init["f"]["path"]
                if t.get("p") == "Bind":
                    trees[t["lid"]] = init["f"]["path"]
    return trees, rests


def is_rest_empty_test(cond, rests):
    for n in walk(cond):
        if n.get("k") == "MethodCall" and n["m"] == "is_empty" and root_local(n["recv"]) in rests:
            return True
    return False


def under_rest_test(fn, target, rests):
    """Is node `target` only evaluated when the rest is empty?  (branch of an `if` that implies it, or behind a guard clause;
    restlogic.py)"""
    import restlogic
    base = lambda c: c.get("k") == "MethodCall" and c["m"] == "is_empty" and root_local(c["recv"]) in rests
    return restlogic.guarded(fn["body"], target, base) is not None


def check_fn_ok(facts, f):
    """A checker `fn check(value) -> Result<bool>`: calls an xml_parser function on (a wrapper of) value and its
    result requires rest.is_empty()."""
    trees, rests = parser_bound_locals(f)
    if not rests:
        # the checker may hand the parser to a private helper: `parses_whole(new.as_str(), xml_parser::cdsect)` with
        # `fn parses_whole(xml, parse) { let (rest, _) = parse(xml)?; Ok(rest.is_empty()) }`
        for n in walk(f["body"]):
            if n.get("k") == "Call" and n["f"].get("k") == "Path":
                g = facts.fns.get(n["f"].get("rid") or n["f"].get("id"))
                parsers = [str(a.get("path", "")) for a in n.get("args", []) if a.get("k") == "Path" and str(a.get("path", "")).startswith("xml_parser::")]
                if g is None or "body" not in g or len(parsers) != 1 or g["crate"] != "xml_info":
                    continue
                pi = [i for i, a in enumerate(n["args"]) if a.get("k") == "Path" and str(a.get("path", "")).startswith("xml_parser::")][0]
                params = g.get("params") or []
                if pi >= len(params) or params[pi].get("p") != "Bind":
                    continue
                plid = params[pi]["lid"]
                grest = {}
                for l in lets(g["body"]):
                    if "init" not in l:
                        continue
                    init, tried = strip_try(l["init"])
                    if tried and init.get("k") == "Call" and init["f"].get("k") == "Path" and init["f"].get("lid") == plid and \
                            l["pat"].get("p") == "Tuple" and len(l["pat"]["pats"]) == 2 and l["pat"]["pats"][0].get("p") == "Bind":
                        grest[l["pat"]["pats"][0]["lid"]] = parsers[0]
                # the helper's answer is Ok(rest.is_empty()) and the checker returns the helper's answer unchanged
                tail = f["body"]
                while tail.get("k") == "Block" and "expr" in tail:
                    tail = tail["expr"]
                if grest and tail is n:
                    for m in walk(g["body"]):
                        if m.get("k") == "Call" and str(m["f"].get("path", "")).endswith("::Ok") and m["args"] and is_rest_empty_test(m["args"][0], grest):
                            if parsers[0] == "xml_parser::content":
                                return False, "text handed to a generic helper: the `children.is_empty()` requirement cannot be seen"
                            return True, parsers[0]
        return False, "no `let (rest, _) = xml_parser::..(..)?`"
    # the value returned is Ok(<expr containing rest.is_empty()>)
    for n in walk(f["body"]):
        if n.get("k") == "Call" and str(n["f"].get("path", "")).endswith("::Ok") and n["args"]:
            if is_rest_empty_test(n["args"][0], rests):
                # a checker that parses with a production larger than the stored language has to cut it down: text is checked
                # with `content` (CharData? ((element | Reference | CDSect | PI | Comment) CharData?)*), so the parsed content
                # must have no child cell at all - excluding some kinds only lets <!--c-->, <?p?> or <![CDATA[..]]> through
                if "xml_parser::content" in set(rests.values()):
                    none_at_all = any(m.get("k") == "MethodCall" and m["m"] == "is_empty" and
                                      any(x.get("k") == "Field" and x.get("name") == "children" for x in walk(m.get("recv", {})))
                                      for m in walk(n["args"][0]))
                    if not none_at_all:
                        return False, "text is parsed as `content` but the result is not required to have no children (children.is_empty()): " \
                                      "markup such as a comment, PI or CDATA section inside the new text is stored as text"
                return True, sorted(set(rests.values()))[0]
    return False, "result does not depend on rest.is_empty()"


def producer_validates_result(facts, p):
    """Rule V: in producer `p` the string returned in Ok(..) is the one handed to the `check` parameter."""
    params = p.get("params") or []
    check_lids = {q["lid"] for q in params if q.get("p") == "Bind" and q.get("name") == "check"}
    if not check_lids:
        return False, "no `check` parameter"
    checked = set()
    for n in walk(p["body"]):
        if n.get("k") == "Call" and n["f"].get("k") == "Path" and n["f"].get("res") == "Local" and n["f"]["lid"] in check_lids:
            checked.add(root_local(n["args"][0]))
    if not checked:
        return False, "`check` is never called"
    oks = []
    for n in walk(p["body"]):
        if n.get("k") == "Call" and str(n["f"].get("path", "")).endswith("::Ok") and n["args"]:
            oks.append(root_local(n["args"][0]))
    if not oks:
        return False, "no Ok(..) found"
    bad = [o for o in oks if o is None or o not in checked]
    if bad:
        return False, "Ok(..) returns a value that was not the argument of `check`"
    return True, "Ok(x) with check(x)"


def templates_of(fn_body, macs=("write", "writeln", "format")):
    out = []
    for n in walk(fn_body):
        if n.get("k") in ("Call", "MethodCall") and n.get("mac", "").rstrip("!") in macs and n.get("snip"):
            m = re.search(r'"((?:[^"\\]|\\.)*)"', n["snip"])
            if m and n["snip"] not in [x[1] for x in out]:
                out.append((m.group(1).replace('\\"', '"').replace("\\n", "\n"), n["snip"], n.get("ln")))
    out.sort(key=lambda x: x[2] or 0)
    return out


def printer_templates(facts, fn, depth=0, seen=None):
    """The write!/writeln! templates of a Display implementation in evaluation order, with the templates of the helpers of
    this workspace that are handed the formatter spliced in where they are called (`self.fmt_tag_name(f)?`)."""
    import guards
    seen = seen if seen is not None else set()
    out = []
    for n, _ in guards.ordered(fn["body"]):
        if n.get("k") not in ("Call", "MethodCall"):
            continue
        if n.get("mac", "").rstrip("!") in ("write", "writeln") and n.get("snip"):
            m = re.search(r'"((?:[^"\\]|\\.)*)"', n["snip"])
            if m and n["snip"] not in [x[1] for x in out]:
                out.append((m.group(1).replace('\\"', '"').replace("\\n", "\n"), n["snip"], n.get("ln")))
            continue
        if n.get("mac"):
            continue
        t = n if n.get("k") == "MethodCall" else n.get("f", {})
        g = facts.fns.get(t.get("rid") or t.get("id"))
        if g is not None and "body" in g and g["id"] not in seen and depth < 3 and g["id"] != fn["id"] \
                and "Formatter" in str(g.get("sig", "")) and "as std::fmt::" not in g["path"]:
            seen.add(g["id"])
            for x in printer_templates(facts, g, depth + 1, seen):
                if x[1] not in [y[1] for y in out]:
                    out.append(x)
    return out


def returns_factors_of_param(g, pi):
    """Every character sequence g builds comes from `param.chars().collect()` cut with split_off only: each String in its
    result is a factor (contiguous piece) of the parameter."""
    params = g.get("params") or []
    if pi >= len(params) or params[pi].get("p") != "Bind":
        return False
    plid = params[pi]["lid"]
    vecs = set()
    for l in lets(g["body"]):
        if l["pat"].get("p") == "Bind" and "init" in l:
            init = l["init"]
            # chars <- param.chars().collect()
            if init.get("k") == "MethodCall" and init["m"] == "collect" and any(x.get("k") == "MethodCall" and x["m"] == "chars" and
                                                                               root_local(x["recv"]) == plid for x in walk(init)):
                vecs.add(l["pat"]["lid"])
    changed = True
    while changed:
        changed = False
        for l in lets(g["body"]):
            if l["pat"].get("p") == "Bind" and "init" in l and l["pat"]["lid"] not in vecs:
                init = l["init"]
                if init.get("k") == "MethodCall" and init["m"] == "split_off" and root_local(init["recv"]) in vecs:
                    vecs.add(l["pat"]["lid"])
                    changed = True
    if not vecs:
        return False
    for c in walk(g["body"]):
        if c.get("k") == "MethodCall" and root_local(c["recv"]) in vecs and c["recv"].get("k") != "MethodCall" \
                and c["m"] not in ("split_off", "iter", "len", "collect"):
            return False
    # every String produced is collect() over one of these vectors; no other string construction
    for c in walk(g["body"]):
        if c.get("k") == "MethodCall" and c["m"] == "collect" and "String" in str(c.get("ty", "")):
            src = c["recv"]
            if not (src.get("k") == "MethodCall" and src["m"] == "iter" and root_local(src["recv"]) in vecs):
                return False
        if c.get("k") in ("Call", "MethodCall") and "String" in str(c.get("ty", "")) and c.get("m", "") in ("to_string", "to_owned", "repeat", "replace", "join") :
            return False
        if c.get("mac", "").startswith("format"):
            return False
    return True


def subset_concat(target, parts):
    """Is `target` (a format template) an instance of the concatenation of a subsequence of the printer's
    templates?  A hole `{}` of the printer may be filled with any text of the target (for example a quoted
    empty value); a hole of the target must meet a hole of the printer."""
    import itertools
    parts = [p for p in parts if p][:12]
    tgt = target.replace("{}", "\x00")
    for n in range(1, len(parts) + 1):
        for combo in itertools.combinations(range(len(parts)), n):
            pat = "".join(parts[i] for i in combo)
            rx = "".join("(?:[^\x00]*|\x00)" if piece == "{}" else re.escape(piece)
                         for piece in re.split(r"(\{\})", pat) if piece)
            if re.fullmatch(rx, tgt, re.S):
                return True
    return False


def factor_closed(term):
    sets, atoms = {UNIVERSE}, set()
    A.collect_sets(term, sets, atoms)
    al = A.Alphabet(sets, atoms)
    b = A.Builder(al)
    d = b.dfa_of(term)
    live = d.live_states()
    # factor language: start anywhere live, stop anywhere live
    return all(st in d.acc for st in live) and _suffix_closed(d, live)


def _suffix_closed(d, live):
    # L suffix-closed iff for every live state q: L(q) subset of L(start); check by product exploration
    seen = set()
    work = [(q, d.start) for q in live]
    while work:
        a, b = work.pop()
        if (a, b) in seen:
            continue
        seen.add((a, b))
        if a in d.acc and b not in d.acc:
            return False
        for s in range(d.nsym):
            work.append((d.delta[a][s], d.delta[b][s]))
    return True


def r15_3(facts, res, rule="R15-3"):
    """The element, attribute and PI factories embed the supplied name in a tag (`<{} />`, `{}=''`, `<?{}?>`) and parse that:
    an empty rest only says that the *tag* was well-formed.  The name itself has to take part in the acceptance test,
    otherwise `a b='c'` is an element name (and builds an attribute), `a ` an attribute name, `a b` a PI target."""
    st = res.rule(rule, instances=0)
    for path, param in (("xml_info::XmlElement::empty", "name"), ("xml_info::XmlAttribute::empty", "name"),
                        ("xml_info::XmlProcessingInstruction::empty", "target")):
        f = facts.fn(path)
        st["instances"] += 1
        plid = [q.get("lid") for q in f.get("params", []) if isinstance(q, dict) and q.get("name") == param]
        ok = False
        for n in walk(f["body"]):
            if n.get("k") == "If" and any(m.get("k") == "MethodCall" and m["m"] == "is_empty" for m in walk(n["cond"])):
                if any(m.get("k") == "Path" and m.get("res") == "Local" and m.get("lid") in plid for m in walk(n["cond"])):
                    ok = True
        res.oblige(1, ok)
        if not ok:
            res.add(Finding(rule, path.split("::")[-2] + "::empty", "%s accepts its argument when the tag built around it parses with an empty rest; "
                            "the argument itself is not examined, so white space lets it carry more than a name" % path, f["file"], f["line"], {}))


def r15_4(facts, res, rule="R15-4"):
    """[22] prolog: the document type declaration precedes the root element.  XmlDocument::insert_by_id refuses a document
    type whenever the document already has one *or already has a root element*; a weaker test (only when appending) lets
    insert_before(doctype, Some(node after the root)) build a document that prints as `<r/><!DOCTYPE r>`."""
    st = res.rule(rule, instances=1)
    f = facts.fn("xml_info::<XmlDocument as HasChildren>::insert_by_id")
    ok = False
    why = "no refusal found in the DocumentType arm"
    from props.c08 import variants_of_pat
    for n in walk(f["body"]):
        if n.get("k") == "Match" and n.get("src") == "Normal":
            for arm in n["arms"]:
                if "DocumentType" in variants_of_pat(arm["pat"]):
                    # the refusal: an `if` inside the arm, or the guard of an arm that answers Err
                    conds = [i["cond"] for i in walk(arm["body"]) if i.get("k") == "If"]
                    if "guard" in arm and variants_of_pat(arm["pat"]) == ["DocumentType"] and \
                            any(m.get("k") == "Call" and str(m["f"].get("path", "")).endswith("::Err") for m in walk(arm["body"])):
                        conds.append(arm["guard"])
                    # the condition is evaluated as a truth table over D = "a document type is present" and E = "a root element
                    # is present": the refusal must be D || E (the acceptance !D && !E), in whatever spelling
                    for cond in conds:
                        t = _truth(cond)
                        if t is not None:
                            ok = all(t[(d, e_)] == (d or e_) for d in (False, True) for e_ in (False, True))
                            why = "the refusal is not `doctype present || root element present` (it is true for %s)" % \
                                  sorted(k for k, v in t.items() if v)
                    body = arm["body"]
                    if not conds and str(n.get("ty")) == "bool":
                        t = _truth(body)
                        if t is not None:
                            # `let accepted = match ..; if !accepted { Err }` or `let rejected = match ..; if rejected { Err }`
                            # (or the Err in the else branch): the flag value that leads to Err must be exactly D || E
                            refuse_when = None
                            for l in walk(f["body"]):
                                if l.get("s") == "Let" and l.get("init") is n and l["pat"].get("p") == "Bind":
                                    lid = l["pat"]["lid"]
                                    for i in walk(f["body"]):
                                        if i.get("k") != "If":
                                            continue
                                        c, neg = i["cond"], False
                                        while isinstance(c, dict) and c.get("k") in ("Unary", "DropTemps"):
                                            if c.get("k") == "Unary" and c.get("op") == "!":
                                                neg = not neg
                                            c = c.get("a") or c.get("e")
                                        if not (isinstance(c, dict) and c.get("k") == "Path" and c.get("lid") == lid):
                                            continue
                                        err_then = any(m.get("k") == "Call" and str(m["f"].get("path", "")).endswith("::Err") for m in walk(i["then"]))
                                        err_else = any(m.get("k") == "Call" and str(m["f"].get("path", "")).endswith("::Err") for m in walk(i.get("else") or {}))
                                        if err_then != err_else:
                                            refuse_when = (not neg) if err_then else neg
                            used = refuse_when is not None
                            ok = used and all(t[(d, e_)] == ((d or e_) if refuse_when else (not d and not e_)) for d in (False, True) for e_ in (False, True))
                            why = "the acceptance test is not `no doctype && no root element`, or its negative does not lead to Err"
    res.oblige(1, ok)
    if not ok:
        res.add(Finding(rule, "XmlDocument::insert_by_id|DocumentType", "XmlDocument::insert_by_id: %s - a document type can be placed behind the root "
                        "element and the serialisation is not a document" % why, f["file"], f["line"], {}))


def _truth(e):
    """truth table {(D, E): value} of a boolean expression over document_declaration().is_some()/is_none() and
    document_element().is_ok()/is_err(), or None when it contains anything else"""
    def ev(x, d, e_):
        k = x.get("k")
        if k == "Block" and not x.get("stmts") and "expr" in x:
            return ev(x["expr"], d, e_)
        if k == "Unary" and x.get("op") == "!":
            v = ev(x["a"], d, e_)
            return None if v is None else (not v)
        if k == "Binary" and x.get("op") in ("&&", "||"):
            a, b = ev(x["a"], d, e_), ev(x["b"], d, e_)
            if a is None or b is None:
                return None
            return (a and b) if x["op"] == "&&" else (a or b)
        if k == "MethodCall" and x.get("m") in ("is_some", "is_none", "is_ok", "is_err") and not x.get("args"):
            r = x["recv"]
            if r.get("k") == "MethodCall" and r.get("m") == "document_declaration":
                return d if x["m"] in ("is_some", "is_ok") else (not d)
            if r.get("k") == "MethodCall" and r.get("m") == "document_element":
                return e_ if x["m"] in ("is_some", "is_ok") else (not e_)
        return None
    out = {}
    for d in (False, True):
        for e_ in (False, True):
            v = ev(e, d, e_)
            if v is None:
                return None
            out[(d, e_)] = v
    return out


def r15_5(facts, res, rule="R15-5"):
    """The DOM factories for character data build an empty item and fill it through the checked `insert` (which refuses
    `]]>`, `--`, illegal characters).  The parser-side constructors `Xml*::node(text, ..)` store their text verbatim and are
    for text that came out of the parser."""
    st = res.rule(rule, instances=0)
    for f in sorted(facts.fns.values(), key=lambda x: x["path"]):
        if f["crate"] != "xml_dom" or "body" not in f or not re.search(r"as DocumentMut>::create_(text_node|comment|cdata_section)$", f["path"]):
            continue
        st["instances"] += 1
        raw = [str(n["f"].get("path")) for n in walk(f["body"]) if n.get("k") == "Call" and re.search(r"^xml_info::Xml\w+::node$", str(n["f"].get("path", "")))]
        checked = any(n.get("k") == "MethodCall" and n["m"] in ("insert", "set_data", "append") for n in walk(f["body"]))
        ok = not raw and checked
        res.oblige(1, ok)
        if not ok:
            res.add(Finding(rule, f["path"].split("::")[-1], "%s %s: data supplied through the factory is stored without the validity check"
                            % (f["path"], ("calls the unchecked constructor %s" % raw) if raw else "does not go through the checked insert"), f["file"], f["line"], {}))
    if st["instances"] < 2:
        raise BrokenCheck("%s: %d character-data factories (floor 2)" % (rule, st["instances"]))


def r15_6(facts, res, rule="R15-6"):
    """Only text, character references and entity references can be pieces of an attribute value (XmlAttributeValue is built
    from exactly those kinds, each as its own variant): a CDATA section accepted as a piece prints `<![CDATA[` inside the
    attribute.  The machine-checked precondition `attr_value_kinds` of the panic reasons, used as a rule of its own."""
    import reasons_e1
    st = res.rule(rule, instances=1)
    ok, why = reasons_e1.pre_attr_value_kinds(facts, set())
    res.oblige(1, ok)
    if not ok:
        f = facts.fn("xml_info::<XmlAttributeValue as std::convert::TryFrom<std::rc::Rc<XmlItem>>>::try_from")
        res.add(Finding(rule, "XmlAttributeValue|kinds", "pieces of attribute values: %s" % why, f["file"], f["line"], {}))


def run(facts, tier):
    import xml10
    res = Result("C15")
    res.explanation = (
        "static: R15-1 every assignment to a content field (data, comment, text, target, content, local_name, prefix) of an "
        "information item outside constructors is classified on the typed tree: (a) the value comes out of the tree returned "
        "by an xml_parser call of the same function under `if rest.is_empty()`; (b) it is the result of a producer for which "
        "rule V holds (the string returned in Ok(..) is the very string handed to the `check` parameter) and the checker "
        "passed re-parses it and requires an empty rest; (c) it is a factor of the old value and the field's language is "
        "factor-closed (decided on the automaton of the production); anything else is reported. R15-2 the wrapper in which "
        "a value is validated (format! template) is the template the printer uses (Display impl).")
    res.assumptions = ["adjacency effects between sibling nodes are not decided",
                       "the parser accepts exactly what rule R01-1 says it accepts"]
    st = res.rule("R15-1", instances=0, by_class={})
    st2 = res.rule("R15-2", instances=0)
    field_lang = {("XmlText", "text"): xml10.P["CharData"],
                  ("XmlCData", "data"): ("minus", xml10.ANY, xml10.Containing("]]>"))}
    for f in facts.fns.values():
        if f["crate"] != "xml_info" or "body" not in f or f.get("derived"):
            continue
        ty = f.get("impl_self")
        if ty not in CONTENT_FIELDS or f["path"].split("::")[-1] in CONSTRUCTORS:
            continue
        trees, rests = parser_bound_locals(f)
        for n in walk(f["body"]):
            if n.get("k") != "Assign" or n["l"].get("k") != "Field" or n["l"]["name"] not in CONTENT_FIELDS[ty]:
                continue
            st["instances"] += 1
            field = n["l"]["name"]
            key = "%s.%s<-%s" % (ty, field, f["path"].split("::")[-1])
            rhs, tried = strip_try(n["r"])
            cls, why = None, ""
            rl = root_local(rhs)
            if rl in trees and under_rest_test(f, n, rests):
                cls = "a:from-parser(%s)" % trees[rl].split("::")[-1]
            elif rhs.get("k") == "Call" and rhs["f"].get("k") == "Path" and (rhs["f"].get("rid") or rhs["f"].get("id")) in facts.fns:
                p = facts.fns[rhs["f"].get("rid") or rhs["f"]["id"]]
                okv, whyv = producer_validates_result(facts, p)
                chk = None
                for a in rhs["args"]:
                    if a.get("k") == "Path" and (a.get("rid") or a.get("id")) in facts.fns:
                        chk = facts.fns[a.get("rid") or a["id"]]
                if not okv:
                    why = "producer %s: %s" % (p["path"], whyv)
                elif chk is None:
                    why = "no checker function passed to %s" % p["path"]
                else:
                    okc, whyc = check_fn_ok(facts, chk)
                    if okc:
                        cls = "b:validated-producer(%s, %s via %s)" % (p["path"].split("::")[-1], chk["path"].split("::")[-1], whyc.split("::")[-1])
                        # R15-2 for this checker
                        tmpl = templates_of(chk["body"], macs=("format",))
                        disp = facts.fn_opt("xml_info::<%s as std::fmt::Display>::fmt" % ty)
                        if tmpl and disp:
                            st2["instances"] += 1
                            parts = [t[0] for t in printer_templates(facts, disp)]
                            ok2 = subset_concat(tmpl[0][0], parts)
                            res.oblige(1, ok2)
                            if not ok2:
                                res.add(Finding("R15-2", key, "%s validates the value inside %r but the printer writes %r"
                                                % (chk["path"], tmpl[0][0], parts), chk["file"], tmpl[0][2], {}))
                    else:
                        why = "checker %s: %s" % (chk["path"], whyc)
            elif rhs.get("k") == "MethodCall" and rhs["m"] == "collect" and (ty, field) in field_lang:
                # factor of the previous value?  chars <- self.<field>.chars().collect(), only split_off applied
                src = root_local(rhs["recv"]) if rhs["recv"].get("k") != "MethodCall" else root_local(rhs["recv"]["recv"])
                origin_ok = False
                only_split = True
                for l in lets(f["body"]):
                    if l["pat"].get("p") == "Bind" and l["pat"]["lid"] == src and "init" in l:
                        for c in walk(l["init"]):
                            if c.get("k") == "Field" and c["name"] == field:
                                origin_ok = True
                for c in walk(f["body"]):
                    if c.get("k") == "MethodCall" and root_local(c["recv"]) == src and c["m"] not in ("split_off", "iter", "len", "collect"):
                        only_split = False
                if origin_ok and only_split and factor_closed(e2.expand_spec(xml10.P, field_lang[(ty, field)], set())):
                    cls = "c:factor-of-old-value(language factor-closed)"
                else:
                    why = "collect() of something that is not a pure factor of the old value"
            if cls is None and rhs.get("k") == "Path" and rhs.get("res") == "Local" and (ty, field) in field_lang:
                # `let (a, b) = helper(self.<field>.as_str(), ..)`: every string the helper returns is a factor of its argument
                for l in lets(f["body"]):
                    if "init" not in l or not any(q.get("p") == "Bind" and q.get("lid") == rhs["lid"] for q in walk(l["pat"])):
                        continue
                    c = l["init"]
                    g = facts.fns.get((c["f"].get("rid") or c["f"].get("id"))) if c.get("k") == "Call" and c["f"].get("k") == "Path" else None
                    if g is None or "body" not in g:
                        continue
                    fed = [i for i, a in enumerate(c["args"]) if any(x.get("k") == "Field" and x["name"] == field for x in walk(a))]
                    other_str = [a for i, a in enumerate(c["args"]) if i not in fed and "str" in str(a.get("ty", "")).lower()]
                    if len(fed) == 1 and not other_str and returns_factors_of_param(g, fed[0]) \
                            and factor_closed(e2.expand_spec(xml10.P, field_lang[(ty, field)], set())):
                        cls = "c:factor-of-old-value(through %s; language factor-closed)" % g["path"].split("::")[-1]
            if cls is None and not why:
                why = "the stored value is not validated"
            st["by_class"][cls.split(":")[0] if cls else "unvalidated"] = st["by_class"].get(cls.split(":")[0] if cls else "unvalidated", 0) + 1
            res.oblige(1, cls is not None)
            res.sample({"rule": "R15-1", "store": key, "class": cls or ("unvalidated: " + why)}, limit=16)
            if cls is None:
                res.add(Finding("R15-1", key, "%s stores into %s.%s a value that is not validated as stored (%s)" % (f["path"], ty, field, why),
                                f["file"], n.get("ln"), {}))
    if st["instances"] < 5:
        raise BrokenCheck("R15-1: %d store sites (floor 5)" % st["instances"])
    # set_values / empty(): constructor paths fed by API strings go through the parser with the rest tested
    for path in ("xml_info::XmlAttribute::set_values", "xml_info::XmlAttribute::empty", "xml_info::XmlElement::empty",
                 "xml_info::XmlProcessingInstruction::empty", "xml_info::XmlProcessingInstruction::set_content"):
        f = facts.fn(path)
        st["instances"] += 1
        ok = False
        for g in facts.family(f):          # the function or the private piece of it that talks to the parser
            trees, rests = parser_bound_locals(g)
            if not trees:
                continue
            uses = [n for n in walk(g["body"]) if n.get("k") in ("Call", "MethodCall", "Assign") and
                    any(root_local(a) in trees for a in (n.get("args") or []) + ([n["r"]] if n.get("k") == "Assign" else []))]
            ok = bool(uses) and all(under_rest_test(g, u, rests) for u in uses)
            break
        res.oblige(1, ok)
        if not ok:
            res.add(Finding("R15-1", path.split("::", 1)[1], "%s uses the parsed tree without testing that the rest is empty" % path, f["file"], f["line"], {}))
        # R15-2
        tmpl = []
        for g in facts.family(f):
            tmpl = tmpl or templates_of(g["body"], macs=("format",))
        ty = f.get("impl_self")
        disp = facts.fn_opt("xml_info::<%s as std::fmt::Display>::fmt" % ty)
        if tmpl and disp:
            st2["instances"] += 1
            parts = [t[0] for t in printer_templates(facts, disp)]
            ok2 = subset_concat(tmpl[0][0], parts)
            res.oblige(1, ok2)
            if not ok2:
                res.add(Finding("R15-2", path.split("::", 1)[1], "%s validates inside %r but the printer writes %r" % (path, tmpl[0][0], parts),
                                f["file"], tmpl[0][2], {}))
    if st2["instances"] < 3:
        raise BrokenCheck("R15-2: %d template pairs (floor 3)" % st2["instances"])
    res.functions_analysed = st["instances"]
    r15_3(facts, res)
    r15_4(facts, res)
    r15_5(facts, res)
    r15_6(facts, res)
    return res
