"""C02 — ill-formed input is never reported as a completely parsed document."""
import e1
import e2
import restcheck
from common import Finding, Result
from facts import BrokenCheck, walk
from props import c01

LEVEL = "other"


def closures_of(facts, fn_path):
    return [f for f in facts.fns.values() if f.get("parent") == fn_path]


def wfc_element_type_match(facts):
    """The name produced by etag meets the stag name in an equality test inside `element` whose failure rejects."""
    f = facts.fn("xml_parser::element")
    for n in walk(f["body"]):
        if n.get("k") == "Call" and str(n["f"].get("path", "")) in ("nom::combinator::verify", "nom::combinator::map_res", "nom::combinator::map_opt"):
            # the verified parser mentions stag and etag; the predicate compares
            names = {str(m.get("path", "")) for m in walk(n["args"][0]) if m.get("k") == "Path"}
            if "xml_parser::stag" in names and "xml_parser::etag" in names:
                bins = [m for m in walk(n["args"][1]) if m.get("k") == "Binary"]
                if len(bins) == 1 and bins[0]["op"] == "==":
                    def plain(x):
                        while isinstance(x, dict) and x.get("k") in ("AddrOf", "Deref", "Unary"):
                            x = x.get("a") or x.get("e")
                        return isinstance(x, dict) and (x.get("k") == "Path" or (x.get("k") == "Field" and x.get("name") == "name"))
                    if plain(bins[0]["a"]) and plain(bins[0]["b"]):
                        return True, "verify(tuple((stag, content, etag)), |..| s.name == *e)"
                    return False, "the names of start and end tag are not compared themselves (a value derived from them is)"
                if bins:
                    return False, "the predicate that compares the names of start and end tag is not a single equality (operators %s)" % [b["op"] for b in bins]
    # the same constraint written out: `let (rest, start) = stag(input)?; .. let (rest, end) = etag(rest)?;
    # if start.name == end { Ok(..) } else { Err(..) }` in element or in a parser element calls
    cands = [f]
    for n in walk(f["body"]):
        if n.get("k") == "Path":
            g = facts.fns.get(n.get("rid") or n.get("id"))
            if g is not None and "body" in g and g["crate"] == "xml_parser" and g not in cands and "nom::Err<" in str(g.get("sig", "")):
                cands.append(g)
    for g in cands:
        bound = {}
        for n in walk(g["body"]):
            if n.get("s") == "Let" and "init" in n and n["pat"].get("p") == "Tuple" and len(n["pat"].get("pats", [])) == 2:
                calls = [str(m["f"].get("path", "")) for m in walk(n["init"]) if m.get("k") == "Call" and m["f"].get("k") == "Path"]
                v = n["pat"]["pats"][1]
                for which in ("stag", "etag"):
                    if "xml_parser::" + which in calls and v.get("p") == "Bind":
                        bound[v["lid"]] = which
        if set(bound.values()) != {"stag", "etag"}:
            continue

        def side(x):
            while isinstance(x, dict) and x.get("k") in ("AddrOf", "Deref", "Unary"):
                x = x.get("a") or x.get("e")
            if isinstance(x, dict) and x.get("k") == "Field" and x.get("name") == "name":
                x = x["a"]
                while isinstance(x, dict) and x.get("k") in ("AddrOf", "Deref", "Unary"):
                    x = x.get("a") or x.get("e")
            return bound.get(x.get("lid")) if isinstance(x, dict) and x.get("k") == "Path" and x.get("res") == "Local" else None
        has_err = lambda b: any(m.get("k") == "Call" and str(m["f"].get("path", "")).endswith("::Err") for m in walk(b))
        has_ok = lambda b: any(m.get("k") == "Call" and str(m["f"].get("path", "")).endswith("::Ok") for m in walk(b))
        for n in walk(g["body"]):
            if n.get("k") == "If" and n["cond"].get("k") == "Binary" and n["cond"].get("op") in ("==", "!="):
                c = n["cond"]
                if {side(c["a"]), side(c["b"])} == {"stag", "etag"}:
                    accept, reject = (n["then"], n.get("else")) if c["op"] == "==" else (n.get("else"), n["then"])
                    if reject is not None and has_err(reject) and not has_ok(reject):
                        return True, "%s compares the names of start and end tag and answers Err when they differ" % g["path"]
                    return False, "%s compares the names of start and end tag but does not reject a mismatch" % g["path"]
    return False, "no equality test between the names of stag and etag in xml_parser::element"


def wfc_etag_keeps_name(facts):
    f = facts.fn("xml_parser::etag")
    sig = f.get("sig", "")
    ok = "QName" in sig.split("->")[-1]
    return ok, "etag returns %s" % sig.split("->")[-1].strip()[:80]


def wfc_unique_att(facts):
    """Unique Att Spec: every attribute is compared with *all* attributes before it (or entered into a set), by its whole
    name.  Comparing neighbours only (windows(2)) misses a='1' b='2' a='3'; comparing local parts only refuses a:id next
    to b:id, which is well-formed."""
    import staleidx
    why_not = "no comparison of every attribute name with the earlier ones and an error exit in XmlElement::node"
    for f in facts.family("xml_info::XmlElement::node"):      # the constructor and the private pieces it is split into
        r = _unique_att_in(facts, f)
        if r is not None:
            if r[0] or r[1] != why_not:
                return r
    return False, why_not


def _unique_att_in(facts, f):
    import staleidx
    seq = staleidx._walk_parents(f["body"])
    for i, (n, pi, slot) in enumerate(seq):
        if n.get("k") != "If" or not any(m.get("k") == "Ret" for m in walk(n["then"])):
            continue
        cond = n["cond"]
        def quantifiers(expr):
            return [m for m in walk(expr) if m.get("k") == "MethodCall" and m["m"] in ("any", "contains", "position", "find", "insert")
                    and any(x.get("k") == "Field" and x.get("name") in ("attributes", "name") for x in walk(m))]
        quant = quantifiers(cond)
        ctx = f
        if not quant:
            # a predicate of this crate that is handed the attribute list: the test is in its body
            for c in walk(cond):
                if c.get("k") == "Call" and c["f"].get("k") == "Path" and str(c.get("ty")) == "bool":
                    g = facts.fns.get(c["f"].get("rid") or c["f"].get("id"))
                    if g is not None and "body" in g and g["crate"] == "xml_info" and \
                            any("Attribute" in str(x.get("ty", "")) for a in c.get("args", []) for x in walk(a)):
                        quant = quantifiers(g["body"])
                        ctx = g
                        if quant:
                            break
        if not quant:
            continue
        q = quant[0]
        lets = {m["pat"]["lid"]: m["init"] for m in walk(ctx["body"])
                if m.get("s") == "Let" and m.get("pat", {}).get("p") == "Bind" and "init" in m}
        chain = []
        r = q
        while isinstance(r, dict) and r.get("k") == "MethodCall":
            chain.append(r["m"])
            r = r.get("recv")
        if any(c in ("windows", "chunks", "zip", "last", "first", "chunks_exact") for c in chain):
            return False, "attribute names are compared with %s(): only neighbouring attributes meet, a duplicate with another attribute in between passes" % \
                [c for c in chain if c in ("windows", "chunks", "zip", "last", "first", "chunks_exact")][0]
        # inside a loop over the attributes
        k = pi
        in_loop = False
        while k is not None:
            if seq[k][0].get("k") in ("Loop",) or (seq[k][0].get("k") == "Match" and seq[k][0].get("src") == "ForLoop"):
                in_loop = True
            k = seq[k][1]
        if not in_loop and q["m"] != "insert":
            return False, "the duplicate test is not made for every attribute (no enclosing loop)"
        # the key: whole names
        if q["m"] in ("any", "position", "find") and q.get("args") and q["args"][0].get("k") == "Closure":
            body = q["args"][0]["body"]
            cmps = [m for m in walk(body) if m.get("k") == "Binary" and m["op"] in ("==", "!=")]
            if len(cmps) != 1:
                return False, "the duplicate test does not consist of one comparison of names"
            sides = [cmps[0]["a"], cmps[0]["b"]]
            def whole(x, depth=0):
                while x.get("k") in ("AddrOf", "Deref", "Unary"):
                    x = x.get("a") or x.get("e")
                if x.get("k") == "Path" and x.get("res") == "Local" and x.get("lid") in lets and depth < 3:
                    return whole(lets[x["lid"]], depth + 1)      # `let name = &attributes[index].name;`
                return x.get("k") == "Field" and x.get("name") == "name" and "AttributeName" in str(x.get("ty", ""))
            if not all(whole(x) for x in sides):
                return False, "attribute names are compared by a part of the name (%s): attributes with equal local parts and different " \
                              "prefixes are refused as duplicates" % [x.get("k") + ":" + str(x.get("name") or x.get("m") or "") for x in sides]
        return True, "each attribute is compared with all earlier ones by its whole name; early Err"
    return False, "no comparison of every attribute name with the earlier ones and an error exit in XmlElement::node"


def wfc_legal_char(facts):
    out = []
    for name in ("char_from_char10", "char_from_char16"):
        f = facts.fn("xml_info::" + name)
        names = set()
        for e in facts.edges()[f["id"]]:
            names.add(e["name"])
        for c in closures_of(facts, f["path"]):
            for e in facts.edges()[c["id"]]:
                names.add(e["name"])
        if "xml_nom::xmlchar::is_char" not in names:
            out.append(name)
    return (not out), ("is_char consulted in both" if not out else "%s does not consult xmlchar::is_char" % out)


def wfc_entity_declared(facts):
    """Every arm on parser::Reference::Entity in an item constructor calls Context::entity and propagates its error."""
    sites = 0
    bad = []
    for f in facts.fns.values():
        if f["crate"] != "xml_info" or "body" not in f or "::tests::" in f["path"]:
            continue        # every function of the crate that takes a parsed entity reference apart (whatever it is called)
        if f["path"] in {g["path"] for g in facts.family("xml_info::XmlEntityValue::new")}:
            continue   # entity values may refer to entities declared later; checked when expanded
        for n in walk(f["body"]):
            if "pat" in n and "body" in n and n.get("k") is None:
                paths = [str(p.get("path", "")) for p in walk(n["pat"])]
                if any(p.endswith("model::Reference::Entity") for p in paths):
                    sites += 1
                    ok = False
                    for m in walk(n["body"]):
                        if m.get("k") == "Match" and m.get("src") == "Try":
                            for c in walk(m["scrut"]):
                                if c.get("k") == "MethodCall" and str(c.get("path", "")).endswith("Context::entity"):
                                    ok = True
                    if not ok:
                        bad.append(f["path"])
    if sites < 2:
        return False, "only %d Reference::Entity arms found (floor 2)" % sites
    return (not bad), ("%d arms call Context::entity(..)?" % sites if not bad else "no `context.entity(..)?` in %s" % bad)


def wfc_entity_lookup_fails(facts):
    f = facts.fn("xml_info::Context::entity")
    err = any(str(m.get("path", "")).endswith("Error::NotFoundReference") for m in walk(f["body"]))
    return err, "Context::entity ends in Err(NotFoundReference) for an unknown name" if err else "Context::entity never fails"


def wfc_no_lt_in_attr_entities(facts):
    """The replacement text of an entity referred to in an attribute value must not contain '<': some function on the path
    that builds an attribute value from an entity reference has to look for the character '<' (loose on purpose)."""
    f = facts.fn("xml_info::XmlAttributeValue::new")
    reach, _ = facts.reachable([f["id"]])
    for fid in reach:
        g = facts.fns[fid]
        if g["crate"] != "xml_info" or "body" not in g:
            continue
        def is_lt(m):
            return m.get("k") == "Lit" and ((m.get("t") == "char" and m.get("v") == 60) or (m.get("t") == "str" and m.get("v") == "<"))
        for m in walk(g["body"]):
            if m.get("k") == "Binary" and m["op"] in ("==", "!=") and (is_lt(m["a"]) or is_lt(m["b"])):
                return True, "%s compares with '<'" % g["path"]
            if m.get("k") == "MethodCall" and m["m"] in ("contains", "find", "matches", "starts_with", "any", "position") and \
                    any(is_lt(x) for a in m["args"] for x in walk(a)):
                return True, "%s searches for '<'" % g["path"]
    return False, "nothing reachable from XmlAttributeValue::new (information-set side) looks for '<' in an entity's replacement text"


WFC = [
    ("Element Type Match", [wfc_element_type_match, wfc_etag_keeps_name]),
    ("Unique Att Spec", [wfc_unique_att]),
    ("Legal Character", [wfc_legal_char]),
    ("Entity Declared", [wfc_entity_declared, wfc_entity_lookup_fails]),
    ("No < in Attribute Values", [wfc_no_lt_in_attr_entities]),
]


def r02_5(facts, res, rule="R02-5", crates=("xml_info", "xml_parser", "xml_nom")):
    """Error discipline of the tree builder: the well-formedness and validity checks report through `Result`.  `Result` is
    `IntoIterator` (an `Err` yields nothing), so `flat_map(|v| checked(v))`, `flatten()` over results written as
    `filter_map(Result::ok)` silently turn a refused item into an absent one.  Type-resolved: the adapter's type argument is a
    `Result` whose error type belongs to the workspace."""
    import re
    st = res.rule(rule, instances=0, functions=0, adapters=0)
    for f in facts.fns.values():
        if f["crate"] not in crates or f.get("derived") or f.get("test"):
            continue
        st["functions"] += 1
        for bi, t in facts.mir_calls(f):
            c = t.get("callee")
            if not c:
                continue
            n = facts.callee_name(c)
            last = n.split("::")[-1]
            if last not in ("flat_map", "filter_map", "flatten", "map_while"):
                continue
            st["adapters"] += 1
            inst = str(c.get("pathargs", ""))
            tail = inst.rsplit("::" + last, 1)[-1]
            drops = (last == "flat_map" and re.match(r"::<std::result::Result<.*?, (error::|[a-z_]+::error::)?[A-Za-z:]*Error>", tail)) or \
                (last in ("filter_map", "map_while") and re.search(r"std::result::Result::<.*Error>::ok\}", tail)) or \
                (last == "flatten" and re.search(r"std::result::Result<[^{}]*Error>(, |>)", inst.split(" as std::iter::Iterator>")[0]))
            if drops:
                st["instances"] += 1
                res.oblige(1, False)
                res.add(Finding(rule, "%s|%s" % (facts.root_of(f)["path"] if hasattr(facts, "root_of") else f["path"], last),
                                "%s feeds results of a fallible step to Iterator::%s: an Err yields no item, so the error of a refused "
                                "item (well-formedness / validity check) is dropped instead of propagated" % (f["path"], last),
                                f["file"], t.get("ln"), {}))
    res.oblige(1, True)
    if st["functions"] < 200:
        raise BrokenCheck("%s: %d functions scanned (floor 200)" % (rule, st["functions"]))


def run(facts, tier):
    res = Result("C02")
    res.explanation = (
        "static: R01-1 / R18-1 language *equality* of every production with the Recommendation (over-acceptance is a "
        "difference too, reported with a shortest ill-formed witness); R01-2 ordered choice; R02-1 every caller outside the "
        "grammar tests the unconsumed rest (typed-tree patterns F1-F4) or hands it to its caller; R02-2 one structural "
        "mechanism per well-formedness constraint that is not context-free (end-tag name compared, attribute names compared "
        "pairwise, character references filtered by is_char, entity references looked up with `?`), plus R03-3 for No Recursion.")
    res.assumptions = ["rejection of arbitrary near-miss strings beyond grammar equality and the listed constraints is not decided"]
    ex = c01.grammar_rules(facts, res, tier)
    e2.ordered_choice(facts, ex, res, "R01-2", c01.XML_GRAMMAR, c01.ORDERED_CHOICE_REASONS)
    restcheck.rule(facts, res, "R02-1", floor=15)
    st = res.rule("R02-2", instances=0)
    for name, checks in WFC:
        for chk in checks:
            st["instances"] += 1
            try:
                ok, why = chk(facts)
            except BrokenCheck:
                raise
            res.oblige(1, ok)
            res.sample({"rule": "R02-2", "constraint": name, "mechanism": chk.__name__, "verdict": why}, limit=12)
            if not ok:
                anchor = None
                res.add(Finding("R02-2", "%s|%s" % (name, chk.__name__), "well-formedness constraint %s: %s" % (name, why), None, None, {}))
    # No Recursion: the entity expansion cycle must be guarded
    from props import c03
    roots = __import__("props.c11", fromlist=["x"]).expansion_roots(facts)
    reach, _ = facts.reachable(roots)
    c03.r03_3(facts, res, "R02-2r", reach, {})
    c01.r01_13(facts, res, "R02-3")
    r02_5(facts, res)
    import guards
    guards.rule(facts, res, "R02-2g", [facts.fns[x] for x in reach if x in facts.fns], want=("G1", "G2", "G3", "G4", "G5"), floor=1)
    res.functions_analysed = res.extra["grammar"]["productions"]
    return res
