"""C06 — XPath parsing and evaluation are total."""
import e1
import e2
import entries
import reasons_e1
import tokens
import xptable
from common import Finding, Result
from facts import BrokenCheck, walk
from props import c03

LEVEL = "other"

CHILD_KINDS_CONST_OK = {
    # XmlNode variants that never occur in a child list or node-set position that is compared by key
    "Entity": "entities are only reachable through DocumentType::entities(), never through child lists",
    "Notation": "notations are only reachable through DocumentType::notations(), never through child lists",
}


def r06_3(facts, res, rule="R06-3"):
    """xml_dom::XmlNode::order: every arm for a node kind that can sit in a child list must delegate to the
    order key of the underlying item; a constant key merges siblings and makes sibling navigation loop."""
    f = facts.fn("xml_dom::XmlNode::order")
    st = res.rule(rule, instances=0)
    arms = None
    for n in walk(f["body"]):
        if n.get("k") == "Match" and str(n.get("scrutty", "")).endswith("XmlNode"):
            arms = n["arms"]
            break
    if arms is None:
        raise BrokenCheck("R06-3: match over XmlNode not found in XmlNode::order")
    adt = facts.adts.get("xml_dom::XmlNode")
    variants = [v["name"] for v in adt["variants"]]
    seen = set()
    for arm in arms:
        pat = arm["pat"]
        names = []
        for p in ([pat] if pat.get("p") != "Or" else pat["pats"]):
            if p.get("p") == "TupleStruct":
                names.append(p["path"].split("::")[-1])
            elif p.get("p") in ("Wild", "Bind"):
                names.extend(v for v in variants if v not in seen)
        delegates = any(c.get("k") == "MethodCall" and c.get("m") == "order" for c in walk(arm["body"]))
        for v in names:
            seen.add(v)
            st["instances"] += 1
            ok = delegates or v in CHILD_KINDS_CONST_OK
            res.oblige(1, ok)
            if not ok:
                res.add(Finding(rule, "XmlNode::%s" % v,
                                "XmlNode::order() answers a constant for %s nodes: all such siblings share one order key, "
                                "so key-based sibling lookup, sorting and de-duplication confuse them" % v,
                                f["file"], arm.get("ln"), {"variant": v}))
    missing = [v for v in variants if v not in seen]
    if missing:
        raise BrokenCheck("R06-3: variants without arm: %s" % missing)
    if st["instances"] < 14:
        raise BrokenCheck("R06-3: %d variants seen, floor 14" % st["instances"])


def run(facts, tier):
    res = Result("C06")
    res.explanation = (
        "static: R06-1 panic-site reachability from xml_xpath::query / expr::parse / eval::document over the resolved "
        "call graph (indirect calls through the function table are linked to the stored functions by signature), with "
        "pattern / reasoned discharge (k-th args.next().unwrap() in a table function is discharged by the table's "
        "minimum arity plus the dominating arity test in eval_func_expr); R06-2 alternatives re-parsing a recursive "
        "non-terminal after a common prefix; R06-3 order-key delegation per node kind; R03-3 recursion cycles.")
    res.assumptions = [
        "unwind edges ignored; RefCell borrow panics not claimed",
        "termination of `while let` loops over parent / sibling chains is only covered through R06-3",
    ]
    roots = entries.c06(facts)
    ok, why = xptable.arity_guard_ok(facts)
    ctx = {"arity": {e["fid"]: e["min"] for e in xptable.entries(facts)} if ok else {}}
    res.extra["arity_guard"] = why
    reach0, _ = facts.reachable(roots)
    reasons, verdicts = reasons_e1.resolve(facts, reach0)
    reach, parent = e1.panic_rule(facts, res, "R06-1", roots, reasons, ctx)
    res.extra["preconditions"] = {k: v[1] for k, v in verdicts.items()}
    res.functions_analysed = len(reach)
    if res.rules["R06-1"]["instances"] < 40:
        raise BrokenCheck("R06-1: %d sites, floor 40" % res.rules["R06-1"]["instances"])
    ex = tokens.extractor_for_xpath(facts)
    c03.r03_2(facts, res, "R06-2", ex, lambda f: f["crate"] == "xml_xpath" and f["path"].startswith("xml_xpath::expr::")
              and f["kind"] == "Fn" and "::model::" not in f["path"])
    if res.rules["R06-2"]["instances"] < 10:
        raise BrokenCheck("R06-2: %d alts on recursive productions, floor 10" % res.rules["R06-2"]["instances"])
    r06_3(facts, res)
    c03.r03_3(facts, res, "R06-4", reach, reasons_e1.scc_reasons(facts, reach))
    import guards
    guards.rule(facts, res, "R06-4g", [facts.fns[x] for x in reach if x in facts.fns], want=("G1", "G2"), floor=1)
    return res
