"""C06 — XPath parsing and evaluation are total."""
import e1
import e4
import re
import e2
import entries
import reasons_e1
import tokens
import xptable
from common import Finding, Result
from facts import BrokenCheck, walk
from props import c03

LEVEL = "other"

CHILD_KINDS_CONST_OK = {
    # XmlNode variants that never occur in a child list or node-set position that is compared by key
    "Entity": "entities are only reachable through DocumentType::entities(), never through child lists",
    "Notation": "notations are only reachable through DocumentType::notations(), never through child lists",
}


def r06_3(facts, res, rule="R06-3"):
    """xml_dom::XmlNode::order: every arm for a node kind that can sit in a child list must delegate to the
    order key of the underlying item; a constant key merges siblings and makes sibling navigation loop."""
    f = facts.fn("xml_dom::XmlNode::order")
    st = res.rule(rule, instances=0)
    arms = None
    for n in walk(f["body"]):
        if n.get("k") == "Match" and str(n.get("scrutty", "")).endswith("XmlNode"):
            arms = n["arms"]
            break
    if arms is None:
        raise BrokenCheck("R06-3: match over XmlNode not found in XmlNode::order")
    adt = facts.adts.get("xml_dom::XmlNode")
    variants = [v["name"] for v in adt["variants"]]
    seen = set()
    for arm in arms:
        pat = arm["pat"]
        names = []
        for p in ([pat] if pat.get("p") != "Or" else pat["pats"]):
            if p.get("p") == "TupleStruct":
                names.append(p["path"].split("::")[-1])
            elif p.get("p") in ("Wild", "Bind"):
                names.extend(v for v in variants if v not in seen)
        delegates = any(c.get("k") == "MethodCall" and c.get("m") == "order" for c in walk(arm["body"]))
        for v in names:
            seen.add(v)
            st["instances"] += 1
            ok = delegates or v in CHILD_KINDS_CONST_OK
            res.oblige(1, ok)
            if not ok:
                res.add(Finding(rule, "XmlNode::%s" % v,
                                "XmlNode::order() answers a constant for %s nodes: all such siblings share one order key, "
                                "so key-based sibling lookup, sorting and de-duplication confuse them" % v,
                                f["file"], arm.get("ln"), {"variant": v}))
    missing = [v for v in variants if v not in seen]
    if missing:
        raise BrokenCheck("R06-3: variants without arm: %s" % missing)
    if st["instances"] < 8:
        raise BrokenCheck("R06-3: %d variants seen, floor 8" % st["instances"])


def run(facts, tier):
    res = Result("C06")
    res.explanation = (
        "static: R06-1 panic-site reachability from xml_xpath::query / expr::parse / eval::document over the resolved "
        "call graph (indirect calls through the function table are linked to the stored functions by signature), with "
        "pattern / reasoned discharge (k-th args.next().unwrap() in a table function is discharged by the table's "
        "minimum arity plus the dominating arity test in eval_func_expr); R06-2 alternatives re-parsing a recursive "
        "non-terminal after a common prefix; R06-3 order-key delegation per node kind; R03-3 recursion cycles.")
    res.assumptions = [
        "unwind edges ignored; RefCell conflicts are claimed only where a live RefMut / Ref and the conflicting call are in one function (R06-6)",
        "termination of `while let` loops over parent / sibling chains is only covered through R06-3",
    ]
    roots = entries.c06(facts)
    ok, why = xptable.arity_guard_ok(facts)
    ctx = {"arity": xptable.helper_arity(facts, {e["fid"]: e["min"] for e in xptable.entries(facts)}) if ok else {}}
    res.extra["arity_guard"] = why
    reach0, _ = facts.reachable(roots)
    reasons, verdicts = reasons_e1.resolve(facts, reach0)
    reach, parent = e1.panic_rule(facts, res, "R06-1", roots, reasons, ctx)
    res.extra["preconditions"] = {k: v[1] for k, v in verdicts.items()}
    res.functions_analysed = len(reach)
    if res.rules["R06-1"]["instances"] < 24:
        raise BrokenCheck("R06-1: %d sites, floor 24" % res.rules["R06-1"]["instances"])
    ex = tokens.extractor_for_xpath(facts)
    c03.r03_2(facts, res, "R06-2", ex, lambda f: f["crate"] == "xml_xpath" and f["path"].startswith("xml_xpath::expr::")
              and f["kind"] == "Fn" and "::model::" not in f["path"])
    if res.rules["R06-2"]["instances"] < 6:
        raise BrokenCheck("R06-2: %d alts on recursive productions, floor 6" % res.rules["R06-2"]["instances"])
    r06_3(facts, res)
    c03.r03_3(facts, res, "R06-4", reach, reasons_e1.scc_reasons(facts, reach))
    import guards
    guards.rule(facts, res, "R06-4g", [facts.fns[x] for x in reach if x in facts.fns], want=("G1", "G2", "G4", "G5"), floor=1)
    r06_5(facts, res, reach)
    # the sibling axes walk next_sibling / previous_sibling, which look nodes up by their order key: stale cached keys make a
    # node its own sibling and the walk endless - the cache discipline of C14
    from props import c14
    c14.c14_8(facts, res, "R06-7")
    import borrowck
    borrowck.rule(facts, res, "R06-6", reach, floor=3)
    # the unwrap of `number.parse::<f64>()` in eval_primary_expr is discharged by "the token matched production [30] Number":
    # that entry condition is the language accepted by expr::number (a lexer that lets Unicode digits through breaks it)
    import e2
    import xpath10
    rows, _ = e2.conformance(facts, xpath10)
    e2.conformance_findings(rows, "R06-8", res, names={"Number", "Digits"})
    if res.rules["R06-8"]["instances"] < 1:
        raise BrokenCheck("R06-8: production Number not compared")
    return res


def _root_local(facts, f, defs, op, depth=0):
    """The local an operand is a copy / reborrow of (parameters end the chain)."""
    l = e1.local_of(op)
    if l is None or depth > 8:
        return None
    if 1 <= l <= f["mir"]["argc"]:
        return l
    ds = defs.get(l, [])
    if len(ds) != 1:
        return l
    kind, _, x = ds[0]
    if kind == "stmt" and x["rv"] in ("Use", "Ref", "CopyForDeref", "Cast") and x.get("ops"):
        o = x["ops"][0]
        if isinstance(o, str):
            m = re.match(r"^\(?\*?_(\d+)\)?$", o)
            if m:
                return _root_local(facts, f, defs, {"k": "copy", "l": int(m.group(1))}, depth + 1) if False else int(m.group(1))
            return l
        return _root_local(facts, f, defs, o, depth + 1)
    return l


def r06_5(facts, res, reach):
    """A function of the recursive evaluator that evaluates the *same* sub-expression twice on one path doubles the work at
    every nesting level: nested predicates / parentheses then cost 2^depth.  For every function on a recursion cycle: no two
    call sites into the cycle take the same expression operand with one reachable from the other."""
    import re as _re
    st = res.rule("R06-5", instances=0)
    for comp in e1.recursive_sccs(facts, reach):
        cset = set(comp)
        for fid in comp:
            f = facts.fns[fid]
            if f["crate"] != "xml_xpath" or "mir" not in f or not f["path"].startswith("xml_xpath::eval::"):
                continue
            defs = e1.def_sites(facts, f)
            succ = e1.cfg(facts, f)
            dom, _ = e1.dominators(succ)
            groups = {}
            for bi, t in facts.mir_calls(f):
                c = t.get("callee")
                if not c or not t.get("args"):
                    continue
                cid = facts.callee_id(c)
                if cid not in cset:
                    continue
                # the expression operand: first argument whose type is a reference to an expr:: model type
                root = None
                for a in t["args"]:
                    l = e1.local_of(a)
                    if l is not None and "expr::" in str(f["mir"]["locals"][l].get("ty", "")):
                        root = _root_local(facts, f, defs, a)
                        break
                if root is None:
                    continue
                groups.setdefault((cid, root), []).append((bi, t))
            for (cid, root), sites in groups.items():
                st["instances"] += 1
                bad = None
                for i in range(len(sites)):
                    for j in range(len(sites)):
                        # site i is executed before site j on every path to j (two arms of a match in a loop do not count:
                        # they meet only in different iterations, with a different operand)
                        if i != j and sites[i][0] != sites[j][0] and sites[i][0] in dom.get(sites[j][0], ()):
                            bad = (sites[i], sites[j])
                res.oblige(1, bad is None)
                if bad:
                    res.add(Finding("R06-5", "%s|%s" % (f["path"], facts.fns[cid]["path"].split("::")[-1]),
                                    "%s evaluates the same sub-expression twice on one path (calls of %s at lines %s and %s): the cost doubles "
                                    "with every nesting level" % (f["path"], facts.fns[cid]["path"], bad[0][1].get("ln"), bad[1][1].get("ln")),
                                    f["file"], bad[1][1].get("ln"), {}))
    if st["instances"] < 6:
        raise BrokenCheck("R06-5: %d recursive evaluator call groups (floor 6)" % st["instances"])
