"""C03 — parsing and printing are total: R03-1 panic reachability, R03-2 exponential re-parse,
R03-3 unbounded recursion."""
import e1
import e2
import entries
import reasons_e1
import xptable
from common import Finding, Result
from facts import BrokenCheck

LEVEL = "other"


GUARD_NAMES = ("depth", "level", "visited", "seen", "nest", "fuel", "limit")


def _guarded(facts, f):
    """Does some conditional branch of f depend on a local whose name says depth / visited ...?
    Backward slice (<= 6 steps through first arguments and operands) from every SwitchInt discriminant."""
    m = f.get("mir")
    if not m:
        return False
    names = {i: l.get("name", "").lower() for i, l in enumerate(m["locals"])}
    if not any(any(g in n for g in GUARD_NAMES) for n in names.values()):
        return False
    defs = e1.def_sites(facts, f)

    def slice_has_guard(op, depth=0, seen=None):
        seen = seen if seen is not None else set()
        l = e1.local_of(op)
        if l is None or depth > 6 or l in seen:
            return False
        seen.add(l)
        if any(g in names.get(l, "") for g in GUARD_NAMES):
            return True
        for kind, _, x in defs.get(l, []):
            ops = x.get("args") if kind == "call" else x.get("ops")
            for o in (ops or []):
                if slice_has_guard(o, depth + 1, seen):
                    return True
        return False

    for b in m["blocks"]:
        t = b["term"]
        if t["k"] == "SwitchInt" and slice_has_guard(t["discr"]):
            return True
    return False


def r03_3(facts, res, rule, reach, scc_reasons=None):
    """Every recursion cycle reachable from the entry points must contain a function with a branch on a
    depth / visited value, or be on the reasoned list (recursion bounded by the shape of a finite enum)."""
    scc_reasons = scc_reasons or {}
    st = res.rule(rule, instances=0, guarded=0, reasoned=0)
    anchors = set(scc_reasons)
    try:
        import json, os
        kf = json.load(open(os.path.join(os.path.dirname(os.path.dirname(os.path.dirname(os.path.dirname(os.path.abspath(__file__))))), "known_findings.json")))
        anchors |= {x["key"] for x in kf.get("findings", []) if str(x.get("key", "")).startswith("cycle-of:") and x.get("rule") == rule}
    except (OSError, ValueError):
        pass
    for comp in e1.recursive_sccs(facts, reach):
        fns = [facts.fns[x] for x in comp]
        if all(f.get("derived") for f in fns):
            continue
        st["instances"] += 1
        members = sorted(f["path"] for f in fns)
        # named by a member: the one an existing verdict (reason or known finding) already names, else the alphabetically first.
        # A cycle that gains or loses a helper keeps its name as long as the named function is still part of it.
        named = [m for m in members if "cycle-of:" + m in anchors]
        key = "cycle-of:" + (named[0] if named else members[0])
        guarded = any(_guarded(facts, f) for f in fns)
        if guarded:
            st["guarded"] += 1
            res.oblige(1, True)
            res.sample({"rule": rule, "cycle": members, "verdict": "guarded"}, limit=20)
            continue
        if key in scc_reasons:
            st["reasoned"] += 1
            res.oblige(1, True)
            continue
        res.oblige(1, False)
        first = min(fns, key=lambda f: f["path"])
        res.add(Finding(rule, key, "recursion cycle without a depth / visited guard: %s" % ", ".join(members),
                        first["file"], first["line"], {"members": members}))
        res.sample({"rule": rule, "cycle": members, "verdict": "unguarded"}, limit=20)


def r03_2(facts, res, rule, ex, fn_filter):
    """Sibling alternatives of one `alt` that, after a common token prefix, both parse the same recursive
    non-terminal make the parser re-parse the shared part once per alternative and nesting level."""
    import automata as A
    from charset import UNIVERSE
    st = res.rule(rule, instances=0)
    refs = {}
    for fid, f in facts.fns.items():
        if not fn_filter(f):
            continue
        try:
            t = ex.fn_term(f)
        except e2.Unknown:
            continue
        r = set()
        e2._refs(t, r)
        refs[fid] = {x for x in r if x in facts.fns}
    # helper functions referenced but outside the filter (xml_nom) are terms too
    comps = e1.sccs(sorted(refs), lambda n: [x for x in refs.get(n, ()) if x in refs])
    rec = {}
    for c in comps:
        if len(c) > 1 or (c[0] in refs.get(c[0], ())):
            for x in c:
                rec[x] = facts.fns[x]["path"]
    name_to_fid = {v: k for k, v in rec.items()}

    def closed(term):
        return e2.expand(ex, term, rec, ())

    def has_nt(t):
        k = t[0]
        if k == "nt":
            return True
        if k in ("seq", "alt"):
            return any(has_nt(x) for x in t[1])
        if k in ("opt", "star", "plus"):
            return has_nt(t[1])
        if k in ("minus", "and"):
            return has_nt(t[1])
        return False

    def nullable(t):
        k = t[0]
        if k in ("opt", "star", "eps"):
            return True
        if k == "seq":
            return all(nullable(x) for x in t[1])
        if k == "alt":
            return any(nullable(x) for x in t[1])
        if k == "plus":
            return nullable(t[1])
        return False

    def first_nts(t, prefix, depth, out):
        """Collect (prefix term list, nt name) for the recursive non-terminals parsed first."""
        k = t[0]
        if k == "nt":
            out.append((list(prefix), t[1]))
            if depth < 1 and t[1] in name_to_fid:
                body = closed(ex.fn_term(facts.fns[name_to_fid[t[1]]]))
                first_nts(body, prefix, depth + 1, out)
            return
        if k == "seq":
            pre = list(prefix)
            for item in t[1]:
                if not has_nt(item):
                    pre.append(item)
                    continue
                first_nts(item, pre, depth, out)
                if nullable(item):
                    continue
                return
            return
        if k == "alt":
            for x in t[1]:
                first_nts(x, prefix, depth, out)
            return
        if k in ("opt", "star", "plus"):
            first_nts(t[1], prefix, depth, out)
            return
        if k in ("minus", "and"):
            first_nts(t[1], prefix, depth, out)

    def prefixes_overlap(p1, p2):
        t1, t2 = ("seq", p1), ("seq", p2)
        sets, atoms = {UNIVERSE}, set()
        A.collect_sets(t1, sets, atoms)
        A.collect_sets(t2, sets, atoms)
        al = A.Alphabet(sets, atoms)
        b = A.Builder(al)
        return not b.dfa_of(t1).intersect(b.dfa_of(t2)).is_empty()

    by_fn = {f["path"]: f for f in facts.fns.values()}
    for a in ex.alts:
        f = by_fn.get(a["fn"])
        if f is None or f["id"] not in rec:
            continue
        st["instances"] += 1
        firsts = []
        for arm in a["arms"]:
            out = []
            first_nts(closed(arm), [], 0, out)
            firsts.append(out)
        shared = {}
        for i in range(len(firsts)):
            for j in range(i + 1, len(firsts)):
                for p1, n1 in firsts[i]:
                    for p2, n2 in firsts[j]:
                        if n1 == n2 and prefixes_overlap(p1, p2):
                            shared.setdefault(n1, set()).update((i + 1, j + 1))
        res.oblige(1, not shared)
        res.sample({"rule": rule, "fn": a["fn"], "alt": a["ord"], "arms": len(a["arms"]),
                    "first_recursive_nonterminals": [sorted({n for _, n in x}) for x in firsts],
                    "verdict": "shared" if shared else "disjoint"}, limit=20)
        def label(arm):
            r = set()
            e2._refs(arm, r)
            names = sorted(facts.fns[x]["path"].split("::")[-1] for x in r if x in facts.fns and x in rec)
            return "+".join(names)[:60] or "?"
        for nt, arms in sorted(shared.items()):
            # which alternative is tried first decides which nesting blows up: the order is part of the identity
            order = "<".join(label(a["arms"][i - 1]) for i in sorted(arms))
            res.add(Finding(rule, "%s|alt|%s|%s" % (a["fn"], nt, order),     # no ordinal: it moves when another alt is factored out
                            "alternatives %s of alt #%d in %s parse the recursive non-terminal %s after a common prefix: "
                            "nested input is re-parsed once per alternative and nesting level (exponential)"
                            % (sorted(arms), a["ord"], a["fn"], nt), f["file"], a.get("line"),
                            {"alternatives": sorted(arms), "nonterminal": nt}))


def r03_4(facts, res, reach):
    """A Display / Debug / IndentedDisplay implementation may only fail when the sink fails: `to_string()` and `format!`
    panic ("a formatting trait implementation returned an error when the underlying stream did not") when fmt returns an
    error of its own making.  Every construction of `fmt::Error` in a workspace function reachable from the printing entry
    points is therefore a panic site."""
    st = res.rule("R03-4", instances=0)
    from facts import walk
    for fid in reach:
        f = facts.fns.get(fid)
        if f is None or "body" not in f or not facts.is_workspace(fid):
            continue
        sig = f.get("sig", "")
        if "std::fmt::Error" not in sig and "fmt::Result" not in sig:
            continue
        st["instances"] += 1
        made = [n for n in walk(f["body"]) if n.get("k") in ("Path", "Struct") and str(n.get("path", "")).endswith("fmt::Error")
                and str(n.get("res", "")).startswith(("Ctor", "Def", "Struct", "SelfCtor", "True")) and not n.get("mac")]
        made = [n for n in made if str(n.get("ty", "")).endswith("fmt::Error") or n.get("k") == "Struct"]
        res.oblige(1, not made)
        for n in made:
            res.add(Finding("R03-4", f["path"] + "|fmt::Error", "%s constructs fmt::Error itself: to_string() / format!() of this value panics "
                            "instead of returning an error" % f["path"], f["file"], n.get("ln") or f.get("line"), {}))
    if st["instances"] < 18:
        raise BrokenCheck("R03-4: %d formatting functions reachable (floor 18)" % st["instances"])


def run(facts, tier):
    res = Result("C03")
    res.explanation = (
        "static: R03-1 every MIR panic site (panic!/unreachable!/unimplemented!/todo!, unwrap/expect, Vec and str "
        "indexing APIs, overflow and division asserts) in a function reachable in the resolved call graph from the "
        "parse / build / print entry points is an obligation, discharged by a dominance / constant pattern, by a "
        "hand-confirmed reason whose precondition is re-checked on every run, or else reported; R03-2 alternatives of "
        "one ordered choice that start with the same recursive non-terminal; R03-3 recursion cycles (SCCs of the call "
        "graph) without a depth or visited guard.")
    res.assumptions = [
        "unwind edges ignored; RefCell conflicts are claimed only where a live RefMut / Ref and the conflicting call are in one function (R03-5); allocation failure not claimed",
        "call graph over-approximated: trait-method calls expanded to all workspace impls, fn items passed as "
        "arguments are callable by the receiver, std generic code forwards to the user impls of the same trait",
        "time and stack bounds are not computed; only their two structural causes are reported",
    ]
    roots = entries.c03(facts)
    if len(roots) < 36:
        raise BrokenCheck("C03: only %d entry points found (floor 36)" % len(roots))
    reach0, _ = facts.reachable(roots)
    reasons, verdicts = reasons_e1.resolve(facts, reach0)
    reach, parent = e1.panic_rule(facts, res, "R03-1", roots, reasons, {})
    res.extra["preconditions"] = {k: v[1] for k, v in verdicts.items()}
    res.functions_analysed = len(reach)
    if res.rules["R03-1"]["instances"] < 6:
        raise BrokenCheck("R03-1: %d sites found, floor 6" % res.rules["R03-1"]["instances"])
    ex = e2.Extractor(facts)
    r03_2(facts, res, "R03-2", ex, lambda f: f["crate"] in ("xml_parser", "xml_nom") and f["kind"] == "Fn" and "::model::" not in f["path"])
    if res.rules["R03-2"]["instances"] < 2:
        raise BrokenCheck("R03-2: %d alts on recursive productions, floor 2" % res.rules["R03-2"]["instances"])
    r03_3(facts, res, "R03-3", reach, reasons_e1.scc_reasons(facts, reach))
    if res.rules["R03-3"]["instances"] < 2:
        raise BrokenCheck("R03-3: %d recursion cycles found, floor 2" % res.rules["R03-3"]["instances"])
    # cyclic entity definitions: the visited test of the expansion must see the whole chain (G1) and extend it (G2)
    import guards
    xreach, _ = facts.reachable(__import__("props.c11", fromlist=["x"]).expansion_roots(facts))
    guards.rule(facts, res, "R03-3g", [facts.fns[x] for x in set(reach) | set(xreach) if x in facts.fns], want=("G1", "G2", "G4", "G5"), floor=1)
    r03_4(facts, res, reach)
    from props import c01
    c01.r01_14(facts, res, "R03-6")      # unsupported constructs keep their kind, so that the expansion can refuse them
    import borrowck
    borrowck.rule(facts, res, "R03-5", reach, floor=10)
    return res
