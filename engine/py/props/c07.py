"""C07 — node-sets are duplicate-free and document-ordered."""
import e5
import xptable
from common import Finding, Result
from facts import BrokenCheck
from props import c06

LEVEL = "other"


def solve(facts):
    fns = [f for f in facts.fns.values()
           if f["crate"] == "xml_xpath" and f["path"].startswith("xml_xpath::eval::") and f["kind"] in ("Fn", "AssocFn")
           and "body" in f and not f.get("derived") and "::model::" not in f["path"]]
    table = [e["fid"] for e in xptable.entries(facts)]
    it = e5.Interp(facts, table)
    rounds = it.solve(fns)
    return it, fns, rounds


def run(facts, tier):
    res = Result("C07")
    res.explanation = (
        "static: R07-1 typestate interpretation of the evaluator on the typed tree: every Vec<XmlNode> value carries the pair "
        "(sorted by order key, de-duplicated by order key); vec![] / vec![x] establish both, push / append / extend / collect "
        "destroy both, sort_by_cached_key(|v| v.order()) establishes sorted, retain(|v| set.insert(v.order())) establishes "
        "de-duplicated and keeps order, reverse destroys sorted, an order-preserving filter loop inherits from its source; "
        "function summaries (parametric in the node arguments) are a greatest fixpoint over all evaluator functions and the "
        "function table; the value returned by eval::document must be (sorted, de-duplicated). R07-2 = R06-3: the order key "
        "is usable (no node kind answers a constant).")
    res.assumptions = ["that order keys are in document order is C14's clause", "functions outside xml_xpath::eval returning "
                       "node vectors are treated as unsorted and not de-duplicated"]
    it, fns, rounds = solve(facts)
    st = res.rule("R07-1", instances=0, functions=len(fns), fixpoint_rounds=rounds)
    if len(fns) < 36:
        raise BrokenCheck("R07-1: %d evaluator functions (floor 36)" % len(fns))
    doc = facts.fn("xml_xpath::eval::document")
    for name in ("xml_xpath::eval::document", "xml_xpath::eval::eval_union_expr", "xml_xpath::eval::eval_path_expr",
                 "xml_xpath::eval::eval_filter_expr", "xml_xpath::eval::eval_filtered_loc_expr", "xml_xpath::eval::eval_expr"):
        f = facts.fn(name)
        s = it.summary(f["id"])
        res.sample({"rule": "R07-1", "fn": name, "summary": {"sorted": s[0], "dedup": s[1],
                                                             "sorted_if_params": sorted(s[2]), "dedup_if_params": sorted(s[3])}})
    # sinks: every function whose value reaches the caller of query
    for name in ("xml_xpath::eval::document",):
        f = facts.fn(name)
        s = it.summary(f["id"])
        for idx, prop in ((0, "sorted"), (1, "dedup")):
            st["instances"] += 1
            ok = s[idx] and not s[2 + idx]
            res.oblige(1, ok)
            if not ok:
                # blame: the deepest function on the chain whose own body loses the property
                culprit = blame(facts, it, idx)
                cf = facts.fn(culprit) if culprit else f
                res.add(Finding("R07-1", "%s|%s" % (culprit or name, prop),
                                "a node-set returned by query is not guaranteed to be %s: %s returns a vector that was extended "
                                "after the last %s" % ("in document order" if idx == 0 else "duplicate-free", culprit or name,
                                                       "sort_by_cached_key(order)" if idx == 0 else "retain(set.insert(order))"),
                                cf["file"], cf["line"], {}))
    if it.unknown:
        res.notes.append("unknown mutating methods treated conservatively: %s" % sorted(set(it.unknown)))
    c06.r06_3(facts, res, "R07-2")
    # document order of an edited document: the order vector is only as good as the indices used to update it
    import staleidx
    from props import c14
    staleidx.rule(facts, res, "R07-3", lambda f: f["crate"] in ("xml_info", "xml_dom"), floor=5)
    c14.c14_8(facts, res, "R07-4")
    fresh_key_rule(facts, res, "R07-5")
    no_id_in_evaluator(facts, res, "R07-6")
    res.functions_analysed = len(fns)
    from props import c10
    c10.adjacent_dedup(facts, res, "R07-7")      # duplicate-free means no repetition anywhere, not no adjacent repetition
    return res


XPATH_ITEM_KINDS = ("XmlAttribute", "XmlNamespace", "XmlElement", "XmlText", "XmlCData", "XmlComment", "XmlProcessingInstruction",
                    "XmlCharReference", "XmlUnexpandedEntityReference", "XmlDocumentTypeDeclaration")


def fresh_key_rule(facts, res, rule="R07-5"):
    """Node-sets are de-duplicated and sorted by the order key, and the key of an item is looked up by the id of its
    context.  Every construction of an item that XPath can return therefore needs a context of its own (`context.next()`);
    an item built with `context.zero()` has key 0 like every other such item, one built with a *clone* of another item's
    context has that item's key - distinct nodes then count as one node."""
    from facts import walk
    st = res.rule(rule, instances=0)

    def desc(e):
        if e.get("k") == "MethodCall":
            return desc(e["recv"]) + "." + e["m"] + "()"
        if e.get("k") == "Path":
            return e.get("name") or str(e.get("path"))
        if e.get("k") == "Field":
            return desc(e["a"]) + "." + e["name"]
        return str(e.get("k"))
    for f in sorted(facts.fns.values(), key=lambda x: x["path"]):
        if f["crate"] != "xml_info" or "body" not in f or f.get("derived") or "::tests::" in f["path"]:
            continue
        ordn = {}
        for n in walk(f["body"]):
            if n.get("k") != "Struct":
                continue
            kind = str(n.get("path", "")).split("::")[-1]
            if kind not in XPATH_ITEM_KINDS:
                continue
            ce = [fl["e"] for fl in n.get("fields", []) if fl["name"] == "context"]
            if not ce:
                continue
            st["instances"] += 1
            d = desc(ce[0])
            ok = d.endswith(".next()")
            res.oblige(1, ok)
            if not ok:
                ordn[kind] = ordn.get(kind, 0) + 1
                res.add(Finding(rule, "%s|%s#%d" % (f["path"], kind, ordn[kind]), "%s builds a %s whose context is `%s`: the item has no id / order key "
                                "of its own, so distinct nodes of this kind are merged by the key-based de-duplication of node-sets"
                                % (f["path"], kind, d), f["file"], n.get("ln"), {}))
    if st["instances"] < 7:
        raise BrokenCheck("%s: %d item constructions (floor 7)" % (rule, st["instances"]))


def no_id_in_evaluator(facts, res, rule="R07-6"):
    """Node-sets are ordered and de-duplicated by XmlNode::order().  The creation id (XmlNode::id()) follows document order
    only on a freshly parsed document; after an edit a newer node may precede an older one.  The evaluator therefore never
    asks for id()."""
    st = res.rule(rule, instances=0)
    for f in sorted(facts.fns.values(), key=lambda x: x["path"]):
        if f["crate"] != "xml_xpath" or not f["path"].startswith(("xml_xpath::eval::", "xml_xpath::<eval::")) or "mir" not in f or "::tests::" in f["path"]:
            continue
        st["instances"] += 1
        for bi, t in facts.mir_calls(f):
            c = t.get("callee")
            if c and facts.callee_name(c) == "xml_dom::XmlNode::id":
                res.oblige(1, False)
                res.add(Finding(rule, f["path"] + "|id", "%s calls XmlNode::id(): creation order is not document order on an edited document; "
                                "sort, compare and de-duplicate by order()" % f["path"], f["file"], t.get("ln"), {}))
    if st["instances"] < 36:
        raise BrokenCheck("%s: %d evaluator functions (floor 36)" % (rule, st["instances"]))


def summary_rule(facts, res, rule="R07-1"):
    """Node-sets answered by a query are sorted by the order key and free of duplicates (typestate fixpoint of C07)."""
    it, fns, rounds = solve(facts)
    s = it.summary(facts.fn("xml_xpath::eval::document")["id"])
    res.rule(rule, instances=2)
    for idx, prop in ((0, "sorted"), (1, "dedup")):
        ok = s[idx] and not s[2 + idx]
        res.oblige(1, ok)
        if not ok:
            who = blame(facts, it, idx)
            res.add(Finding(rule, "document|" + prop, "node-sets returned by query are not guaranteed to be %s (by their order key)%s"
                            % (prop, (": " + who) if who else ""), None, None, {}))


def blame(facts, it, idx):
    """The function whose own body loses the property even when every callee is assumed to keep it."""
    saved = dict(it.summ)
    try:
        for k in it.summ:
            it.summ[k] = e5.TOP
        names = ["eval_union_expr", "eval_path_expr", "eval_filter_expr", "eval_filtered_loc_expr", "eval_primary_expr",
                 "eval_func_expr", "filter_by_predicate", "eval_expr", "document"]
        for n in names:
            f = facts.fn_opt("xml_xpath::eval::" + n)
            if f is None:
                continue
            v = it.fn_value(f)
            # eval_filtered_loc_expr legitimately returns a sorted, not yet de-duplicated vector (eval_union_expr finishes it)
            if n == "eval_filtered_loc_expr" and idx == 1:
                continue
            if not v[idx]:
                return "xml_xpath::eval::" + n
    finally:
        it.summ = saved
    return None
