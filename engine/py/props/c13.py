"""C13 — DOM mutators: no panic (R13-1), no mutation before a failure (R13-2), exception table (R13-3)."""
import re

import dom1
import e1
import e4
import entries
import mutset
import reasons_e1
from common import Finding, Result
from facts import BrokenCheck, walk

LEVEL = "other"

# (function, mutating callee suffix, failing exit) confirmed harmless by reading; one reason each
R13_2_REASONS = {
    ("remove_child", "delete"): "`delete` answers None exactly when delete_by_id found no such child and changed nothing; "
                                "the error is raised only on None",
    ("split_text", "split_at"): "after split_at the insert cannot fail: the new node is a Text/CData item (accepted by "
                                "element and attribute), has no ancestors, and OufOfIndex is turned into append",
    ("split_text", "insert_after"): "the Err(e) arm is for errors other than OufOfIndex, which insert_after cannot raise "
                                    "for a fresh text item (see split_at)",
    ("replace_child", "insert_before"): "remove_child(old) cannot fail after insert_before(new, old) succeeded: old was "
                                        "just found as a child of self and belongs to self's document",
}


def fresh_receiver(facts, f, defs, t, ctor_names):
    """Is the receiver (first argument) of the mutating call derived from a value built in this function?"""
    if not t.get("args"):
        return False
    seen = set()

    def go(op, depth=0):
        l = e1.local_of(op)
        if l is None or depth > 10 or l in seen:
            return False
        seen.add(l)
        for kind, bb, x in defs.get(l, []):
            if kind == "call":
                c = x.get("callee")
                if not c:
                    continue
                n = facts.callee_name(c)
                if mutset.is_constructor(n) or n in ctor_names:
                    return True
                short = n.split("::")[-1]
                if short in ("borrow_mut", "borrow", "deref", "deref_mut", "unwrap", "clone", "as_ref", "as_mut",
                             "branch", "map_err", "expect") or short.startswith("as_") or n.endswith("::from"):
                    for a in x.get("args", [])[:1]:
                        if go(a, depth + 1):
                            return True
            else:
                for o in x.get("ops", []):
                    if go(o, depth + 1):
                        return True
        return False
    return go(t["args"][0])


def r13_2(facts, res, roots):
    mm, direct = mutset.may_mutate_closure(facts)
    reach, _ = facts.reachable(roots)
    st = res.rule("R13-2", instances=0, functions=0, mutating_calls=0, may_mutate_functions=len(mm),
                  direct_mutators=len(direct), reasoned=0, fresh_receiver_skipped=0)
    if len(direct) < 24:
        raise BrokenCheck("R13-2: only %d direct mutators recognised (floor 24)" % len(direct))
    dom_ctors = {f["path"] for f in facts.fns.values() if f["path"].startswith("xml_dom::<XmlDocument as DocumentMut>::create_")}

    def may_mutate(t):
        c = t.get("callee")
        if not c:
            # indirect call: any compatible stored function that may mutate
            return None
        cn = c.get("rpathargs") or c.get("pathargs") or ""
        if "dyn " in cn and re.search(r"as std::ops::Fn(Mut|Once)?<", cn):
            import facts as FM
            e = {"sig": FM._dyn_args(cn)}
            for a in facts.dyn_targets(e):
                if a in mm:
                    return "<stored fn> " + facts.fns[a]["path"]
            return None
        cid = facts.callee_id(c)
        if cid in mm:
            return facts.fns[cid]["path"]
        if "trait" in c and "rid" not in c:
            for i in facts.impls_of.get(c["id"], []):
                if i in mm:
                    return facts.callee_name(c)
        return None

    # a reason written for a method also covers the private pieces that method is split into
    piece_cache = {}

    def piece_of(g):
        if not str(g.get("vis", "")).startswith("Restricted"):
            return ()
        if not piece_cache:
            for name in {k[0] for k in R13_2_REASONS}:
                for h in facts.fns.values():
                    if h["path"].split("::")[-1] == name and h["crate"] in ("xml_dom", "xml_info") and "body" in h:
                        for x in facts.family(h):
                            if x["id"] != h["id"]:
                                piece_cache.setdefault(x["id"], set()).add(name)
            piece_cache.setdefault(None, set())
        return piece_cache.get(g["id"], ())

    for fid in sorted(reach, key=lambda i: facts.fns[i]["path"]):
        f = facts.fns[fid]
        if f["crate"] not in ("xml_dom", "xml_info") or fid not in mm or mutset.is_constructor(f["path"]):
            continue
        defs = e1.def_sites(facts, f)
        nm, viol = e4.effects_before_failure(facts, f, may_mutate, lambda t: e4.returns_result(facts, t))
        st["functions"] += 1
        st["mutating_calls"] += nm
        seen = set()
        blocks = facts.blocks(f)
        for v in viol:
            mshort = v["mut"].split("::")[-1]
            fshort = f["path"].split("::")[-1]
            key = "%s|%s|%s" % (f["path"], v["mut"], v["err"])
            if key in seen:
                continue
            seen.add(key)
            st["instances"] += 1
            mt = blocks[v["mut_bb"]]["term"]
            if f["path"] in dom_ctors or fresh_receiver(facts, f, defs, mt, dom_ctors):
                st["fresh_receiver_skipped"] += 1
                res.oblige(1, True)
                continue
            if (fshort, mshort) in R13_2_REASONS or any((r, mshort) in R13_2_REASONS for r in piece_of(f)):
                st["reasoned"] += 1
                res.oblige(1, True)
                continue
            res.oblige(1, False)
            res.add(Finding("R13-2", key,
                            "%s calls %s (may change the document, line %s) and can afterwards leave with an error (%s, line %s): "
                            "a failing call is not atomic" % (f["path"], v["mut"], v["mut_line"], v["err"], v["err_line"]),
                            f["file"], v["err_line"], v))
    if st["functions"] < 18:
        raise BrokenCheck("R13-2: only %d functions analysed (floor 18)" % st["functions"])


def exceptions_in(node):
    out = []
    for n in walk(node):
        if n.get("k") == "Path" and str(n.get("path", "")).startswith("xml_dom::error::DomException::"):
            out.append(n["path"].split("::")[-1])
    return out


def bodies_with_helpers(facts, f, depth=0, seen=None):
    """The body of f and of the private free functions of the crate it calls or hands on as a value
    (`.map_err(insert_before_exception)`): the error mapping of a mutator may be factored out into one of those."""
    seen = seen if seen is not None else {f["id"]}
    out = [f["body"]]
    if depth >= 2:
        return out
    for n in walk(f["body"]):
        if n.get("k") not in ("Path", "MethodCall"):
            continue
        g = facts.fns.get(n.get("rid") or n.get("id"))
        if g is None or g["id"] in seen or "body" not in g or g["crate"] != f["crate"] or g["kind"] not in ("Fn", "AssocFn"):
            continue
        if not str(g.get("vis", "")).startswith("Restricted") or g["path"] in dom1.EXC or " as " in g["path"]:
            continue        # private free functions and private inherent methods; trait methods are API of their own
        seen.add(g["id"])
        out += bodies_with_helpers(facts, g, depth + 1, seen)
    return out


def r13_3(facts, res):
    st = res.rule("R13-3", instances=0, arms=0)
    for path, want in sorted(dom1.EXC.items()):
        f = facts.fn(path)
        st["instances"] += 1
        bodies = bodies_with_helpers(facts, f)
        have = set(x for b in bodies for x in exceptions_in(b))
        if isinstance(want, tuple):
            ok = want[0] <= have <= want[1]
            want = want[1]
        else:
            ok = have == want
        res.oblige(1, ok)
        if not ok:
            res.add(Finding("R13-3", path, "%s raises %s, DOM Level 1 table says %s" % (path, sorted(have), sorted(want)),
                            f["file"], f["line"], {"have": sorted(have), "want": sorted(want)}))
        # arm constraints
        for n in (m for b in bodies for m in walk(b)):
            if n.get("k") == "Match":
                for arm in n["arms"]:
                    pat_paths = [str(p.get("path", "")) for p in walk(arm["pat"]) if "path" in p]
                    for variant, exc in dom1.ARM.items():
                        if any(pp.endswith("::" + variant) for pp in pat_paths):
                            got = exceptions_in(arm["body"])
                            if not got:
                                continue   # the arm recovers (e.g. falls back to append) instead of raising
                            st["arms"] += 1
                            good = got == [exc]
                            res.oblige(1, good)
                            if not good:
                                res.add(Finding("R13-3", "%s|arm:%s" % (path, variant),
                                                "%s maps info error %s to %s, expected %s" % (path, variant, got, exc),
                                                f["file"], arm.get("ln"), {}))
        # the foreign-document test comes first: WrongDocumentErr must be built before any call that may mutate
    if st["instances"] < 21 or st["arms"] < 2:
        raise BrokenCheck("R13-3: %d functions / %d arms (floor 21 / 2)" % (st["instances"], st["arms"]))


def r13_3_wrong_doc_first(facts, res):
    """In the three insert_before / remove_child impls the owner-document comparison dominates the first call
    into the information set that may mutate (WrongDocumentErr before anything else)."""
    mm, _ = mutset.may_mutate_closure(facts)
    st = res.rule("R13-3b", instances=0)
    st_c = res.rule("R13-3c", instances=0)
    seen_c = set()
    for ty in ("XmlDocument", "XmlElement", "XmlAttr"):
        for meth in ("insert_before", "remove_child"):
            f = facts.fn("xml_dom::<%s as NodeMut>::%s" % (ty, meth))
            st["instances"] += 1
            blocks = facts.blocks(f)
            succ = e1.cfg(facts, f)
            dom, _p = e1.dominators(succ)
            tests = owner_document_tests(facts, f)
            cmp_bbs = [bi for bi, _t, _k in tests]
            for bi, t, kind in tests:
                st_c["instances"] += 1
                ok_c = kind == "identity"
                res.oblige(1, ok_c)
                if not ok_c and (f["path"], "structural") not in seen_c:
                    seen_c.add((f["path"], "structural"))
                    res.add(Finding("R13-3c", f["path"], "%s decides `wrong document` with %s, i.e. by comparing the *content* of the two owner "
                                    "documents: a node of another document with equal content passes the test and is moved across "
                                    "documents instead of raising WrongDocumentErr" % (f["path"], facts.callee_name(t["callee"])),
                                    f["file"], t.get("ln"), {}))
            mut_bbs = [bi for bi, t in facts.mir_calls(f) if t.get("callee") and
                       (facts.callee_id(t["callee"]) in mm or any(i in mm for i in facts.impls_of.get(t["callee"].get("id"), [])))]
            ok = bool(cmp_bbs) and bool(mut_bbs) and all(any(c in dom[m] for c in cmp_bbs) for m in mut_bbs)
            res.oblige(1, ok)
            if not ok:
                res.add(Finding("R13-3b", f["path"], "%s: the owner-document comparison does not dominate every call that "
                                "may change the tree (comparisons in blocks %s, mutating calls in %s)" % (f["path"], cmp_bbs, mut_bbs),
                                f["file"], f["line"], {}))


def r13_3c_everywhere(facts, res):
    """Every other owner-document comparison in xml_dom (set_attribute_node, fragments, named node maps ...)."""
    st_c = res.rule("R13-3c")
    done = {k.key for k in res.findings if k.rule == "R13-3c"}
    for f in sorted(facts.fns.values(), key=lambda x: x["path"]):
        if f["crate"] != "xml_dom" or "mir" not in f or f.get("derived"):
            continue
        if re.search(r"as NodeMut>::(insert_before|remove_child)$", f["path"]) and re.search(r"<Xml(Document|Element|Attr) as", f["path"]):
            continue
        for bi, t, kind in owner_document_tests(facts, f):
            st_c["instances"] += 1
            res.oblige(1, kind == "identity")
            if kind != "identity" and f["path"] not in done:
                done.add(f["path"])
                res.add(Finding("R13-3c", f["path"], "%s decides `wrong document` with %s, i.e. by comparing the *content* of the two owner "
                                "documents: a node of another document with equal content passes the test"
                                % (f["path"], facts.callee_name(t["callee"])), f["file"], t.get("ln"), {}))
    if st_c["instances"] < 3:
        raise BrokenCheck("R13-3c: %d owner-document tests (floor 3)" % st_c["instances"])


def owner_document_tests(facts, f):
    """Call sites in f that compare two owner documents: [(bb, terminator, 'structural' | 'identity')].
    structural: PartialEq on (Option<)XmlDocument - the derived eq goes through Rc<RefCell<..>> to the content;
    identity:   a workspace predicate over two documents whose body calls Rc::ptr_eq and no PartialEq on documents."""
    out = []
    for bi, t in facts.mir_calls(f):
        c = t.get("callee")
        if not c:
            continue
        name = facts.callee_name(c)
        pa = c.get("rpathargs") or c.get("pathargs") or ""
        if re.search(r"PartialEq.*::(ne|eq)$|::ne$|::eq$", name) and "XmlDocument" in pa:
            out.append((bi, t, "structural"))
            continue
        g = facts.fns.get(facts.callee_id(c))
        if g is not None and g["crate"] == "xml_dom" and g.get("sig", "").count("XmlDocument") >= 2 and g["sig"].rstrip().endswith("-> bool") \
                and "mir" in g:
            names = [(x.get("callee") or {}).get("rpathargs") or (x.get("callee") or {}).get("pathargs") or "" for _b, x in facts.mir_calls(g)]
            ptr = any(re.search(r"Rc::<.*>::ptr_eq$", n) for n in names)
            struct = any(re.search(r"PartialEq", n) and "XmlDocument" in n for n in names)
            out.append((bi, t, "identity" if ptr and not struct else "structural"))
    return out


def r13_5(facts, res, rule="R13-5"):
    """With text expansion on, XmlElement::children() hands out *merged* text nodes (XmlNode::ExpandedText) whose id() is the id
    of their first piece only.  A mutator of XmlElement that removes the node a caller passes in has to treat that variant
    separately, otherwise only the first piece goes and the parent still lists the rest."""
    from facts import walk
    st = res.rule(rule, instances=0)
    ch = facts.fn("xml_dom::<XmlElement as HasChild>::children")
    merges = any(str(n.get("path", "")).endswith("XmlExpandedText::from") or "XmlExpandedText" in str(n.get("ty", "")) for n in walk(ch["body"]))
    if not merges:
        return
    for meth in ("remove_child",):
        f = facts.fn("xml_dom::<XmlElement as NodeMut>::%s" % meth)
        st["instances"] += 1
        handles = any(str(p.get("path", "")).endswith("XmlNode::ExpandedText") for p in walk(f["body"]) if p.get("p"))
        res.oblige(1, handles)
        if not handles:
            res.add(Finding(rule, "XmlElement::" + meth, "%s removes the node by XmlNode::id(), which for a merged text node is the id of its "
                            "first piece: the other pieces stay in the element (no case for XmlNode::ExpandedText)" % f["path"],
                            f["file"], f["line"], {}))


OWN_ERRORS = {
    # default methods of xml_info::HasChildren: error variants they may construct themselves (everything else comes from
    # insert_by_id, which refuses wrong kinds and cycles before it changes anything)
    "xml_info::HasChildren::append": (set(), "appending needs no reference child: nothing can be `not found`"),
    "xml_info::HasChildren::insert_before": ({"OufOfIndex"}, "the reference child is not a child"),
    "xml_info::HasChildren::insert_after": ({"OufOfIndex"}, "the reference child is not a child"),
    "xml_info::HasChildren::delete": (set(), "answers None for a node that is not a child"),
}


def r13_7(facts, res, rule="R13-7"):
    """The core insert / delete operations fail only for the reasons the DOM mapping knows (xml_dom maps OufOfIndex to
    NotFoundErr and everything else to HierarchyRequestErr): an error constructed in append itself - e.g. because the parent
    has no place in the order vector - makes append_child fail on a legitimate call."""
    from facts import walk
    st = res.rule(rule, instances=0)
    for path, (allowed, why) in OWN_ERRORS.items():
        f = facts.fn(path)
        st["instances"] += 1
        made = set()
        for n in walk(f["body"]):
            if n.get("k") in ("Path", "Call"):
                pth = str(n.get("path") or n.get("f", {}).get("path") or "")
                if "error::Error::" in pth and str(n.get("res") or n.get("f", {}).get("res", "")).startswith("Ctor"):
                    made.add(pth.split("::")[-1])
        extra = made - allowed
        res.oblige(1, not extra)
        if extra:
            res.add(Finding(rule, path.split("::")[-1], "%s constructs %s itself (allowed: %s - %s): a call that DOM Level 1 permits fails"
                            % (path, sorted(extra), sorted(allowed) or "none", why), f["file"], f["line"], {}))


def run(facts, tier):
    res = Result("C13")
    res.explanation = (
        "static: R13-1 panic-site reachability from every method of the *Mut traits of xml_dom; R13-2 for every function "
        "reachable from those methods that may change document state, a path analysis on the MIR CFG finds calls that may "
        "mutate (call-graph closure of the functions containing RefCell::borrow_mut or a write through &mut self of an "
        "item type, minus constructors of fresh items and non-observable bookkeeping) followed on some path by an error "
        "exit (`Err(..)`, `?`, or a tail-returned fallible call) that does not stem from the mutating call itself; "
        "R13-3 the DomException variants each mutator constructs are compared with the DOM Level 1 exception table, "
        "OufOfIndex arms must map to NotFoundErr, the owner-document test dominates every mutating call (R13-3b) and compares "
        "identity, not content (R13-3c).")
    res.assumptions = ["unwind edges ignored; RefCell conflicts are claimed only where a live RefMut / Ref and the conflicting call are in one function (R13-8)",
                       "that a successful call performs exactly the DOM Level 1 change is not decided"]
    roots = entries.c13(facts)
    if len(roots) < 27:
        raise BrokenCheck("C13: %d entry points (floor 27)" % len(roots))
    reach0, _ = facts.reachable(roots)
    reasons, verdicts = reasons_e1.resolve(facts, reach0)
    reach, parent = e1.panic_rule(facts, res, "R13-1", roots, reasons, {})
    res.extra["preconditions"] = {k: v[1] for k, v in verdicts.items()}
    res.functions_analysed = len(reach)
    r13_2(facts, res, roots)
    r13_3(facts, res)
    r13_3_wrong_doc_first(facts, res)
    r13_3c_everywhere(facts, res)
    r13_5(facts, res)
    r13_7(facts, res)
    import registry
    registry.rule(facts, res, "R13-10")     # an attached node is the registered one (its children find it)
    from props import c15
    c15.r15_3(facts, res, "R13-9")     # invalid-character errors of the factories
    import borrowck
    borrowck.rule(facts, res, "R13-8", reach, floor=10)
    # index-size errors of the data setters: the bounds guards of C16 (offset > length raises, a count past the end is clipped)
    from props import c16
    c16.guard_rules(facts, res, "R13-6", "R13-6c")
    import staleidx
    staleidx.rule(facts, res, "R13-4", lambda f: f["crate"] in ("xml_info", "xml_dom"), floor=5)
    # the effect of append_child / insert_before on a node that is already in the tree includes its place in document order:
    # the order table drops the old key first (C14-4)
    from props import c14
    c14.c14_4(facts, res, "R13-11")
    r13_12(facts, res)
    r13_13(facts, res)
    return res


def r13_13(facts, res, rule="R13-13"):
    """InuseAttributeErr: "the Attr is already an attribute of another Element".  Whether an Attr belongs to an element is
    state of the Attr (its order key / parent id).  A test that instead *looks the owner up* goes through the id registry, whose
    weak entries die when the owner element is detached from the tree (known finding R12-8): the attribute of a removed or
    never-inserted element then passes as free and ends up in two attribute maps."""
    st = res.rule(rule, instances=0)
    reg = facts.fn("xml_info::Context::node")["id"]
    for f in facts.fns.values():
        if f["crate"] != "xml_dom" or "body" not in f or f.get("derived") or f.get("test"):
            continue
        for n in walk(f["body"]):
            if n.get("k") != "If" or not any(str(m.get("path", "")).endswith("DomException::InuseAttributeErr") for m in walk(n["then"])):
                continue
            if any(x.get("k") == "If" and x is not n and any(str(m.get("path", "")).endswith("DomException::InuseAttributeErr") for m in walk(x["then"]))
                   for x in walk(n["then"])):
                continue        # an enclosing conditional; the inner one is the test
            st["instances"] += 1
            ids = [m.get("rid") or m.get("id") for m in walk(n["cond"]) if m.get("k") == "MethodCall"] + \
                  [m["f"].get("rid") or m["f"].get("id") for m in walk(n["cond"]) if m.get("k") == "Call" and m["f"].get("k") == "Path"]
            ids = [i for i in ids if i in facts.fns]
            reach, _ = facts.reachable(ids)
            bad = reg in reach or reg in ids
            res.oblige(1, not bad)
            if bad:
                via = [facts.fns[i]["path"] for i in ids if reg in facts.reachable([i])[0]]
                res.add(Finding(rule, "%s|in-use" % facts.root_of(f)["path"], "%s decides InuseAttributeErr through %s, which looks the owner up in the id "
                                "registry (Context::node): the entry of a detached owner element is dead, so its attributes pass as free"
                                % (f["path"], via[:2]), f["file"], n.get("ln"), {}))
    if st["instances"] < 1:
        raise BrokenCheck("%s: no test guards InuseAttributeErr in xml_dom (floor 1)" % rule)


def r13_12(facts, res, rule="R13-12"):
    """remove_child of a merged text node removes all of its pieces (text, CDATA sections and references alike): the loop over
    `text.data` after the first piece deletes every piece - no filter on the kind of piece, no other skipping."""
    st = res.rule(rule, instances=0)
    for f in sorted(facts.fns.values(), key=lambda x: x["path"]):
        if f["crate"] != "xml_dom" or "body" not in f or not f["path"].endswith("NodeMut>::remove_child"):
            continue
        for n in walk(f["body"]):
            if n.get("k") != "Match" or n.get("src") != "ForLoop":
                continue
            sc = n.get("scrut", {})
            it = sc["args"][0] if sc.get("k") == "Call" and sc.get("args") else None
            if it is None:
                continue
            # resolve an iterator kept in a local (`let rest = text.data.iter().skip(1); for piece in rest.filter(..)`)
            chain, r, hops = [], it, 0
            while isinstance(r, dict) and hops < 12:
                hops += 1
                if r.get("k") == "MethodCall":
                    chain.append(r)
                    r = r.get("recv")
                elif r.get("k") == "Path" and r.get("res") == "Local":
                    init = None
                    for l in walk(f["body"]):
                        if l.get("s") == "Let" and l.get("pat", {}).get("p") == "Bind" and l["pat"].get("lid") == r.get("lid") and "init" in l:
                            init = l["init"]
                    if init is None:
                        break
                    r = init
                elif r.get("k") in ("AddrOf",):
                    r = r["a"]
                else:
                    break
            over_pieces = isinstance(r, dict) and r.get("k") == "Field" and r.get("name") == "data" and "ExpandedText" in str(r.get("basety", ""))
            if not over_pieces:
                continue
            st["instances"] += 1
            names_ = [c["m"] for c in chain]
            skips = [c for c in chain if c["m"] == "skip"]
            ok = set(names_) <= {"iter", "skip", "cloned", "copied", "into_iter"} and len(skips) <= 1 and \
                all(c["args"] and c["args"][0].get("k") == "Lit" and int(c["args"][0].get("v", 9)) == 1 for c in skips) and \
                any(m.get("k") == "MethodCall" and m.get("m") == "delete" for m in walk(n["arms"]))
            res.oblige(1, ok)
            if not ok:
                res.add(Finding(rule, f["path"],
                                "%s: the pieces of a merged text node are walked with %s: a piece that is skipped (a CDATA section, a "
                                "reference) stays in the element after its text node was removed" % (f["path"], list(reversed(names_))),
                                f["file"], n.get("ln"), {}))
    if st["instances"] < 1:
        raise BrokenCheck("%s: no loop over the pieces of a merged text node found in a remove_child" % rule)
