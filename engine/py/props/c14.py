"""C14 — document order survives edits."""
import re

import e1
import e6
from common import Finding, Result
from facts import BrokenCheck, walk
from props import c06, c12

LEVEL = "other"


def affine(facts, f, defs, op, depth=0):
    """(base producer name, constant offset) of a usize operand, following copies and +/- constants."""
    if isinstance(op, dict):
        v = e1.const_int(op)
        return ("const", v) if v is not None else ("?", 0)
    l = e1.local_of(op)
    if l is None or depth > 8:
        return ("?", 0)
    ds = defs.get(l, [])
    if len(ds) != 1:
        if 1 <= l <= f["mir"]["argc"]:
            return ("arg:" + (f["mir"]["locals"][l].get("name") or str(l)), 0)
        return ("?", 0)
    kind, _, x = ds[0]
    if kind == "call":
        c = x.get("callee")
        return ("call:" + facts.callee_name(c).split("::")[-1] if c else "call:?", 0)
    rv = x["rv"]
    if rv in ("Use", "Cast"):
        return affine(facts, f, defs, x["ops"][0], depth + 1)
    if rv == "BinaryOp" and x["op"] in ("Add", "Sub", "AddWithOverflow", "SubWithOverflow", "AddUnchecked", "SubUnchecked"):
        a = affine(facts, f, defs, x["ops"][0], depth + 1)
        b = affine(facts, f, defs, x["ops"][1], depth + 1)
        sign = -1 if "Sub" in x["op"] else 1
        if b[0] == "const":
            return (a[0], a[1] + sign * b[1])
        if a[0] == "const" and sign == 1:
            return (b[0], b[1] + a[1])
    return ("?", 0)


def _delegated(facts, f, vop, off):
    """-> (ok, why) when f hands its work to one private method of DocumentOrder with literal bool arguments, else None"""
    import guards
    import idxproof
    calls = [m for m in walk(f["body"]) if m.get("k") == "MethodCall" and (m.get("rid") or m.get("id")) in facts.fns
             and facts.fns[m.get("rid") or m.get("id")].get("impl_self") == "DocumentOrder"
             and facts.fns[m.get("rid") or m.get("id")]["path"].split("::")[-1] not in ("get", "remove", "push")]
    if len(calls) != 1:
        return None
    h = facts.fns[calls[0].get("rid") or calls[0].get("id")]
    flags = [a.get("v") for a in calls[0].get("args", []) if a.get("k") == "Lit" and a.get("t") == "bool"]
    bl = idxproof._bool_params(h)
    if not bl or len(flags) != len(bl) or "body" not in h:
        return None
    r = idxproof.order_slot(facts, h, None, vop)
    if not r or tuple(flags) not in r:
        return None
    a, g = r[tuple(flags)]
    why = []
    if a != ("call:get", off):
        why.append("index is %s%+d, expected get(id)%+d" % (a[0], a[1], off))
    if not g:
        why.append("not guarded by get(id) > 0")
    if vop == "insert":
        seq = [n for n, _ in guards.ordered(h["body"]) if n.get("k") == "MethodCall" and isinstance(n.get("recv"), dict)
               and (n["recv"].get("name") == "self" or n.get("m") == vop)]
        names = [n["m"] for n in seq]
        if "remove" not in names or names.index("remove") > min(names.index(x) for x in ("get", vop) if x in names):
            why.append("the old key of the node is not removed (DocumentOrder::remove) before the position is looked up and the new key inserted")
    return (not why, why)


def c14_4(facts, res, rule="C14-4"):
    """Affine index expressions of the three DocumentOrder updates and of get()."""
    # ---- C14-4 affine index
    st4 = res.rule(rule, instances=0)
    want = {"insert_after": ("insert", 0), "insert_before": ("insert", -1), "remove": ("remove", -1)}
    for name, (vop, off) in want.items():
        f = facts.fn("xml_info::DocumentOrder::" + name)
        defs = e1.def_sites(facts, f)
        st4["instances"] += 1
        vc = c12.calls(facts, f, lambda n, v=vop: n == "std::vec::Vec::<T, A>::" + v)
        ok = len(vc) == 1
        why = []
        if not vc:
            # the update is delegated to a private helper that is told by flags which side to take
            # (`self.insert_beside(id, info, true)`): the helper is read on the typed tree under the flags this caller passes
            dv = _delegated(facts, f, vop, off)
            if dv is not None:
                ok, why = dv
                res.oblige(1, ok)
                res.sample({"rule": rule, "fn": f["path"], "index": "get(id)%+d (through a flag-parameterised helper)" % off, "verdict": "ok" if ok else why})
                if not ok:
                    res.add(Finding(rule, name, "%s: %s" % (f["path"], "; ".join(why)), f["file"], f["line"], {}))
                continue
        if ok:
            bi, t = vc[0]
            a = affine(facts, f, defs, t["args"][1])
            if a != ("call:get", off):
                ok = False
                why.append("index is %s%+d, expected get(id)%+d" % (a[0], a[1], off))
            if not e1.guarded_positive(facts, f, bi, t["args"][1]) and not _guard_on_get(facts, f, defs, bi):
                ok = False
                why.append("not guarded by get(id) > 0")
        else:
            why.append("expected exactly one Vec::%s" % vop)
        if name in ("insert_after", "insert_before") and vc:
            # a node that is moved still has its old key: it is dropped before the reference position is looked up and before
            # the new key is inserted (otherwise the table holds two keys for the node and get() answers the old one)
            succ = e1.cfg(facts, f)
            dom, _ = e1.dominators(succ)
            rm = [bi for bi, t in facts.mir_calls(f) if t.get("callee") and facts.callee_name(t["callee"]) == "xml_info::DocumentOrder::remove"]
            gets = [bi for bi, t in facts.mir_calls(f) if t.get("callee") and facts.callee_name(t["callee"]) == "xml_info::DocumentOrder::get"]
            if not rm or not all(any(r in dom[x] for r in rm) for x in [vc[0][0]] + gets):
                ok = False
                why.append("the old key of the node is not removed (DocumentOrder::remove) before the position is looked up and the new key inserted")
        res.oblige(1, ok)
        res.sample({"rule": rule, "fn": f["path"], "index": "get(id)%+d" % off, "verdict": "ok" if ok else why})
        if not ok:
            res.add(Finding(rule, name, "%s: %s" % (f["path"], "; ".join(why)), f["file"], f["line"], {}))
    # get = position + 1
    f = facts.fn("xml_info::DocumentOrder::get")
    # `.position(..).map(|v| v + 1)` keeps the increment in a closure, `for (i, w) in ..enumerate() { .. return i + 1 }` in get itself
    clo = [x for x in facts.fns.values() if x.get("parent") == f["path"]] + [f]
    okg = False
    for c in clo:
        for b in facts.blocks(c):
            t = b["term"]
            if t["k"] == "Assert" and t["assert"] == "Overflow(Add)" and e1.is_const(t["ovf_ops"][1], "1"):
                okg = True
    st4["instances"] += 1
    res.oblige(1, okg)
    if not okg:
        res.add(Finding(rule, "get", "DocumentOrder::get is not `position + 1`", f["file"], f["line"], {}))


def run(facts, tier):
    res = Result("C14")
    res.explanation = (
        "static: C14-1 in the default methods of HasChildren the order vector is updated around every attach / detach "
        "(set_order_after / set_order_before dominate insert_by_id, clear_order follows delete_by_id; MIR dominance); "
        "C14-2 the function that assigns order on the attach path reaches all descendants and attributes (call-graph shape); "
        "C14-3 DocumentOrder::push (append at the end) is reachable only from the initial numbering in XmlDocument::new; "
        "C14-4 the index passed to Vec::insert / Vec::remove in DocumentOrder::{insert_after, insert_before, remove} is the "
        "affine expression g, g-1, g-1 of g = get(id), each under the guard g > 0; C14-5 initial numbering visits element, "
        "namespace attributes, attributes, children in that order; C14-6 = R06-3 (order-key delegation per node kind).")
    res.assumptions = ["the consequence (query on the edited document = query on a re-parsed copy) is not decided"]
    # ---- C14-1
    st = res.rule("C14-1", instances=0)
    for meth, before, after in (("append", "set_order_after", None), ("insert_before", "set_order_before", None),
                                ("delete", None, "clear_order")):
        f = facts.fn("xml_info::HasChildren::" + meth)
        st["instances"] += 1
        succ = e1.cfg(facts, f)
        dom, _ = e1.dominators(succ)
        core = "delete_by_id" if meth == "delete" else "insert_by_id"
        cb = c12.calls(facts, f, lambda n, c=core: n.endswith("::" + c))
        ok = bool(cb)
        why = []
        if before:
            bb = c12.calls(facts, f, lambda n, b=before: n.endswith("::" + b))
            if not bb or not all(any(b in dom[c] for b, _ in bb) for c, _ in cb):
                ok = False
                why.append("%s does not dominate %s" % (before, core))
        if after:
            ab = c12.calls(facts, f, lambda n, a=after: n.endswith("::" + a))
            somes = c12.ok_blocks(facts, f, "Some")
            if not ab or not c12.unreachable_without(facts, f, somes, {b for b, _ in ab}):
                ok = False
                why.append("a Some(..) exit of delete does not pass %s" % after)
        res.oblige(1, ok)
        if not ok:
            res.add(Finding("C14-1", "HasChildren::" + meth, "%s: %s" % (f["path"], "; ".join(why) or "core call missing"), f["file"], f["line"], {}))
    # ---- C14-2 subtree renumbering on attach
    st2 = res.rule("C14-2", instances=0)
    for name in ("set_order_after", "set_order_before"):
        f = facts.fn("xml_info::HasContext::" + name)
        st2["instances"] += 1
        reach, _ = facts.reachable([f["id"]])
        visits_children = any(facts.fns[x]["path"].endswith("init_order_recursive") or
                              "children" in facts.fns[x]["path"].split("::")[-1] for x in reach)
        res.oblige(1, visits_children)
        if not visits_children:
            res.add(Finding("C14-2", "HasContext::" + name,
                            "%s moves the key of one item only: nothing reachable from it visits the item's attributes or "
                            "descendants, so a moved subtree keeps its old keys" % f["path"], f["file"], f["line"],
                            {"reachable": sorted(facts.fns[x]["path"] for x in reach)}))
    # ---- C14-3 push only from the initial numbering
    st3 = res.rule("C14-3", instances=0)
    # callers chain: push <- init_order <- init_order_recursive (all impls) <- ?
    allowed_roots = {"xml_info::XmlDocument::new"}
    rec = {f["id"] for f in facts.fns.values() if f["path"].endswith("init_order_recursive")}
    if len(rec) < 6:
        raise BrokenCheck("C14-3: %d init_order_recursive functions (floor 6)" % len(rec))
    # who appends at the end of the order vector: found by what it does (Vec::push on the field `order` of DocumentOrder), so
    # the helper DocumentOrder::push may exist or be inlined into init_order
    from facts import walk as _walk
    appenders = sorted({g["path"] for g in facts.fns.values() if g["crate"] == "xml_info" and "body" in g and "::tests::" not in g["path"] and
                        any(n.get("k") == "MethodCall" and n.get("m") == "push" and
                            any(x.get("k") == "Field" and x.get("name") == "order" and "DocumentOrder" in str(x.get("basety", ""))
                                for x in _walk(n.get("recv", {}))) for n in _walk(g["body"]))})
    if not appenders:
        raise BrokenCheck("C14-3: no function appends to DocumentOrder.order")
    pushers = e6.callers_of(facts, lambda n: n == "xml_info::DocumentOrder::push")
    bad_app = [a for a in appenders if a not in ("xml_info::DocumentOrder::push", "xml_info::HasContext::init_order")]
    bad_call = [c["path"] for c, _ in pushers if c["path"] != "xml_info::HasContext::init_order"]
    if bad_app or bad_call:
        res.add(Finding("C14-3", "push-callers", "the order vector is appended to by %s, DocumentOrder::push is called from %s (expected only "
                        "HasContext::init_order)" % (appenders, [c["path"] for c, _ in pushers]), None, None, {}))
    io = e6.callers_of(facts, lambda n: n == "xml_info::HasContext::init_order")
    for c, e in io:
        if c["id"] not in rec:
            res.add(Finding("C14-3", "init_order<-" + c["path"], "init_order (append at the end of the order vector) is called from %s" % c["path"],
                            c["file"], e.get("line"), {}))
    outside = {}
    for fid, es in facts.edges().items():
        if fid in rec:
            continue
        for e in es:
            if e["to"] in rec and e["kind"] in ("call", "cha", "fwd", "mention"):
                # named after the function whose piece the caller is (set_values -> adopt_values keeps the key set_values)
                outside.setdefault(facts.root_of(facts.fns[fid])["path"], e)
    for p, e in sorted(outside.items()):
        st3["instances"] += 1
        ok = p in allowed_roots
        res.oblige(1, ok)
        if not ok:
            fn = facts.fn(p)
            res.add(Finding("C14-3", p, "%s numbers items by appending at the end of the order vector (init_order_recursive -> "
                            "DocumentOrder::push): items attached after parsing get the largest keys instead of their place in "
                            "document order" % p, fn["file"], e.get("line"), {}))
    if st3["instances"] < 1:
        raise BrokenCheck("C14-3: no caller of init_order_recursive found")
    c14_4(facts, res)
    # ---- C14-5 initial numbering order in XmlElement::init_order_recursive
    st5 = res.rule("C14-5", instances=1)
    f = facts.fn("xml_info::<XmlElement as HasContext>::init_order_recursive")
    succ = e1.cfg(facts, f)
    dom, _ = e1.dominators(succ)

    def first(pred):
        bs = [bi for bi, t in facts.mir_calls(f) if t.get("callee") and pred(facts.callee_name(t["callee"]))]
        return min(bs) if bs else None
    seq = [first(lambda n: n == "xml_info::HasContext::init_order"),
           first(lambda n: n.endswith("::namespace_attributes")),
           first(lambda n: n == "xml_info::XmlElement::attributes_specified"),
           first(lambda n: n == "xml_info::XmlItem::init_order_recursive")]
    ok = all(x is not None for x in seq) and all(seq[i] in dom[seq[i + 1]] for i in range(3))
    res.oblige(1, ok)
    if not ok:
        res.add(Finding("C14-5", "XmlElement::init_order_recursive", "initial numbering must visit element, namespace attributes, "
                        "attributes, children in this order (blocks %s)" % seq, f["file"], f["line"], {}))
    # ---- C14-6
    c06.r06_3(facts, res, "C14-6")
    res.functions_analysed = 12
    import staleidx
    staleidx.rule(facts, res, "C14-7", lambda f: f["crate"] in ("xml_info", "xml_dom"), floor=5)
    c14_8(facts, res)
    # "selects, orders and de-duplicates exactly as on a fresh parse": queries order by the order *key* (not by creation id)
    from props import c07
    c07.summary_rule(facts, res, "C14-9")
    c07.fresh_key_rule(facts, res, "C14-10")      # keys are non-zero and pairwise distinct
    c07.no_id_in_evaluator(facts, res, "C14-12")
    # append / insert_before give the moved node its new key first and re-link second: the detach step inside the re-link
    # (XmlItem::remove_from_parent) must unlink only (delete_by_id); HasChildren::delete would clear the key just given
    st11 = res.rule("C14-11", instances=1)
    rp = facts.fn("xml_info::XmlItem::remove_from_parent")
    names = {e["name"] for e in facts.edges()[rp["id"]] if e["kind"] in ("call", "cha", "fwd")}
    bad = sorted(n for n in names if n.endswith("HasChildren::delete") or n.endswith("::clear_order"))
    res.oblige(1, not bad)
    if bad:
        res.add(Finding("C14-11", "remove_from_parent", "XmlItem::remove_from_parent calls %s: the order key that append / insert_before have just "
                        "assigned to the moved node is cleared again, the node ends up attached with key 0" % bad, rp["file"], rp["line"], {}))
    slot_index(facts, res, "C14-12")
    return res


SHIFTING = {"filter", "filter_map", "skip", "skip_while", "flat_map", "flatten", "rev", "chain", "step_by", "dedup", "dedup_by", "dedup_by_key",
            "take_while", "map_while", "scan", "zip", "peekable", "windows", "chunks"}


def slot_index(facts, res, rule="C14-12", crates=("xml_info", "xml_dom")):
    """A position found with `iter().position(..)` is handed to insert / remove / indexing of the same vector (order keys of
    DocumentOrder, child_index of the three parents): it has to be the *slot*.  Once an adapter that drops or reorders entries
    (filter_map(|v| v.upgrade()), skip, rev ..) stands between the vector and `position`, the number is a rank among the
    survivors - dead weak entries in front of the node make every later insert / remove act too early."""
    st = res.rule(rule, instances=0)
    for f in facts.fns.values():
        if f["crate"] not in crates or "body" not in f or f.get("derived") or f.get("test"):
            continue
        for n in walk(f["body"]):
            if n.get("k") == "MethodCall" and n.get("m") in ("position", "rposition"):
                chain, r = [], n.get("recv")
                while isinstance(r, dict) and r.get("k") == "MethodCall":
                    chain.append(r["m"])
                    r = r.get("recv")
                if not (isinstance(r, dict) and r.get("k") == "Field"):
                    continue        # a position inside a string or a local scratch list is not a slot of shared storage
                st["instances"] += 1
                bad = [m for m in chain if m in SHIFTING]
                res.oblige(1, not bad)
                if bad:
                    res.add(Finding(rule, "%s|%s" % (facts.root_of(f)["path"], r.get("name")), "%s looks a position up behind %s: the result is a rank among "
                                    "the entries that adapter lets through, not the slot in `%s` that insert / remove / indexing need"
                                    % (f["path"], "/".join(reversed(bad)), r.get("name")), f["file"], n.get("ln"), {}))
    if st["instances"] < 3:
        raise BrokenCheck("%s: %d slot look-ups found (floor 3)" % (rule, st["instances"]))


def c14_8(facts, res, rule="C14-8"):
    """Items cache their key together with the ordering version (HasContext::order re-reads the key when the cached version
    is older).  Every operation that shifts DocumentOrder.order therefore has to bump DocumentOrder.version on the same
    path, otherwise items behind the shift keep a stale cached key.  (push appends and shifts nothing.)"""
    import guards
    import staleidx
    st = res.rule(rule, instances=0)
    for f in facts.fns.values():
        if not f["path"].startswith("xml_info::DocumentOrder::") or "body" not in f or f.get("parent"):
            continue
        for n in walk(f["body"]):
            if n.get("k") != "Block":
                continue
            stmts = [x.get("e") or x.get("init") or {} for x in n.get("stmts", [])] + ([n["expr"]] if "expr" in n else [])
            for i, e in enumerate(stmts):
                shifts = [m for m in walk(e) if m.get("k") == "MethodCall" and m["m"] in staleidx.SHIFT and m["m"] != "pop"
                          and m.get("recv", {}).get("k") == "Field" and m["recv"].get("name") == "order"
                          and m["recv"].get("basety") == "DocumentOrder"]
                # only the block that directly holds the shifting statement
                if not shifts or (e.get("k") in ("If", "Match", "Block", "Loop")):
                    continue
                st["instances"] += 1
                bumped = any(x.get("k") == "AssignOp" and x.get("op") == "+=" and x["l"].get("k") == "Field" and x["l"].get("name") == "version"
                             and x["l"].get("basety") == "DocumentOrder" for later in stmts[i + 1:] for x in walk(later))
                res.oblige(1, bumped)
                if not bumped:
                    res.add(Finding(rule, f["path"].split("::")[-1] + "|" + shifts[0]["m"], "%s shifts the order vector (Vec::%s) without "
                                    "bumping `version`: the keys cached by the items behind the shift stay valid in their eyes and are "
                                    "now off by one" % (f["path"], shifts[0]["m"]), f["file"], shifts[0].get("ln"), {}))
    if st["instances"] < 2:
        raise BrokenCheck("C14-8: %d shifting statements in DocumentOrder (floor 2)" % st["instances"])


def _guard_on_get(facts, f, defs, site_bb):
    succ = e1.cfg(facts, f)
    dom, _ = e1.dominators(succ)
    blocks = facts.blocks(f)
    for d in dom.get(site_bb, ()):
        t = blocks[d]["term"]
        if t["k"] != "SwitchInt":
            continue
        dl = e1.local_of(t["discr"])
        for st in blocks[d]["stmts"]:
            if st["ll"] == dl and st.get("rv") == "BinaryOp" and st["op"] == "Gt" and e1.is_const(st["ops"][1], "0"):
                if affine(facts, f, defs, st["ops"][0]) == ("call:get", 0):
                    tt = t["succ"][-1]
                    if tt == site_bb or tt in dom[site_bb]:
                        return True
    return False
