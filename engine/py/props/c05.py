"""C05 — XPath evaluation: the dispatch tables the evaluator is built from (narrow claim)."""
import e1
import enumflow
import xpdispatch
from common import Finding, Result
from facts import BrokenCheck, walk
from props import c07, c08, c14
from props.c08 import arm_callees, match_arms_on, variants_of_pat, ws

LEVEL = "other"

AXIS_FN = xpdispatch.AXIS_FN
REVERSE_AXES = {"Ancestor", "AncestorOrSelf", "Preceding", "PrecedingSibling"}

# axis function -> the navigation primitive it must be built on (and must not use)
AXIS_SHAPE = {
    "xml_xpath::eval::ancestor": ({"parent_node"}, {"next_sibling", "previous_sibling", "child_nodes"}),
    "xml_xpath::eval::ancestor_and_self": ({"xml_xpath::eval::ancestor"}, set()),
    "xml_xpath::eval::attributes": ({"attributes"}, {"child_nodes", "parent_node"}),
    "xml_xpath::eval::child": ({"child_nodes"}, {"parent_node", "attributes"}),
    "xml_xpath::eval::descendant": ({"xml_xpath::eval::descendant"}, {"parent_node", "next_sibling", "previous_sibling"}),
    "xml_xpath::eval::descendant_and_self": ({"xml_xpath::eval::descendant"}, set()),
    "xml_xpath::eval::following_sibling": ({"next_sibling"}, {"previous_sibling"}),
    "xml_xpath::eval::preceding_sibling": ({"previous_sibling"}, {"next_sibling"}),
    # XPath 1.0 2.2: following = all nodes after the context node in document order, excluding descendants
    #   = for every ancestor-or-self: its following siblings with their descendants (preceding: symmetric, ancestors excluded)
    "xml_xpath::eval::following": ({"xml_xpath::eval::ancestor_and_self", "xml_xpath::eval::following_sibling", "xml_xpath::eval::descendant_and_self"},
                                   {"xml_xpath::eval::preceding_sibling"}),
    "xml_xpath::eval::preceding": ({"xml_xpath::eval::ancestor_and_self", "xml_xpath::eval::preceding_sibling", "xml_xpath::eval::descendant_and_self"},
                                   {"xml_xpath::eval::following_sibling"}),
    "xml_xpath::eval::namespace": ({"in_scope_namespace"}, {"attributes", "child_nodes"}),
}

NODE_TYPE_TEST = {
    "Comment": {"Comment"}, "PI": {"PI"}, "Text": {"Text", "CData", "EntityReference"}, "Node": set(),
}


def callee_names(facts, f):
    out = set()
    for fid2 in [f["id"]] + [c["id"] for c in facts.fns.values() if c.get("parent") == f["path"]]:
        for e in facts.edges()[fid2]:
            if e["kind"] in ("call", "cha", "fwd"):
                out.add(e["name"])
                out.add(e["name"].split("::")[-1])
    return out


def run(facts, tier):
    res = Result("C05")
    res.explanation = (
        "static (narrow): the dispatch tables of the evaluator - the 13 axis names call the 13 axis functions of their name; the "
        "reverse axes are exactly {ancestor, ancestor-or-self, preceding, preceding-sibling}; each axis function is built on "
        "the navigation primitive of its direction (parent / child list / next / previous sibling) and not on the opposite "
        "one; node-type tests map to the DOM node types; a name test is restricted to element / attribute nodes; predicate "
        "frames are (size = len, position = index + 1) and are active around every predicate evaluation; plus R07-1 "
        "(typestate of node-sets), R08-3/4 (abbreviations, numeric predicate).")
    res.assumptions = ["what each axis function returns as a value, string-values and every computed result are not decided",
                       "seen while reading and outside these rules: `following` / `preceding` only cover siblings of the context "
                       "node (not of its ancestors); namespace nodes share the order key of their declaration"]
    f = facts.fn("xml_xpath::eval::eval_axis_node_test")
    # ---- axis table
    st = res.rule("C05-axis", instances=0)
    # enumflow: under which axes is each axis function reached (called, or taken as a function value), through whatever
    # dispatch the code uses - nested or flat matches, a helper that is handed the axis, a table of function values
    adom, seen, nuses = xpdispatch.axis_table(facts, lambda nm: nm in xpdispatch.AXIS_TARGETS)
    if nuses < 6:
        raise BrokenCheck("C05-axis: only %d uses of axis functions found from eval_axis_node_test (floor 6)" % nuses)
    for v, fn_ in AXIS_FN.items():
        st["instances"] += 1
        got = sorted(seen.get(v, ()))
        ok = v in seen and (got == [fn_] if fn_ else got == [])
        res.oblige(1, ok)
        if not ok:
            res.add(Finding("C05-axis", v, "axis %s is evaluated with %s, expected %s" % (v, got, fn_ or "the context node itself"), f["file"], f["line"], {}))
    # ---- reverse set: for which axes is `.reverse()` on the candidate list reached (enumflow: match arms, matches!,
    #      boolean locals and helper predicates over the axis are all decided over the finite set of axes)
    st2 = res.rule("C05-reverse", instances=0)
    try:
        dom = xpdispatch.axis_domain(facts)
        hits = enumflow.Flow(dom, f).run(lambda n: n.get("k") == "MethodCall" and n.get("m") == "reverse"
                                         and "xml_dom::XmlNode" in str(n.get("recvty", "")))
    except enumflow.Unknown as u:
        raise BrokenCheck("C05-reverse: %s" % u)
    rev = set()
    for _, s_ in hits:
        rev |= s_
    st2["instances"] += 1
    abbreviated = {v for v in rev if v.startswith("Abbreviated")}
    ok = bool(hits) and rev - abbreviated == REVERSE_AXES
    res.oblige(1, ok)
    res.sample({"rule": "C05-reverse", "reverse_sites": len(hits), "axes": sorted(rev)})
    if not ok:
        res.add(Finding("C05-reverse", "set", "proximity positions are reversed for %s, XPath 1.0 2.4 defines the reverse axes as %s"
                        % (sorted(rev - abbreviated) if rev else None, sorted(REVERSE_AXES)), f["file"], f["line"], {}))
    # abbreviated axes are forward axes
    st2["instances"] += 1
    bad = bool(abbreviated)
    res.oblige(1, not bad)
    if bad:
        res.add(Finding("C05-reverse", "abbreviated", "an abbreviated step (child / attribute) is treated as a reverse axis", f["file"], f["line"], {}))
    # ---- axis function shapes
    st3 = res.rule("C05-shape", instances=0)
    for path, (must, must_not) in AXIS_SHAPE.items():
        g = facts.fn(path)
        names = callee_names(facts, g)
        st3["instances"] += 1
        missing = sorted(m for m in must if m not in names)
        forbidden = sorted(m for m in must_not if m in names)
        ok = not missing and not forbidden
        res.oblige(1, ok)
        if not ok:
            res.add(Finding("C05-shape", path.split("::")[-1], "%s: %s%s" % (path, ("does not use %s; " % missing) if missing else "",
                                                                           ("uses %s" % forbidden) if forbidden else ""), g["file"], g["line"], {}))
    # XPath 1.0 5.3: an attribute node has a string-value and no children; the DOM of this library hands the pieces of the
    # value out as child nodes, so the child axis has to exclude attribute context nodes (descendant goes through child)
    g = facts.fn("xml_xpath::eval::child")
    st3["instances"] += 1
    tests_attr = any(str(m.get("path", "")).endswith("NodeType::Attribute") or str(m.get("path", "")).endswith("XmlNode::Attribute") for m in walk(g["body"]))
    d = facts.fn("xml_xpath::eval::descendant")
    via_child = "xml_xpath::eval::child" in callee_names(facts, d) or \
        any(str(m.get("path", "")).endswith("NodeType::Attribute") for m in walk(d["body"]))
    ok = tests_attr and via_child
    res.oblige(1, ok)
    if not ok:
        res.add(Finding("C05-shape", "child|attribute", "the child / descendant axes do not exclude attribute context nodes: //@id/text() selects "
                        "the DOM text children of the attribute, //@id/descendant-or-self::node() has two members", g["file"], g["line"], {}))
    # descendant: pre-order (child pushed before its descendants)
    g = facts.fn("xml_xpath::eval::descendant")
    st3["instances"] += 1
    succ = e1.cfg(facts, g)
    dom, _ = e1.dominators(succ)
    push = [bi for bi, t in facts.mir_calls(g) if t.get("callee") and facts.callee_name(t["callee"]).endswith("Vec::<T, A>::push")]
    rec = [bi for bi, t in facts.mir_calls(g) if t.get("callee") and facts.callee_name(t["callee"]) == "xml_xpath::eval::descendant"]
    ok = bool(push) and bool(rec) and all(any(p in dom[r] for p in push) for r in rec)
    res.oblige(1, ok)
    if not ok:
        res.add(Finding("C05-shape", "descendant|preorder", "descendant() must list a child before that child's descendants", g["file"], g["line"], {}))
    # ---- node type tests
    st4 = res.rule("C05-nodetest", instances=0)
    t = facts.fn("xml_xpath::eval::eval_node_test")
    # enumflow over NodeTest / NodeType: with which DOM node types is the context node compared under each node-type test
    # (nested `match ty { .. }` or flat `NodeTest::Type(NodeType::Text) => ..` alike)
    try:
        ndom = enumflow.Domain(facts, "model::NodeTest", "model::NodeType", "Type",
                               level_fn=lambda ty: "outer" if "model::NodeTest" in ty else ("inner" if "model::NodeType" in ty else None))
        nhits = enumflow.Flow(ndom, t).run(lambda n: n.get("k") == "Path" and "xml_dom::NodeType::" in str(n.get("path", "")))
    except enumflow.Unknown as u:
        raise BrokenCheck("C05-nodetest: %s" % u)
    got = {v: set() for v in ndom.inner_vars}
    for n, s_ in nhits:
        # a comparison that is made for every test (the principal-node-type guard of name tests) says nothing about one test
        if set(ndom.inner_vars) <= s_:
            continue
        for v in s_:
            if v in got:
                got[v].add(str(n["path"]).split("::")[-1])
    for v, want in NODE_TYPE_TEST.items():
        st4["instances"] += 1
        ok = got.get(v) == want
        res.oblige(1, ok)
        if not ok:
            res.add(Finding("C05-nodetest", v, "node test %s() compares with %s, expected %s" % (v, sorted(got.get(v) or []), sorted(want)), t["file"], t["line"], {}))
    # name tests only on element / attribute nodes
    st4["instances"] += 1
    guard = False
    for n in walk(t["body"]):
        if n.get("k") == "Match" and "model::NodeTest" in str(n.get("scrutty", "")):
            first = n["arms"][0]
            if "Name" in variants_of_pat(first["pat"]) and "guard" in first:
                kinds = {str(m["path"]).split("::")[-1] for m in walk(first["guard"]) if "xml_dom::NodeType::" in str(m.get("path", ""))}
                is_false = any(m.get("k") == "Lit" and m.get("v") is False for m in walk(first["body"]))
                guard = kinds == {"Element", "Attribute"} and is_false and any(m.get("k") == "Unary" and m["op"] == "!" for m in walk(first["guard"]))
    res.oblige(1, guard)
    if not guard:
        res.add(Finding("C05-nodetest", "principal-node-type", "name tests are not restricted to element / attribute nodes: `*` and QName tests can match "
                        "text, comment or PI nodes", t["file"], t["line"], {}))
    # ---- predicate frames
    st5 = res.rule("C05-frames", instances=0)
    # the predicate test itself is found by what it does, not by its name: the evaluator function (not the function library)
    # that reads the context position to decide a numeric predicate
    GETPOS = "xml_xpath::eval::model::Context::get_position"
    callers = [x for x in facts.fns.values() if x["crate"] == "xml_xpath" and "body" in x and x["path"].startswith("xml_xpath::eval::")
               and not x["path"].startswith(("xml_xpath::eval::func", "xml_xpath::eval::model")) and
               any(tt.get("callee") and facts.callee_name(tt["callee"]) == GETPOS for _, tt in facts.mir_calls(x))]
    if not callers:
        raise BrokenCheck("C05-frames: no evaluator function reads the context position (Context::get_position)")
    def frame_check(g, target_name, need_pos, need_size):
        """Every call of `target_name` in g has the frames it needs: need_pos = "push" (a push_position(index+1) must dominate
        it), ("arg", i, k) (the position is argument i of the call, handed on +k: index+1 in total), or None; need_size: a
        push_size(len) must dominate it.  What g does not establish itself is asked of g's callers (a maintainer may split
        `push_size .. for .. { push_position; eval; pop_position } .. pop_size` over several functions): returns
        (problems, what the callers of g have to provide)."""
        succ = e1.cfg(facts, g)
        dom, _ = e1.dominators(succ)
        defs = e1.def_sites(facts, g)
        ps = [(bi, tt) for bi, tt in facts.mir_calls(g) if tt.get("callee") and facts.callee_name(tt["callee"]).endswith("Context::push_size")]
        pp = [(bi, tt) for bi, tt in facts.mir_calls(g) if tt.get("callee") and facts.callee_name(tt["callee"]).endswith("Context::push_position")]
        ev = [(bi, tt) for bi, tt in facts.mir_calls(g) if tt.get("callee") and facts.callee_name(tt["callee"]) == target_name]
        problems = []
        up_pos, up_size = None, False
        names = [q.get("name") for q in (g.get("params") or [])]
        short = target_name.split("::")[-1]
        if need_size:
            if all(any(b in dom[e] for b, _ in ps) for e, _ in ev):
                for bi, tt in ps:
                    if e1.producer(facts, g, defs, tt["args"][1]) != "len":
                        problems.append("push_size is not given the length of the node vector")
            elif not ps:
                up_size = True
            else:
                problems.append("%s is not dominated by push_size" % short)
        if need_pos == "push" and not pp:
            up_pos = "push"            # nothing pushed here: the frame has to be there when this function is called
        elif need_pos == "push":
            if not all(any(b in dom[e] for b, _ in pp) for e, _ in ev):
                problems.append("%s is not dominated by push_position" % short)
            affs = [c14.affine(facts, g, defs, tt["args"][1]) for _, tt in pp]
            if affs and all(a[0].startswith("arg:") and a[0][4:] in names for a in affs) and len(set(affs)) == 1:
                up_pos = ("arg", names.index(affs[0][0][4:]), affs[0][1])      # the position comes in as a parameter
            else:
                for a in affs:
                    if a[1] != 1:
                        problems.append("push_position is given index%+d, expected index+1" % a[1])
        elif need_pos is not None:
            _, pi, k = need_pos
            for _, tt in ev:
                a = c14.affine(facts, g, defs, tt["args"][pi]) if pi < len(tt.get("args", [])) else ("?", 0)
                if a[0].startswith("arg:") and a[0][4:] in names:
                    up_pos = ("arg", names.index(a[0][4:]), a[1] + k)
                elif a[1] + k != 1:
                    problems.append("the position handed to %s is index%+d, expected index+1" % (short, a[1] + k))
        return problems, (up_pos, up_size)

    work = [(g, GETPOS, "push", True) for g in callers]
    depth = 0
    while work and depth < 4:
        nxt = []
        for g, target, need_pos, need_size in work:
            st5["instances"] += 1
            problems, (up_pos, up_size) = frame_check(g, target, need_pos, need_size)
            if not problems and (up_pos is not None or up_size):
                up = [x for x in facts.fns.values() if x["crate"] == "xml_xpath" and "body" in x and x["id"] != g["id"] and
                      any(tt.get("callee") and facts.callee_name(tt["callee"]) == g["path"] for _, tt in facts.mir_calls(x))]
                if not up:
                    problems.append("frames expected from the callers, but there is no caller")
                nxt += [(x, g["path"], up_pos, up_size) for x in up]
            res.oblige(1, not problems)
            if problems:
                res.add(Finding("C05-frames", g["path"].split("::")[-1], "%s: %s" % (g["path"], "; ".join(sorted(set(problems)))), g["file"], g["line"], {}))
        work = nxt
        depth += 1
    if work:
        g = work[0][0]
        res.oblige(1, False)
        res.add(Finding("C05-frames", g["path"].split("::")[-1], "%s: frames still expected from callers four levels up" % g["path"], g["file"], g["line"], {}))
    # ---- shared rules
    it, fns, rounds = c07.solve(facts)
    s = it.summary(facts.fn("xml_xpath::eval::document")["id"])
    res.rule("R07-1", instances=2)
    for idx, prop in ((0, "sorted"), (1, "dedup")):
        ok = s[idx] and not s[2 + idx]
        res.oblige(1, ok)
        if not ok:
            res.add(Finding("R07-1", "document|" + prop, "node-sets returned by query are not guaranteed to be %s (see C07)" % prop, None, None, {}))
    c08.r08_3(facts, res)
    c08.r08_4(facts, res)
    c08.r08_7(facts, res)
    c08.r08_8(facts, res)
    c07.fresh_key_rule(facts, res, "R07-5")
    # "for every document" includes documents edited through the DOM: positions, unions and order rest on the order keys
    c14.c14_4(facts, res, "C05-order")
    c14.c14_8(facts, res, "C05-order-v")
    import staleidx
    staleidx.rule(facts, res, "C05-order-i", lambda f: f["crate"] in ("xml_info", "xml_dom"), floor=5)
    # operators and the function library are part of "the value XPath 1.0 prescribes": same rules as C09
    from props import c09
    table = c09.r09_1(facts, res)
    c09.r09_2(facts, res)
    c09.r09_2b(facts, res, table)
    c09.r09_2c(facts, res)
    c09.r09_3(facts, res)
    # name tests expand the caller's prefixes: the binding table and its lookups agree on which pair of a prefix counts
    from props import c10
    c10.c10_5(facts, res)
    res.functions_analysed = len(AXIS_SHAPE) + 4
    return res
