"""C08 — equivalent XPath spellings evaluate identically; precedence per grammar."""
import e2
import tokens
from common import Finding, Result
from facts import BrokenCheck, walk

LEVEL = "other"

XPATH_GRAMMAR = lambda f: f["crate"] == "xml_xpath" and f["path"].startswith("xml_xpath::expr::") and f["kind"] == "Fn" \
    and "::model::" not in f["path"]

# XPath 1.0 token -> AST variant (the variant names are this library's; the pairing is the Recommendation's)
TOKEN_TABLE = {
    "AdditiveOperator": {"+": "Add", "-": "Sub"},
    "MultiplicativeOperator": {"*": "Mul", "div": "Div", "mod": "Mod"},
    "EqualityOperator": {"=": "Equal", "!=": "NotEqual"},
    "RelationalOperator": {"<": "LessThan", "<=": "LessEqual", ">": "GreaterThan", ">=": "GreaterEqual"},
    "LocationPathOperator": {"/": "Current", "//": "DescendantOrSelfNode"},
    "NodeType": {"comment": "Comment", "text": "Text", "processing-instruction": "PI", "node": "Node"},
    "AxisName": {"ancestor": "Ancestor", "ancestor-or-self": "AncestorOrSelf", "attribute": "Attribute", "child": "Child",
                 "descendant": "Descendant", "descendant-or-self": "DescendantOrSelf", "following": "Following",
                 "following-sibling": "FollowingSibling", "namespace": "Namespace", "parent": "Parent",
                 "preceding": "Preceding", "preceding-sibling": "PrecedingSibling", "self": "Current"},
}

# AST variant -> the evaluator must apply this primitive in the arm for the variant
EVAL_TABLE = {
    "xml_xpath::eval::eval_add_expr": ("AdditiveOperator", {"Add": "std::ops::Add::add", "Sub": "std::ops::Sub::sub"}),
    "xml_xpath::eval::eval_mul_expr": ("MultiplicativeOperator", {"Mul": "std::ops::Mul::mul", "Div": "std::ops::Div::div", "Mod": "std::ops::Rem::rem"}),
    "xml_xpath::eval::eval_eq_expr": ("EqualityOperator", {"Equal": "xml_xpath::eval::equal_value", "NotEqual": "xml_xpath::eval::not_equal_value"}),
    "xml_xpath::eval::eval_relational_expr": ("RelationalOperator", {"LessThan": "xml_xpath::eval::less_than_value", "LessEqual": "xml_xpath::eval::less_eq_value",
                                                                     "GreaterThan": "xml_xpath::eval::greater_than_value", "GreaterEqual": "xml_xpath::eval::greater_eq_value"}),
}

OPS_IMPL = {
    # impl of std::ops trait for Value -> the f64 primitive (MIR BinaryOp) it must apply
    "Add": "Add", "Sub": "Sub", "Mul": "Mul", "Div": "Div", "Rem": "Rem",
}


def ws(callees):
    """workspace callees only (std / core plumbing such as Ok, collect, vec! is not evaluator code)"""
    return [c for c in callees if c.startswith(("xml_", "<xml_"))]


def arm_callees(facts, arm_body):
    out = []
    for m in walk(arm_body):
        if m.get("k") == "Binary" and "path" in m:
            out.append(m["path"])
        elif m.get("k") == "Call" and m["f"].get("k") == "Path" and "path" in m["f"]:
            fid = m["f"].get("rid") or m["f"].get("id")
            out.append(facts.name_of(fid) if fid in facts.fns else m["f"]["path"])
        elif m.get("k") == "MethodCall" and "path" in m:
            fid = m.get("rid") or m.get("id")
            out.append(facts.name_of(fid) if fid in facts.fns else m["path"])
    return out


def scrut_is(n, enum_suffix):
    """the scrutinee is a value of the enum itself (possibly behind references), not a tuple / Option that contains one"""
    ty = str(n.get("scrutty", "")).replace("&mut ", "").replace("&", "").strip()
    return enum_suffix in ty and "(" not in ty and not ty.startswith(("std::option::Option", "std::result::Result"))


def match_arms_on(fn, enum_suffix):
    for n in walk(fn["body"]):
        if n.get("k") == "Match" and n.get("src") == "Normal" and scrut_is(n, enum_suffix):
            return n["arms"]
    return None


def variants_of_pat(pat):
    out = []
    for p in ([pat] if pat.get("p") != "Or" else pat["pats"]):
        while p.get("p") in ("Ref", "Deref"):
            p = p["sub"]
        if p.get("p") in ("Expr",) and p["e"].get("k") == "Path":
            out.append(p["e"]["path"].split("::")[-1])
        elif p.get("p") in ("TupleStruct", "Struct"):
            out.append(p["path"].split("::")[-1])
        elif p.get("p") in ("Wild", "Bind"):
            out.append("_")
    return out


def r08_5(facts, res):
    st = res.rule("R08-5", instances=0)
    ex = tokens.extractor_for_xpath(facts)
    for enum_name, table in TOKEN_TABLE.items():
        f, arms, default = tokens.from_str_arms(facts, enum_name)
        feeds = tokens.feeding_literals(facts, ex, enum_name)
        lits = set()
        for _, _, l in feeds:
            lits |= (l or set())
        direct = tokens.direct_pairs(facts, ex, enum_name)      # value(Enum::Variant, tag("tok"))
        for tok, variant in sorted(table.items()):
            st["instances"] += 1
            ok = direct.get(tok) == variant if tok in direct else (arms.get(tok) == variant and tok in lits)
            res.oblige(1, ok)
            if not ok:
                why = "is paired with %s" % direct[tok] if tok in direct else ("is mapped to %s" % arms.get(tok) if tok in arms else "has no arm")
                if tok not in lits and tok not in direct:
                    why += "; the grammar never feeds it"
                res.add(Finding("R08-5", "%s|%s" % (enum_name, tok), "token %r of %s %s, XPath 1.0 pairs it with %s" % (tok, enum_name, why, variant),
                                f["file"], f["line"], {}))
        extra = sorted((set(arms) | lits | set(direct)) - set(table))
        res.oblige(1, not extra)
        if extra:
            res.add(Finding("R08-5", "%s|extra" % enum_name, "%s handles tokens %s that the production does not have" % (enum_name, extra), f["file"], f["line"], {}))
    for path, (enum_name, table) in EVAL_TABLE.items():
        f = facts.fn(path)
        import xpdispatch
        prims = set(table.values())
        seen, nuses = xpdispatch.table(facts, f, "model::" + enum_name, lambda nm: nm in prims, "R08-5")
        if nuses < len(prims):
            raise BrokenCheck("R08-5: %d uses of the %d primitives of %s found from %s" % (nuses, len(prims), enum_name, path))
        seen = {v: sorted(x) for v, x in seen.items()}
        for variant, prim in table.items():
            st["instances"] += 1
            ok = seen.get(variant) == [prim]
            res.oblige(1, ok)
            if not ok:
                res.add(Finding("R08-5", "%s|%s" % (path.split("::")[-1], variant), "%s: the arm for %s applies %s, expected %s"
                                % (path, variant, seen.get(variant), prim), f["file"], f["line"], {}))
    # the ops impls apply the arithmetic of the same name
    for tr, prim in OPS_IMPL.items():
        f = facts.fn("xml_xpath::<eval::model::Value as std::ops::%s>::%s" % (tr, tr.lower()))
        st["instances"] += 1
        ops = [s["op"] for b in facts.blocks(f) for s in b["stmts"] if s.get("rv") == "BinaryOp"]
        ok = ops.count(prim) == 1 and all(o == prim or o in ("Eq", "Ne") for o in ops)
        res.oblige(1, ok)
        if not ok:
            res.add(Finding("R08-5", "ops::%s" % tr, "impl ops::%s for Value applies %s, expected the f64 %s" % (tr, ops, prim), f["file"], f["line"], {}))
    if st["instances"] < 27:
        raise BrokenCheck("R08-5: %d table cells (floor 27)" % st["instances"])


def r08_3(facts, res):
    """Abbreviated and unabbreviated steps reach the same evaluator code."""
    st = res.rule("R08-3", instances=0)
    f = facts.fn("xml_xpath::eval::eval_axis_node_test")
    import xpdispatch
    _, table, nuses = xpdispatch.axis_table(facts, lambda nm: nm in xpdispatch.AXIS_TARGETS, "R08-3")
    if nuses < 6:
        raise BrokenCheck("R08-3: only %d uses of axis functions found from eval_axis_node_test (floor 6)" % nuses)
    by_variant = {v: sorted(x) for v, x in table.items()}
    # the abbreviated step: `@` and the empty abbreviation are two values of the dispatching input (enumflow splits the
    # payload of AxisSpecifier::Abbreviated by its comparisons with the literal "@")
    abbr = {"@": by_variant.get("Abbreviated:@"), "_": by_variant.get("Abbreviated:*")}
    pairs = [("@", "Attribute"), ("_", "Child")]
    for a, v in pairs:
        st["instances"] += 1
        ok = a in abbr and abbr[a] == (by_variant.get(v) or []) and bool(abbr[a])
        res.oblige(1, ok)
        if not ok:
            res.add(Finding("R08-3", "abbr:%s" % a, "abbreviated axis %r evaluates with %s but %s:: evaluates with %s"
                            % (a, abbr.get(a), v.lower(), by_variant.get(v)), f["file"], f["line"], {}))
    # '//' uses the function of descendant-or-self::
    dos = by_variant.get("DescendantOrSelf")
    for path in ("xml_xpath::eval::eval_loc_expr", "xml_xpath::eval::eval_filtered_loc_expr"):
        g = facts.fn(path)
        fam = facts.family(g)        # the function and the private pieces it may be split into
        arms = None
        for h in fam:
            arms = arms or match_arms_on(h, "model::LocationPathOperator")
        st["instances"] += 1
        ok = False
        if arms:
            for arm in arms:
                if "DescendantOrSelfNode" in variants_of_pat(arm["pat"]):
                    ok = bool(dos) and dos[0] in arm_callees(facts, arm["body"])
        # eval_filtered_loc_expr has two matches on the operator; require all of them
        alls = [n for h in fam for n in walk(h["body"]) if n.get("k") == "Match" and scrut_is(n, "LocationPathOperator")]
        for n in alls:
            for arm in n["arms"]:
                if "DescendantOrSelfNode" in variants_of_pat(arm["pat"]) and not (dos and dos[0] in arm_callees(facts, arm["body"])):
                    ok = False
        res.oblige(1, ok)
        if not ok:
            res.add(Finding("R08-3", "//:%s" % path.split("::")[-1], "%s: '//' must expand with the function of descendant-or-self:: (%s)" % (path, dos),
                            g["file"], g["line"], {}))
    # '/x' and '//x' start from the same node(s): in every match over the path operator the DescendantOrSelfNode arm applies
    # descendant-or-self to exactly what the Current arm starts from (a leading '//' starts at the root, like a leading '/')
    g = facts.fn("xml_xpath::eval::eval_filtered_loc_expr")
    for mi, n in enumerate(sorted([x for h in facts.family(g) for x in walk(h["body"]) if x.get("k") == "Match" and scrut_is(x, "LocationPathOperator")],
                                  key=lambda x: x.get("ln") or 0)):
        arms = {}
        for arm in n["arms"]:
            for v in variants_of_pat(arm["pat"]):
                arms[v] = arm
        if "Current" not in arms or "DescendantOrSelfNode" not in arms:
            continue
        st["instances"] += 1

        def outer_locals(body):
            inner = set()
            for c in walk(body):
                if c.get("k") == "Closure":
                    for q in walk(c.get("params", [])):
                        if q.get("p") == "Bind":
                            inner.add(q.get("lid"))
                for q in walk(c.get("pat", {})) if c.get("s") == "Let" else []:
                    if q.get("p") == "Bind":
                        inner.add(q.get("lid"))
            return {m.get("name") for m in walk(body) if m.get("k") == "Path" and m.get("res") == "Local" and m.get("lid") not in inner}

        def conversions(body):
            return sorted({m["m"] for m in walk(body) if m.get("k") == "MethodCall" and m["m"] in ("owner_document", "parent_node", "document_element")})
        lc, ld = outer_locals(arms["Current"]["body"]), outer_locals(arms["DescendantOrSelfNode"]["body"])
        cc, cd = conversions(arms["Current"]["body"]), conversions(arms["DescendantOrSelfNode"]["body"])
        ok = bool(ld) and ld <= lc | ld and (lc & ld) and cc == cd
        res.oblige(1, bool(ok))
        if not ok:
            res.add(Finding("R08-3", "//:start:match%d" % (mi + 1), "%s: the arm for '/' starts from %s%s, the arm for '//' from %s%s - '//x' must be "
                            "'/descendant-or-self::node()/x' from the same starting point" % (g["path"], sorted(lc), cc or "", sorted(ld), cd or ""),
                            g["file"], n.get("ln"), {}))
    # '.' = self::node(), '..' = parent::node()
    g = facts.fn("xml_xpath::eval::eval_step_expr")
    arms = match_arms_on(g, "model::Step")
    step = {}
    for arm in arms or []:
        for v in variants_of_pat(arm["pat"]):
            step[v] = arm
    for sv, av in (("Parent", "Parent"),):
        st["instances"] += 1
        a = arm_callees(facts, step[sv]["body"]) if sv in step else None
        ok = a is not None and ws(a) == ws(by_variant.get(av) or []) and bool(ws(a))
        res.oblige(1, ok)
        if not ok:
            res.add(Finding("R08-3", "step:%s" % sv, "Step::%s evaluates with %s but %s:: evaluates with %s (two spellings of one step)"
                            % (sv, a, av.lower(), by_variant.get(av)), g["file"], g["line"], {}))
    st["instances"] += 1
    cur_ok = "Current" in step and not ws(arm_callees(facts, step["Current"]["body"])) and \
        not ws(by_variant.get("Current") or ["?"])
    res.oblige(1, bool(cur_ok))
    if not cur_ok:
        res.add(Finding("R08-3", "step:Current", "Step::Current must be the context node itself", g["file"], g["line"], {}))


def r08_8(facts, res, rule="R08-8"):
    """`a//b` is `a/descendant-or-self::node()/b`: like the arm for '/', the arm for '//' goes on from *every* node the left-hand
    side delivered.  Constructs that leave context nodes out (continue / break, filter / skip / take / dedup on the loop source,
    comparisons of order keys) are accepted in the '//' arm only where the '/' arm of the same match has them as well: the
    left-hand nodes need not arrive in document order (reverse axes, several parents), so "already covered" cannot be read off
    the order keys."""
    st = res.rule(rule, instances=0)
    SKIP = {"filter", "filter_map", "skip", "skip_while", "take", "take_while", "step_by", "dedup", "dedup_by", "dedup_by_key", "retain"}

    def leaves_out(body):
        out = set()
        for m in walk(body):
            if m.get("k") in ("Continue", "Break"):
                out.add(m["k"].lower())
            elif m.get("k") == "MethodCall" and m.get("m") in SKIP:
                out.add(m["m"])
            elif m.get("k") == "Binary" and m.get("op") in ("<", "<=", ">", ">=") and \
                    any(x.get("k") == "MethodCall" and x.get("m") == "order" for x in walk(m)):
                out.add("order-comparison")
        return out
    seen_ln = set()
    for path in ("xml_xpath::eval::eval_loc_expr", "xml_xpath::eval::eval_filtered_loc_expr"):
        g = facts.fn(path)
        for n in [x for h in facts.family(g) for x in walk(h["body"]) if x.get("k") == "Match" and scrut_is(x, "LocationPathOperator")]:
            arms = {}
            for arm in n["arms"]:
                for v in variants_of_pat(arm["pat"]):
                    arms[v] = arm
            if "Current" not in arms or "DescendantOrSelfNode" not in arms or n.get("ln") in seen_ln:
                continue
            seen_ln.add(n.get("ln"))
            st["instances"] += 1
            # the desugared `for` contributes one `break` to both arms alike
            extra = sorted(leaves_out(arms["DescendantOrSelfNode"]["body"]) - leaves_out(arms["Current"]["body"]))
            res.oblige(1, not extra)
            if not extra:
                continue
            res.add(Finding(rule, "%s|//" % path.split("::")[-1], "%s: the arm for '//' leaves context nodes out (%s) where the arm for '/' "
                            "takes every node: a//b and a/descendant-or-self::node()/b differ when the nodes of `a` do not arrive in "
                            "document order" % (path, ", ".join(extra)), g["file"], arms["DescendantOrSelfNode"].get("ln") or n.get("ln"), {}))
    if st["instances"] < 2:
        raise BrokenCheck("%s: %d matches over the path operator (floor 2)" % (rule, st["instances"]))


def r08_7(facts, res, rule="R08-7"):
    """`@x[n]` and `attribute::x[n]`, `x[n]` and `child::x[n]` number the same candidates: the candidate list of a step is put in
    document order before the predicates for *every* axis specifier, abbreviated or named (the DOM lists attributes defaulted
    from the DTD behind the written ones, whatever their order keys say).  Decided by enumflow over the axis domain."""
    import enumflow
    import xpdispatch
    st = res.rule(rule, instances=1)
    f = facts.fn("xml_xpath::eval::eval_axis_node_test")
    try:
        dom = xpdispatch.axis_domain(facts)
        hits = enumflow.Flow(dom, f).run(lambda n: n.get("k") == "MethodCall" and str(n.get("m", "")).startswith("sort")
                                         and "xml_dom::XmlNode" in str(n.get("recvty", "")))
    except enumflow.Unknown as u:
        raise BrokenCheck("%s: %s" % (rule, u))
    got = set()
    for _, s_ in hits:
        got |= s_
    missing = sorted(set(dom.universe) - got) if hits else None
    ok = bool(hits) and not missing
    res.oblige(1, ok)
    res.sample({"rule": rule, "sort_sites": len(hits), "axes_sorted": len(got)})
    if not ok:
        res.add(Finding(rule, "sort-before-predicates", "the candidates of a step are not sorted into document order before the predicates for %s: "
                        "a positional predicate counts differently for the abbreviated and the unabbreviated spelling (defaulted attributes "
                        "are listed last by the DOM)" % (missing if missing is not None else "any axis"), f["file"], f["line"], {}))


def r08_4(facts, res):
    """[n] means position() = n: the Number arm of eval_predicate compares as f64, without casting the number to an integer."""
    st = res.rule("R08-4", instances=1)
    # the place is found by what it does: the evaluator function (not the function library) that reads the context position;
    # there, the arm that binds a Value::Number (also nested: `Ok(Value::Number(v))`)
    GETPOS = "xml_xpath::eval::model::Context::get_position"
    fs = [x for x in facts.fns.values() if x["crate"] == "xml_xpath" and "body" in x and x["path"].startswith("xml_xpath::eval::")
          and not x["path"].startswith(("xml_xpath::eval::func", "xml_xpath::eval::model")) and
          any(tt.get("callee") and facts.callee_name(tt["callee"]) == GETPOS for _, tt in facts.mir_calls(x))]
    if not fs:
        raise BrokenCheck("R08-4: no evaluator function reads the context position (Context::get_position)")
    f = fs[0]
    arms = [arm for g in fs for n in walk(g["body"]) if n.get("k") == "Match" and n.get("src") == "Normal" for arm in n["arms"]]
    bad, good = [], False
    for arm in arms or []:
        if any(str(q.get("path", "")).endswith("model::Value::Number") for q in walk(arm["pat"])):
            for m in walk(arm["body"]):
                if m.get("k") == "Cast" and m.get("from") == "f64" and m.get("ty") != "f64":
                    bad.append("casts the number from f64 to %s" % m.get("ty"))
                if m.get("k") == "Binary" and m["op"] == "==":
                    sides = [m["a"], m["b"]]
                    tys = [x.get("ty") for x in sides]
                    if "f64" in tys:
                        good = True
    ok = good and not bad
    res.oblige(1, ok)
    if not ok:
        res.add(Finding("R08-4", "eval_predicate", "numeric predicate: %s" % ("; ".join(bad) or "no f64 equality with the context position found"),
                        f["file"], f["line"], {}))


def r08_6(facts, res):
    """XPath 1.0 3.7: white space may be used before and after every token, also before the first and after the last one.
    query() hands the text to expr::parse and refuses a non-empty rest: either parse consumes white space on both sides, or
    query trims the text before parsing and the rest before testing it."""
    st = res.rule("R08-6", instances=1)
    q = facts.fn("xml_xpath::query")
    trims = [m for m in walk(q["body"]) if m.get("k") == "MethodCall" and m["m"] in ("trim", "trim_start", "trim_end", "trim_start_matches", "trim_end_matches", "trim_matches")]
    lead = any(any(x.get("k") == "Path" and x.get("name") == "expr" for x in walk(m.get("recv", {}))) for m in trims)
    trail = any(any(x.get("k") == "Path" and x.get("name") == "rest" for x in walk(m.get("recv", {}))) for m in trims)
    p = facts.fn("xml_xpath::expr::parse")
    in_parse = sum(1 for m in walk(p["body"]) if m.get("k") == "Path" and str(m.get("path", "")).endswith("multispace0")) >= 2
    ok = in_parse or (lead and trail)
    res.oblige(1, ok)
    if not ok:
        res.add(Finding("R08-6", "query|outer-white-space", "query(): white space %s is not accepted (query(\" //y\") is a syntax error, "
                        "query(\"//y \") leaves a rest)" % " and ".join(w for w, have in (("before the first token", lead), ("after the last token", trail)) if not have),
                        q["file"], q["line"], {}))


def run(facts, tier):
    import xpath10
    res = Result("C08")
    res.explanation = (
        "static: R08-1 every function of the expression grammar is compared with productions [1]-[39] of XPath 1.0 by automaton "
        "equivalence (structural productions are atoms on both sides, lexical ones are inlined to characters; optional white "
        "space is part of the reference between any two tokens, so a missing multispace0 is a language difference); R01-2 ordered "
        "choice on the 17 alts; R08-3 abbreviated and unabbreviated steps apply the same evaluator functions; R08-4 numeric "
        "predicate compares as numbers; R08-5 token -> variant -> primitive tables for all operators, axes and node types.")
    res.assumptions = ["equality of the results of two spellings as values is not computed beyond these structural agreements",
                       "leading / trailing white space around the whole expression is not part of `between tokens` and is not judged"]
    rows, ex = e2.conformance(facts, xpath10)
    e2.conformance_findings(rows, "R08-1", res)
    if res.rules["R08-1"]["instances"] < 15:
        raise BrokenCheck("R08-1: %d productions (floor 15)" % res.rules["R08-1"]["instances"])
    ex2 = tokens.extractor_for_xpath(facts)
    e2.ordered_choice(facts, ex2, res, "R01-2", XPATH_GRAMMAR, ORDERED_CHOICE_REASONS)
    if res.rules["R01-2"]["instances"] < 9:
        raise BrokenCheck("R01-2: %d alts (floor 9)" % res.rules["R01-2"]["instances"])
    r08_3(facts, res)
    r08_4(facts, res)
    r08_7(facts, res)
    r08_8(facts, res)
    r08_5(facts, res)
    res.notes.extend(ex.notes)
    res.functions_analysed = len(rows)
    r08_6(facts, res)
    return res


ORDERED_CHOICE_REASONS = {}
