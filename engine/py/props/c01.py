"""C01 — well-formed documents are accepted and yield the infoset they denote (structural clauses)."""
import e2
import restcheck
from common import Finding, Result
from facts import BrokenCheck, walk

LEVEL = "other"

XML_GRAMMAR = lambda f: f["crate"] in ("xml_parser", "xml_nom") and f["kind"] == "Fn" and "::model::" not in f["path"] \
    and "helper" not in f["path"] and "xmlchar" not in f["path"] and "nom::Err<" in f.get("sig", "")

ORDERED_CHOICE_REASONS = {
    "xml_parser::att_def|alt|qname<ns_att_name": "alternative 1 (qname) is a greedy run of name characters: on `xmlns` or `xmlns:p` it consumes the "
                                     "whole name itself, so the later alternative ns_att_name is merely unreachable; both spellings "
                                     "yield the same (local, prefix) pair in XmlDeclarationAttDef::new",
}

# arms of constructor matches that may drop their payload (not information items)
DROP_OK = {
    ("xml_info::XmlAttributeValue::new", "_"): "the catch-all follows `Text(v) if !v.is_empty()`: only an empty text run reaches it "
                                               "(the two Reference variants are matched above), and an empty run is no item",
    ("xml_info::XmlDocument::new::add_misc", "Whitespace"): "white space between markup in prolog / epilog is not an information item",
    ("xml_info::XmlDocumentTypeDeclaration::build", "Whitespace"): "white space in the internal subset is not an information item",
    ("xml_info::XmlDocumentTypeDeclaration::build", "Commnect"): "comments inside the DTD are not part of the information set (Infoset 2.4 note)",
    ("xml_info::XmlDocumentTypeDeclaration::build", "Element"): "element type declarations have no information item",
}


# the same reasons, keyed by the variant of the parser model (a renamed or split constructor keeps them)
DROP_OK_BY_VARIANT = {
    ("Misc", "Whitespace"): "white space between markup in prolog / epilog is not an information item",
    ("InternalSubset", "Whitespace"): "white space in the internal subset is not an information item",
    ("DeclarationMarkup", "Commnect"): "comments inside the DTD are not part of the information set (Infoset 2.4 note)",
    ("DeclarationMarkup", "Element"): "element type declarations have no information item",
}

CONSTRUCTOR_FNS = ("node", "new", "from", "add_misc", "attribute_name", "qname", "external_id")


def pattern_bindings(pat):
    """[(variant name, [binding lids], has_wild_payload, path)] - one entry per *leaf* variant: a pattern that wraps another
    variant pattern of the parser model (`InternalSubset::Markup(DeclarationMarkup::Attributes(v))`) is described by the inner
    variant, so a nested `match` and its flattened form give the same entries."""
    out = []
    for p in ([pat] if pat.get("p") != "Or" else pat["pats"]):
        while p.get("p") in ("Ref", "Deref"):
            p = p["sub"]
        if p.get("p") == "Or":
            out += pattern_bindings(p)
            continue
        if p.get("p") in ("TupleStruct", "Struct", "Expr"):
            path = p.get("path") or p.get("e", {}).get("path") or ""
            variant = path.split("::")[-1]
            subs = p.get("pats") or [x["pat"] for x in p.get("fields", [])]
            inner = subs[0] if len(subs) == 1 else None
            while inner is not None and inner.get("p") in ("Ref", "Deref"):
                inner = inner["sub"]
            if inner is not None and (inner.get("p") in ("TupleStruct", "Struct", "Or") or
                                      (inner.get("p") == "Expr" and inner["e"].get("k") == "Path")) and \
                    all("::model::" in str(q.get("path") or q.get("e", {}).get("path") or "")
                        for q in ([inner] if inner.get("p") != "Or" else inner["pats"]) if q.get("p") != "Or"):
                out += pattern_bindings(inner)
                continue
            binds, wild = [], False
            for q in walk(subs):
                if q.get("p") == "Bind":
                    binds.append((q["lid"], q["name"]))
                elif q.get("p") == "Wild":
                    wild = True
            out.append((variant, binds, wild, path))
        elif p.get("p") in ("Wild", "Bind"):
            out.append(("_", [], True, ""))
    return out


def r01_3(facts, res):
    """Constructor completeness: in every `match` over an enum of xml_parser::model inside xml_info, each arm uses every payload
    binding and ends in a sink (push / constructor call / returned value); arms that drop their payload are on the reasoned list."""
    rule = "R01-3"
    st = res.rule(rule, instances=0, matches=0, dropped_reasoned=0)
    for f in facts.fns.values():
        if f["crate"] != "xml_info" or "body" not in f or f.get("derived"):
            continue
        # constructors: the named ones, every function that returns an information item, and the private pieces such a function
        # is split into (`XmlElement::node` -> `push_content`)
        ret = f.get("sig", "").split("->")[-1] if "->" in f.get("sig", "") else ""
        if "::tests::" in f["path"]:
            continue
        if not (f["path"].split("::")[-1] in CONSTRUCTOR_FNS or "Xml" in ret):
            r = facts.root_of(f)
            rret = r.get("sig", "").split("->")[-1] if "->" in r.get("sig", "") else ""
            if r["id"] == f["id"] or not (r["path"].split("::")[-1] in CONSTRUCTOR_FNS or "Xml" in rret):
                continue
        for n in walk(f["body"]):
            if n.get("k") != "Match" or n.get("src") != "Normal":
                continue
            sty = str(n.get("scrutty", ""))
            if "xml_parser::model::" not in sty and "xml_nom::model::" not in sty:
                continue
            if sty.startswith(("std::option::Option", "&std::option::Option")):
                continue
            st["matches"] += 1
            enum_name = sty.replace("&", "").split("<")[0].split("::")[-1]
            for arm in n["arms"]:
                for variant, binds, wild, path in pattern_bindings(arm["pat"]):
                    st["instances"] += 1
                    key = "%s|%s::%s" % (f["path"], enum_name, variant)
                    used = {m["lid"] for m in walk(arm["body"]) if m.get("k") == "Path" and m.get("res") == "Local"}
                    unused = [name for lid, name in binds if lid not in used and not name.startswith("_")]
                    # values built from the payload must go somewhere: a local initialised from the payload and never read
                    # again is a dropped item (`let _comment = XmlComment::node(v.value, ..);`)
                    tainted = {lid for lid, _ in binds}
                    dead = []
                    lets = [m for m in walk(arm["body"]) if m.get("s") == "Let" and "init" in m]
                    changed = True
                    while changed:
                        changed = False
                        for m in lets:
                            if any(x.get("k") == "Path" and x.get("res") == "Local" and x.get("lid") in tainted for x in walk(m["init"])):
                                for q in walk(m["pat"]):
                                    if q.get("p") == "Bind" and q["lid"] not in tainted:
                                        tainted.add(q["lid"])
                                        changed = True
                    for m in lets:
                        for q in walk(m["pat"]):
                            if q.get("p") == "Bind" and q["lid"] in tainted and q["lid"] not in used:
                                dead.append(q["name"])
                    unused = unused + ["%s (built from the payload, never used)" % d for d in dead]
                    # an arm guard may only ask whether the payload is empty: `Text(v) if !v.is_empty()`.  A guard on a derived
                    # value (`!v.trim().is_empty()`) sends white-space-only text to the catch-all arm, i.e. drops it.
                    g = arm.get("guard")
                    if g is not None and binds:
                        calls = [m["m"] for m in walk(g) if m.get("k") == "MethodCall"]
                        if calls != ["is_empty"]:
                            unused = unused + ["guard `%s` narrows the arm" % ".".join(reversed(calls))]
                    has_payload = bool(binds) or wild
                    body_empty = arm["body"].get("k") == "Block" and not arm["body"].get("stmts") and "expr" not in arm["body"]
                    drops = (wild and has_payload and variant != "_" and _variant_has_fields(facts, sty, variant)) or unused or \
                        (body_empty and _variant_has_fields(facts, sty, variant)) or variant == "_"
                    if drops:
                        leaf_enum = path.split("::")[-2] if path.count("::") >= 1 else enum_name
                        if (f["path"], variant) in DROP_OK or (leaf_enum, variant) in DROP_OK_BY_VARIANT:
                            st["dropped_reasoned"] += 1
                            res.oblige(1, True)
                            continue
                        res.oblige(1, False)
                        what = "ignores binding(s) %s" % unused if unused else "drops the payload of the variant"
                        if variant == "_":
                            what = "has a catch-all arm: variants added to the parser model would be dropped silently"
                        res.add(Finding(rule, key, "%s: the arm for %s::%s %s" % (f["path"], enum_name, variant, what),
                                        f["file"], arm.get("ln"), {}))
                    else:
                        res.oblige(1, True)
    if st["matches"] < 6 or st["instances"] < 33:
        raise BrokenCheck("R01-3: %d matches / %d arms (floor 6 / 33)" % (st["matches"], st["instances"]))
    # order of head / child / tail in XmlElement::node
    f = facts.fn("xml_info::XmlElement::node")
    ok = False
    for n in (m for g in facts.family(f) for m in walk(g["body"])):
        if n.get("k") == "Match" and n.get("src") == "ForLoop":
            # loop body block: statements in order
            # the block of the loop over content cells: the first statement that reads `cell.child` comes before the first
            # one that reads `cell.tail` (whatever the form: if-let, match, or a helper that is handed the field)
            for b in walk(n):
                if b.get("k") == "Block":
                    kinds = []
                    for s in b.get("stmts", []) + ([{"e": b["expr"]}] if "expr" in b else []):
                        e = s.get("e") or s.get("init") or {}
                        fields = {m.get("name") for m in walk(e) if m.get("k") == "Field" and "Content" in str(m.get("basety", ""))}
                        if "child" in fields and "tail" in fields:
                            kinds.append("both")        # an enclosing block: look at the inner one
                        elif "child" in fields:
                            kinds.append("child")
                        elif "tail" in fields:
                            kinds.append("tail")
                    if kinds == ["child", "tail"]:
                        ok = True
    st["instances"] += 1
    res.oblige(1, ok)
    if not ok:
        res.add(Finding(rule, "XmlElement::node|order", "XmlElement::node must push, per content cell, the child item and then the tail text",
                        f["file"], f["line"], {}))


def _variant_has_fields(facts, sty, variant):
    name = sty.replace("&", "").split("<")[0]
    adt = facts.adts.get(name)
    if adt is None:
        for p, a in facts.adts.items():
            if p.endswith(name.split("::", 1)[-1]):
                adt = a
    if adt is None:
        return True
    for v in adt["variants"]:
        if v["name"] == variant:
            return bool(v["fields"])
    return True


def grammar_rules(facts, res, tier, rule="R01-1"):
    import xml10
    rows, ex = e2.conformance(facts, xml10)
    e2.conformance_findings(rows, rule, res)
    if res.rules[rule]["instances"] < 33:
        raise BrokenCheck("%s: %d productions compared (floor 33)" % (rule, res.rules[rule]["instances"]))
    res.extra["grammar"] = {"productions": len(rows), "alts": len(ex.alts), "loops": len(ex.loops)}
    return ex


def r01_8(facts, res):
    """Character data after reference expansion: an entity reference in *content* contributes its replacement text as it
    stands.  White-space normalisation (normalize_ws) belongs to attribute values only, so on every call path from
    XmlUnexpandedEntityReference::value (the expansion used for merged text) a call of normalize_ws has to be
    control-dependent on a flag that value() does not set to a constant true."""
    import staleidx
    rule = "R01-8"
    st = res.rule(rule, instances=0)
    v = facts.fn("xml_info::XmlUnexpandedEntityReference::value")
    nz = facts.fn("xml_info::normalize_ws")
    reach, parent = facts.reachable([v["id"]])
    if nz["id"] not in reach:
        st["instances"] += 1
        res.oblige(1, True)      # content expansion cannot reach the normalisation at all
        return
    # functions on the way that call normalize_ws directly
    for fid in sorted(reach, key=lambda i: facts.fns[i]["path"] if i in facts.fns else ""):
        f = facts.fns.get(fid)
        if f is None or "body" not in f or f["crate"] != "xml_info":
            continue
        seq = staleidx._walk_parents(f["body"])
        calls = [i for i, (n, _, _) in enumerate(seq) if n.get("k") == "Call" and str(n.get("f", {}).get("path", "")).endswith("xml_info::normalize_ws")]
        if not calls:
            continue
        flags = {p.get("lid"): p.get("name") for p in f.get("params", []) if isinstance(p, dict) and p.get("ty") == "bool"}
        for ci in calls:
            st["instances"] += 1
            guarded = False
            i = ci
            while i is not None:
                n, pi, slot = seq[i]
                if pi is not None:
                    pn = seq[pi][0]
                    cond = None
                    if pn.get("k") == "If" and slot in ("then", "else"):
                        cond = pn["cond"]
                    if cond is None and "guard" in pn and slot == "body":
                        cond = pn["guard"]
                    if cond is not None and any(x.get("k") == "Path" and x.get("lid") in flags for x in walk(cond)):
                        guarded = True
                        break
                i = pi
            res.oblige(1, guarded)
            if not guarded:
                res.add(Finding(rule, f["path"] + "|normalize_ws", "%s normalises white space unconditionally and is used to expand entity references "
                                "in element content (XmlUnexpandedEntityReference::value): a tab or line feed of the replacement text becomes a "
                                "space in the character data" % f["path"], f["file"], seq[ci][0].get("ln"), {}))
    # value() itself must not ask for normalisation with a constant
    for n in walk(v["body"]):
        if n.get("k") == "Call" and (n["f"].get("rid") or n["f"].get("id")) in reach:
            for a in n.get("args", []):
                if a.get("k") == "Lit" and a.get("v") is True:
                    st["instances"] += 1
                    res.oblige(1, False)
                    res.add(Finding(rule, "value|constant", "XmlUnexpandedEntityReference::value asks for attribute-value normalisation with a constant "
                                    "`true`: references in content are normalised too", v["file"], n.get("ln"), {}))


def r01_9(facts, res):
    """Entity references in the internal subset (attribute defaults) are resolved by Context::entity, which reads the
    document's document-type declaration.  The function that converts the internal subset therefore has to run with the
    declaration already attached to the document: otherwise <!ENTITY e 'x'><!ATTLIST r a CDATA '&e;'> - a well-formed
    document - is refused with NotFoundReference."""
    import guards
    rule = "R01-9"
    st = res.rule(rule, instances=0)
    ent = facts.fn("xml_info::Context::entity")["id"]
    reaches = {}

    def reach_ent(fid):
        if fid not in reaches:
            r, _ = facts.reachable([fid])
            reaches[fid] = ent in r
        return reaches[fid]
    new = facts.fn("xml_info::XmlDocument::new")
    for f in sorted(facts.fns.values(), key=lambda x: x["path"]):
        if f["crate"] != "xml_info" or "body" not in f or not f["path"].startswith("xml_info::XmlDocumentTypeDeclaration::"):
            continue
        seq = [n for n, _ in guards.ordered(f["body"])]
        conv = [i for i, n in enumerate(seq) if n.get("k") == "Call" and str(n.get("f", {}).get("path", "")).endswith("XmlDeclarationAttList::node")]
        if not conv or not reach_ent(f["id"]):
            continue
        st["instances"] += 1
        first = min(conv)
        attach = [i for i, n in enumerate(seq[:first]) if n.get("k") == "MethodCall" and str(n.get("path", "")).endswith("XmlDocument::push_child")]
        ok = bool(attach)
        why = "the declaration is attached to the document only after its internal subset was converted"
        if ok:
            # attachment may depend on a flag: the document constructor has to ask for it
            flags = {p.get("lid"): i for i, p in enumerate(f.get("params", [])) if isinstance(p, dict) and p.get("ty") == "bool"}
            conditional = None
            for i, n in enumerate(seq[:first]):
                if n.get("k") == "If" and any(x is seq[attach[0]] for x in walk(n.get("then", {}))) and \
                        any(x.get("k") == "Path" and x.get("lid") in flags for x in walk(n["cond"])):
                    conditional = [flags[x["lid"]] for x in walk(n["cond"]) if x.get("k") == "Path" and x.get("lid") in flags][0]
            if conditional is not None:
                calls = [n for n in walk(new["body"]) if n.get("k") == "Call" and (n["f"].get("rid") or n["f"].get("id")) == f["id"]]
                ok = bool(calls) and all(len(c["args"]) > conditional and c["args"][conditional].get("k") == "Lit" and c["args"][conditional].get("v") is True
                                         for c in calls)
                why = "XmlDocument::new does not ask %s to attach the declaration first" % f["path"]
        res.oblige(1, ok)
        if not ok:
            res.add(Finding(rule, f["path"].split("::")[-1], "%s converts the internal subset (its attribute defaults resolve entity references through "
                            "Context::entity -> Document::document_declaration) but %s: an attribute default that refers to an entity declared "
                            "earlier in the same subset is refused" % (f["path"], why), f["file"], seq[first].get("ln"), {}))
    if st["instances"] < 1:
        raise BrokenCheck("R01-9: no function converts attribute-list declarations and reaches Context::entity")


def r01_12(facts, res, rule="R01-12"):
    """XML 1.0 4.2: "If the same entity is declared more than once, the first declaration encountered is binding".  The lookup
    in Context::entity has to stop at the first declaration with the name: Iterator::find / position, or a loop that leaves
    at the match.  A loop that keeps assigning (last match wins), rfind, last() or rev() bind the last declaration."""
    import guards
    st = res.rule(rule, instances=1)
    f = facts.fn("xml_info::Context::entity")
    names = [m["m"] for m in walk(f["body"]) if m.get("k") == "MethodCall"]
    clos = [c for c in facts.fns.values() if c.get("parent") == f["path"] and "body" in c]
    first = any(m in ("find", "find_map", "position") for m in names) and not any(m in ("rev", "rfind", "rposition", "last") for m in names)
    if not first:
        # explicit loop: the branch that matches the name leaves the loop / function
        for n in walk(f["body"]):
            if n.get("k") == "Loop" or (n.get("k") == "Match" and n.get("src") == "ForLoop"):
                for i in walk(n):
                    if i.get("k") == "If" and any(x.get("k") == "Binary" and x.get("op") == "==" for x in walk(i["cond"])) and \
                            any(x.get("k") in ("Ret", "Break") for x in walk(i["then"])):
                        first = True
    res.oblige(1, first)
    if not first:
        res.add(Finding(rule, "Context::entity", "Context::entity does not stop at the first declaration of the name (no find / position and no "
                        "loop exit at the match): a re-declared entity binds its last declaration", f["file"], f["line"], {}))


ERROR_DROPPERS = ("ok", "unwrap_or", "unwrap_or_default", "unwrap_or_else", "is_ok", "is_err", "err")


def r01_13(facts, res, rule="R01-13"):
    """Error discipline of the conversion parser model -> information set: a Result<_, error::Error> produced while a
    document is built (functions reachable from XmlDocument::new) is propagated; `.ok()`, `unwrap_or*`, `let _ =`, `if let Ok`
    turn an ill-formed construct (undeclared entity, illegal character reference in an attribute default) into nothing."""
    st = res.rule(rule, instances=0)
    reach, _ = facts.reachable([facts.fn("xml_info::XmlDocument::new")["id"]])
    for fid in sorted(reach, key=lambda i: facts.fns[i]["path"] if i in facts.fns else ""):
        f = facts.fns.get(fid)
        if f is None or f["crate"] != "xml_info" or "body" not in f or f.get("derived"):
            continue
        for n in walk(f["body"]):
            if n.get("k") == "MethodCall" and n["m"] in ERROR_DROPPERS:
                rt = str(n.get("recvty", "")).lstrip("&")
                if rt.startswith("std::result::Result<") and "error::Error" in rt:
                    r = n.get("recv", {})
                    callee = r.get("m") or str(r.get("f", {}).get("path", ""))
                    st["instances"] += 1
                    res.oblige(1, False)
                    res.add(Finding(rule, "%s|%s|%s" % (f["path"], n["m"], callee.split("::")[-1]), "%s discards the error of %s with .%s(): an ill-formed "
                                    "construct met while the document is built is silently dropped instead of refusing the document"
                                    % (f["path"], callee, n["m"]), f["file"], n.get("ln"), {}))
            if n.get("k") == "Match" and n.get("src") == "Try":
                st["instances"] += 1
                res.oblige(1, True)
    if st["instances"] < 7:
        raise BrokenCheck("%s: %d fallible steps in the construction (floor 7)" % (rule, st["instances"]))


VARIANT_MAP = {
    # constructor: {parser-model variant: information-set variant it must build}
    "xml_info::XmlEntityValue::new": {"ParameterEntityReference": "Parameter", "Character": "Character", "Entity": "Entity", "Text": "Text"},
    "xml_info::XmlAttributeValue::new": {"Character": "Char", "Entity": "Entity", "Text": "Text"},
}


def r01_14(facts, res, rule="R01-14"):
    """The kinds of the pieces of a literal survive the conversion: a parameter-entity reference inside an entity literal stays
    a Parameter piece (which the expansion refuses), a character reference a Character piece ...; re-labelling a piece as Text
    makes an unsupported or special construct look like plain text."""
    from props.c08 import variants_of_pat
    st = res.rule(rule, instances=0)
    for path, want in VARIANT_MAP.items():
        f = facts.fn(path)
        for n in walk(f["body"]):
            if n.get("k") != "Match" or n.get("src") != "Normal":
                continue
            for arm in n["arms"]:
                for v in variants_of_pat(arm["pat"]):
                    if v not in want:
                        continue
                    st["instances"] += 1
                    built = {str(m.get("path") or m.get("f", {}).get("path", "")).split("::")[-1] for m in walk(arm["body"])
                             if (m.get("k") == "Path" and str(m.get("res", "")).startswith("Ctor")) or
                             (m.get("k") == "Call" and str(m.get("f", {}).get("res", "")).startswith("Ctor"))}
                    built &= set(want.values()) | {"Text", "Parameter", "Character", "Char", "Entity"}
                    nested = [a for a in walk(arm["body"]) if a.get("k") == "Match" and a.get("src") == "Normal"]
                    ok = want[v] in built and (built <= {want[v]} or nested)
                    res.oblige(1, ok)
                    if not ok:
                        res.add(Finding(rule, "%s|%s" % (path.split("::")[-2], v), "%s builds %s for a %s piece (expected %s)"
                                        % (path, sorted(built) or "nothing", v, want[v]), f["file"], arm.get("ln"), {}))
    if st["instances"] < 3:
        raise BrokenCheck("%s: %d arms (floor 3)" % (rule, st["instances"]))


def run(facts, tier):
    res = Result("C01")
    res.explanation = (
        "static: R01-1 every parser function mapped to a production of XML 1.0 5e / Namespaces is turned into a regular term "
        "(nom combinators and character predicates are interpreted from the typed tree), expanded to characters with the "
        "recursive non-terminals element and cp as atoms, and compared with the production by automaton equivalence (both "
        "directions, shortest witness); R01-2 ordered-choice soundness of every alt (no earlier alternative matches a proper "
        "prefix of a later one); R01-3 constructor completeness (every arm of a match over the parser model reaches the "
        "information set or is a reasoned drop; child before tail); R02-1 callers test the rest.")
    res.assumptions = ["accessor values (reference expansion, merged text, lookups) are not computed",
                       "PEG commitment inside one alternative is covered only by R01-2's prefix condition"]
    ex = grammar_rules(facts, res, tier)
    e2.ordered_choice(facts, ex, res, "R01-2", XML_GRAMMAR, ORDERED_CHOICE_REASONS)
    if res.rules["R01-2"]["instances"] < 22:
        raise BrokenCheck("R01-2: %d alts (floor 22)" % res.rules["R01-2"]["instances"])
    r01_3(facts, res)
    restcheck.rule(facts, res, "R02-1", floor=15)
    # character data / attribute values after reference expansion: the expansion must not refuse a legal second mention of an
    # entity (visited stack is a path: push and pop pair up), and declared defaults are added exactly when not written
    import guards
    from props import c11
    reach, _ = facts.reachable(c11.expansion_roots(facts))
    guards.rule(facts, res, "R01-6", [facts.fns[x] for x in reach if x in facts.fns], want=("G3",), floor=1)
    c11.c11_7(facts, res, facts.fn("xml_info::<XmlElement as Element>::attributes"), rule="R01-7")
    r01_8(facts, res)
    r01_9(facts, res)
    r01_12(facts, res)
    r01_13(facts, res)
    r01_14(facts, res)
    c11.c11_8(facts, res, "R01-15")
    c11.c11_1(facts, res, "R01-11")     # attribute values after reference expansion: the arms of the two expansion routines
    # a well-formed start tag may carry a:id next to b:id: the duplicate test has to compare whole names (shared with C02)
    from props import c02
    ok, why = c02.wfc_unique_att(facts)
    res.rule("R01-10", instances=1)
    res.oblige(1, ok)
    if not ok:
        f = facts.fn("xml_info::XmlElement::node")
        res.add(Finding("R01-10", "Unique Att Spec", "XmlElement::node: %s" % why, f["file"], f["line"], {}))
    res.functions_analysed = res.extra["grammar"]["productions"]
    return res
