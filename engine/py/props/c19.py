"""C19 — determinism and side-effect freedom: R19-1 push/pop pairing, R19-2 query is read-only,
R19-3 no source of run-to-run variation."""
import re

import e1
import e4
import entries
from common import Finding, Result
from facts import BrokenCheck

LEVEL = "other"

PUSH_POP = {"size": ("eval::model::Context::push_size", "eval::model::Context::pop_size"),
            "position": ("eval::model::Context::push_position", "eval::model::Context::pop_position")}

NONDET = [
    (r"^std::collections::(hash::map::)?Hash(Map|Set)::<.*>::(iter|iter_mut|keys|values|values_mut|into_keys|into_values|drain|retain)$", "hash iteration order"),
    (r"^<.*std::collections::(hash::(map|set)::)?Hash(Map|Set)<.*> as std::iter::IntoIterator>::into_iter$", "hash iteration order"),
    (r"^std::time::(Instant|SystemTime)::now$", "clock"),
    (r"^std::env::(var|vars|var_os|args|current_dir)", "environment"),
    (r"^std::thread::", "threads"),
    (r"^std::process::id$", "process id"),
    (r"::new_pointer$|fmt::Pointer", "address formatting"),
    (r"^std::(collections::)?hash::(random::)?RandomState::(new|build_hasher)$", None),   # construction alone is fine
]
NONDET = [(re.compile(a), b) for a, b in NONDET]

# functions allowed to write while a query runs (one named symbol, one reason)
READ_PATH_WRITERS = {
    "xml_info::XmlAttribute::new_from_declaration": "fills the value list of the attribute item it has just built for a "
                                                     "declared default; the item is a fresh object not stored in the document",
    "xml_info::HasContext::order": "refreshes the per-item cache of its own order key from the order vector; the value "
                                   "written is a function of the (unchanged) order vector",
}


def mutators(facts):
    """Functions of xml_info / xml_dom that write document state: RefCell::borrow_mut, or an assignment
    through a `&mut self` of an item type."""
    out = {}
    item_types = {"Context", "DocumentOrder", "IdManager", "ContextInfo"}
    for p, a in facts.adts.items():
        if a["crate"] == "xml_info" and a["kind"] == "struct" and \
                any(fl["ty"].endswith("Context") or fl["ty"].endswith("Context>") for fl in a["variants"][0]["fields"]):
            item_types.add(p.split("::")[-1])
    if len(item_types) < 7:
        raise BrokenCheck("R19-2: only %d item types recognised" % len(item_types))
    for f in facts.fns.values():
        if f["crate"] not in ("xml_info", "xml_dom") or f.get("derived"):
            continue
        why = []
        for bi, t in facts.mir_calls(f):
            c = t.get("callee")
            if c and facts.callee_name(c) == "std::cell::RefCell::<T>::borrow_mut":
                why.append("borrow_mut@%s" % t.get("ln"))
        m = f.get("mir")
        if m and m["argc"] >= 1 and m["locals"][1]["ty"].startswith("&mut ") and \
                m["locals"][1]["ty"][5:].split("<")[0].split("::")[-1] in item_types:
            for b in m["blocks"]:
                if b.get("cleanup"):
                    continue
                for st in b["stmts"]:
                    if st["ll"] == 1 and st["l"].startswith("((*_1)."):
                        why.append("field-write@%s" % st.get("ln"))
        if why:
            out[f["id"]] = why
    return out


def run(facts, tier):
    res = Result("C19")
    res.explanation = (
        "static: R19-1 forward dataflow over the MIR CFG of every evaluator function that pushes a context frame: the "
        "number of pending push_size / push_position frames must be zero at every Return (all `?` exits included); "
        "R19-2 the functions reachable from xml_xpath::query are intersected with the functions that write document "
        "state (RefCell::borrow_mut or a field assignment through &mut self of an item type); R19-3 no call that "
        "introduces run-to-run variation (hash iteration order, clocks, environment, addresses) is reachable from "
        "parse, print or query.")
    res.assumptions = ["unwind edges ignored", "equality of two parses follows only together with the absence of hidden state, which is argued (DESIGN §3 C19), not computed"]
    # ---- R19-1
    st = res.rule("R19-1", instances=0, functions=0)
    for f in facts.fns.values():
        if f["crate"] != "xml_xpath" or not f["path"].startswith("xml_xpath::eval::"):
            continue
        n_push, viol = e4.pairing(facts, f, PUSH_POP)
        if n_push == 0:
            continue
        st["functions"] += 1
        st["instances"] += n_push
        res.oblige(n_push, not viol)
        res.sample({"rule": "R19-1", "fn": f["path"], "pushes": n_push, "exits_with_pending_frames": len(viol)})
        seenk = set()
        for v in viol:
            pend = "+".join(k for k, n in sorted(v["state"].items()) if n)
            key = "%s|pending=%s|after=%s" % (f["path"], pend, v["last_call"])
            if key in seenk:
                continue
            seenk.add(key)
            ln = facts.blocks(f)[v["path"][-2]]["term"].get("ln") if len(v["path"]) > 1 else f["line"]
            res.add(Finding("R19-1", key,
                            "%s can return with pending context frame(s) %s after %s: blocks %s"
                            % (f["path"], pend, v["last_call"], v["path"][-8:]), f["file"], ln,
                            {"path_blocks": v["path"], "state": v["state"]}))
    if st["functions"] < 1 or st["instances"] < 2:
        raise BrokenCheck("R19-1: %d functions / %d pushes found, floor 1 / 2" % (st["functions"], st["instances"]))
    # ---- R19-2
    q = [facts.fn("xml_xpath::query")["id"]]
    reach, parent = facts.reachable(q)
    mut = mutators(facts)
    inter = sorted(set(mut) & reach, key=lambda i: facts.fns[i]["path"])
    st2 = res.rule("R19-2", instances=len(inter), reachable=len(reach), mutators=len(mut))
    if not mut or len(reach) < 60:
        raise BrokenCheck("R19-2: mutator set (%d) or reachable set (%d) implausibly small" % (len(mut), len(reach)))
    for fid in inter:
        f = facts.fns[fid]
        ok = f["path"] in READ_PATH_WRITERS
        res.oblige(1, ok)
        if not ok:
            chain = facts.path_to(parent, fid)
            res.add(Finding("R19-2", f["path"], "a function that writes document state (%s) is reachable from query: %s"
                            % (", ".join(mut[fid][:3]), " -> ".join(chain[-5:])), f["file"], f["line"], {"chain": chain}))
    # ---- R19-3
    roots = entries.c03(facts) + entries.c06(facts)
    reach3, parent3 = facts.reachable(roots)
    st3 = res.rule("R19-3", instances=0, reachable=len(reach3))
    for fid in sorted(reach3, key=lambda i: facts.fns[i]["path"]):
        f = facts.fns[fid]
        for bi, t in facts.mir_calls(f):
            c = t.get("callee")
            if not c:
                continue
            n = facts.callee_name(c)
            for rx, what in NONDET:
                if rx.search(n):
                    if what is None:
                        break
                    st3["instances"] += 1
                    res.oblige(1, False)
                    res.add(Finding("R19-3", "%s|%s" % (f["path"], n.split("::")[-1]),
                                    "%s calls %s (%s) on a parse / print / query path" % (f["path"], n, what),
                                    f["file"], t.get("ln"), {"chain": facts.path_to(parent3, fid)}))
                    break
    res.oblige(1, True)
    # positive control of the table on every run: the command-line tools read their arguments (std::env::args), which is
    # outside the library paths; if the table cannot see that call it cannot see the others either
    anywhere = 0
    for f in facts.fns.values():
        for bi, t in facts.mir_calls(f):
            c = t.get("callee")
            if c and any(rx.search(facts.callee_name(c)) and what for rx, what in NONDET):
                anywhere += 1
    st3["table_matches_outside_the_library_paths"] = anywhere
    if anywhere < 2:
        raise BrokenCheck("R19-3: the table of non-deterministic calls matches %d call(s) in the whole workspace; the tools xq and xe "
                          "call std::env::args (positive control, floor 2)" % anywhere)
    res.functions_analysed = len(reach3)
    # a re-used context answers like a fresh one that carries the current bindings: writer and readers of the prefix
    # bindings agree (C10-5)
    from props import c10
    c10.c10_5(facts, res)
    # a query refreshes cached order keys of the nodes it touches: the cache discipline decides whether a query changes the
    # result of a later one (C14-8)
    from props import c14
    c14.c14_8(facts, res, "R19-5")
    # equal documents: item equality is structural
    from props import c04
    c04.structural_eq(facts, res, "R19-4")
    return res
