"""C10 — namespaces (narrow): prefix independence of name tests, default namespace and attributes, scope shape."""
import e1
import e2
from common import Finding, Result
from facts import BrokenCheck, walk
from props import c01

LEVEL = "other"


def lits_in(node, value):
    return [m for m in walk(node) if m.get("k") == "Lit" and m.get("t") == "str" and m.get("v") == value]


def run(facts, tier):
    res = Result("C10")
    res.explanation = (
        "static (narrow): C10-1 in the XPath name tests the prefix component of an expanded name is never bound or compared "
        "(only local part and namespace URI are); C10-2 the key of the default namespace (\"xmlns\") is not used to resolve an "
        "unprefixed *attribute* (it is for elements); C10-3 shape of XmlElement::in_scope_namespace: own declarations first, "
        "inherited ones only for prefixes not declared locally, the implicit xml binding at the document element, empty URIs "
        "dropped after merging; C10-4 ordered choice of attribute / ns_att_name (R01-2); C10-5 writer and readers of the "
        "evaluation context's prefix bindings agree (replace-on-write or newest-first lookup).")
    res.assumptions = ["expanded names as values and renaming invariance beyond C10-1 are not computed"]
    # ---- C10-1
    st = res.rule("C10-1", instances=0)
    for path in ("xml_xpath::eval::equal_qname", "xml_xpath::eval::eval_node_test"):
        f = facts.fn(path)
        st["instances"] += 1
        bad = []
        for n in walk(f["body"]):
            pat = n.get("pat") if (n.get("k") == "Let" or n.get("s") == "Let") else None
            if pat is None:
                continue
            for p in walk(pat):
                if p.get("p") == "Tuple" and len(p["pats"]) == 3:
                    mid = p["pats"][1]
                    if mid.get("p") != "Wild":
                        bad.append("binds the prefix component as `%s`" % mid.get("name", mid.get("p")))
        # get_ns_uri / expanded_name are the only readers of the caller's bindings
        for m in walk(f["body"]):
            if m.get("k") == "MethodCall" and m["m"] == "prefix":
                bad.append("reads a prefix directly")
        res.oblige(1, not bad)
        if bad:
            res.add(Finding("C10-1", path.split("::")[-1], "%s: %s - a name test must only compare local part and namespace URI" % (path, "; ".join(sorted(set(bad)))),
                            f["file"], f["line"], {}))
    # equal_qname compares local parts and URIs (two ==)
    f = facts.fn("xml_xpath::eval::equal_qname")
    st["instances"] += 1
    # the answer is a conjunction of exactly two equalities between locals (local parts, namespace names); tests on the
    # node kind elsewhere in the function are not part of the comparison
    conj = [m for m in walk(f["body"]) if m.get("k") == "Binary" and m.get("op") == "&&"]
    ops = [m["op"] for c in conj for m in walk(c) if m.get("k") == "Binary"]
    ok = len(conj) == 1 and ops.count("==") == 2 and "||" not in ops and "!=" not in ops and \
        all(x.get("k") == "Binary" and x.get("op") == "==" for x in (conj[0]["a"], conj[0]["b"]))
    ok = ok and not any(m.get("k") == "Binary" and m.get("op") == "||" for m in walk(f["body"]))
    res.oblige(1, ok)
    if not ok:
        res.add(Finding("C10-1", "equal_qname|shape", "equal_qname must be `local_a == local_b && uri_a == uri_b` (operators found: %s)" % ops, f["file"], f["line"], {}))
    # ---- C10-2
    st2 = res.rule("C10-2", instances=2)
    fa = facts.fn("xml_dom::<XmlAttr as AsExpandedName>::as_expanded_name")
    fe = facts.fn("xml_dom::<XmlElement as AsExpandedName>::as_expanded_name")
    # attribute: the namespace lookup (in_scope_namespace) must be dominated by a test of prefix().is_none()/is_some()
    succ = e1.cfg(facts, fa)
    dom, _ = e1.dominators(succ)
    look = [bi for bi, t in facts.mir_calls(fa) if t.get("callee") and facts.callee_name(t["callee"]).endswith("XmlElement::in_scope_namespace")]
    tests = [bi for bi, t in facts.mir_calls(fa) if t.get("callee") and facts.callee_name(t["callee"]) in
             ("std::option::Option::<T>::is_none", "std::option::Option::<T>::is_some")]
    guarded = bool(look) and all(any(t in dom[l] for t in tests) for l in look)
    uses_default_key = bool(lits_in(fa["body"], "xmlns")) and not guarded
    res.oblige(1, not uses_default_key)
    if uses_default_key:
        res.add(Finding("C10-2", "XmlAttr::as_expanded_name", "an unprefixed attribute is resolved with the key of the default namespace (\"xmlns\"): "
                        "the default namespace must not apply to attributes", fa["file"], fa["line"], {}))
    ok_e = bool(lits_in(fe["body"], "xmlns"))
    res.oblige(1, ok_e)
    if not ok_e:
        res.add(Finding("C10-2", "XmlElement::as_expanded_name", "an unprefixed element must be resolved with the default namespace", fe["file"], fe["line"], {}))
    # info level: XmlAttribute::namespace_name answers None without prefix; XmlElement::namespace_name uses the default key
    ia = facts.fn("xml_info::<XmlAttribute as Attribute>::namespace_name")
    st2["instances"] += 1
    ok_ia = not [m for m in walk(ia["body"]) if m.get("k") == "MethodCall" and m["m"] in ("unwrap_or",) and lits_in(m, "xmlns")]
    res.oblige(1, ok_ia)
    if not ok_ia:
        res.add(Finding("C10-2", "XmlAttribute::namespace_name", "unprefixed attribute resolved with the default namespace", ia["file"], ia["line"], {}))
    # ---- C10-3
    st3 = res.rule("C10-3", instances=0)
    f = facts.fn("xml_info::<XmlElement as Element>::in_scope_namespace")
    succ = e1.cfg(facts, f)
    dom, _ = e1.dominators(succ)
    calls = [(bi, facts.callee_name(t["callee"])) for bi, t in facts.mir_calls(f) if t.get("callee")]
    fam = facts.family(f)          # in_scope_namespace and the private pieces it may be split into (inherited_namespaces ..)
    fam_calls = [facts.callee_name(t["callee"]) for g in fam for _, t in facts.mir_calls(g) if t.get("callee")]
    own = [bi for bi, n in calls if n == "xml_info::XmlElement::namespaces"]
    push = [bi for bi, n in calls if n.endswith("Vec::<T, A>::push")]
    retain = [bi for bi, n in calls if n.endswith("Vec::<T, A>::retain")]
    checks = [
        ("own declarations first", bool(own) and all(own[0] in dom[p] for p in push)),
        ("implicit xml binding", "xml_info::XmlNamespace::xml" in fam_calls and (any(_flows_into_push(g, "XmlNamespace::xml") for g in fam) or
                                                                                     any(_flows_into_pushing_helper(facts, g, fam, "XmlNamespace::xml") for g in fam))),
        ("inherits from the parent", any(n.endswith("Element::in_scope_namespace") or n == f["path"] for n in fam_calls)),
        ("empty URIs dropped after merging", bool(retain) and not any(p in e1_reach(succ, retain[0]) for p in push)),
    ]
    clos = [c for c in facts.fns.values() if c.get("parent") == f["path"]]
    # every binding that is added to the element's own declarations is added under a test that no declaration with the same
    # prefix is there already (one loop over all inherited bindings, or one test per source)
    def shadow_test(cond):
        for c in walk(cond):
            if c.get("k") == "Closure":
                if [m.get("m") for m in walk(c["body"]) if m.get("k") == "MethodCall"].count("prefix") >= 2 and \
                        any(m.get("k") == "Binary" and m.get("op") == "==" for m in walk(c["body"])):
                    return True
        return False
    # .. in the function or in the private pieces it hands the work to
    pushes, guarded = [], []
    for g in fam:
        ps = [n for n in walk(g["body"]) if n.get("k") == "MethodCall" and n["m"] == "push"]
        if g["id"] != f["id"]:
            # a piece that collects candidates in a list of its own (`inherited_namespaces() -> Vec`) adds nothing to the result;
            # only pushes into a list the piece was handed (`items: &mut Vec<..>`) are additions to the element's bindings
            import guards
            plids = {p_.get("lid") for p_ in g.get("params", []) if "Vec<" in str(p_.get("ty", ""))}
            ps = [n for n in ps if guards._root_local(n.get("recv"))[1] in plids]
        pushes += ps
        guarded += [n for n in ps if any(i.get("k") == "If" and shadow_test(i["cond"]) and any(m is n for m in walk(i["then"])) for i in walk(g["body"]))]
    checks.append(("inherited and implicit bindings are shadowed by prefix", bool(pushes) and len(guarded) == len(pushes)))
    # the retain closure drops empty namespace names
    empties = any("is_empty" in [facts.callee_name(t["callee"]).split("::")[-1] for _, t in facts.mir_calls(c) if t.get("callee")] for c in clos)
    checks.append(("retain tests is_empty()", empties))
    for name, ok in checks:
        st3["instances"] += 1
        res.oblige(1, ok)
        if not ok:
            res.add(Finding("C10-3", name, "XmlElement::in_scope_namespace: %s - not found in this shape" % name, f["file"], f["line"], {}))
    # namespace attribute recognition: prefix == "xmlns" or local name == "xmlns"
    g = facts.fn("xml_info::XmlAttribute::namespace")
    st3["instances"] += 1
    n_lit = len(lits_in(g["body"], "xmlns")) + sum(len(lits_in(c["body"], "xmlns")) for c in facts.fns.values() if c.get("parent") == g["path"] and "body" in c)
    ok = n_lit >= 2 and "||" in [m["op"] for m in walk(g["body"]) if m.get("k") == "Binary"]
    res.oblige(1, ok)
    if not ok:
        res.add(Finding("C10-3", "XmlAttribute::namespace", "namespace declarations are attributes with prefix xmlns or the name xmlns", g["file"], g["line"], {}))
    # ---- C10-4
    ex = e2.Extractor(facts)
    for fn in facts.fns.values():
        if c01.XML_GRAMMAR(fn) and "nom::Err<" in fn.get("sig", ""):
            try:
                ex.fn_term(fn)
            except e2.Unknown as u:
                raise BrokenCheck("grammar: %s" % u)
    e2.ordered_choice(facts, ex, res, "R01-2", lambda fn: fn["path"] in ("xml_parser::attribute", "xml_parser::ns_att_name", "xml_parser::att_def"),
                      c01.ORDERED_CHOICE_REASONS)
    c10_5(facts, res)
    adjacent_dedup(facts, res)
    c10_6(facts, res)
    c10_7(facts, res)
    c10_8(facts, res)
    res.functions_analysed = 8
    return res


def c10_6(facts, res):
    """Context::expanded_name applies the context's default binding to every unprefixed name.  That is right for element name
    tests only: every caller that expands something else (a function name, a name test that may meet an attribute) has to treat
    the unprefixed case separately, otherwise binding a default namespace makes `count(..)` an unknown function and `@id` a
    test for an attribute in the default namespace."""
    st = res.rule("C10-6", instances=0)
    for f in sorted(facts.fns.values(), key=lambda x: x["path"]):
        if f["crate"] != "xml_xpath" or "body" not in f or "::tests::" in f["path"]:
            continue
        calls = [n for n in walk(f["body"]) if n.get("k") == "MethodCall" and str(n.get("path", "")).endswith("Context::expanded_name")]
        if not calls:
            continue
        st["instances"] += 1
        cases = [p for p in walk(f["body"]) if str(p.get("p", "")) in ("TupleStruct", "Struct", "Path") and
                 str(p.get("path", "")).endswith(("QName::Unprefixed", "QName::Prefixed"))]
        ok = bool(cases)
        res.oblige(1, ok)
        if not ok:
            res.add(Finding("C10-6", f["path"].split("::")[-1], "%s expands a name with Context::expanded_name and uses the namespace of the "
                            "default binding for unprefixed names without a case for them: the default namespace applies to element "
                            "names only" % f["path"], f["file"], calls[0].get("ln"), {}))
    if st["instances"] < 2:
        raise BrokenCheck("C10-6: %d callers of Context::expanded_name (floor 2)" % st["instances"])


def c10_8(facts, res, rule="C10-8"):
    """The default namespace of the caller's bindings applies to element names only: in `equal_qname` the exemption of an
    unprefixed name test must hold for attribute nodes *and* namespace nodes (XPath 1.0 2.3: a QName in a node test is expanded
    with the default namespace "for element names" only; the principal node type of the namespace axis is namespace).
    Decided with enumflow over the kinds of XmlNode, node_type() evaluated per kind."""
    import enumflow
    import xpdispatch
    st = res.rule(rule, instances=1)
    f = facts.fn("xml_xpath::eval::equal_qname")
    got = None
    try:
        dom = xpdispatch.node_kind_domain(facts)
        fl = enumflow.Flow(dom, f)
        for n in walk(f["body"]):
            if n.get("k") == "Match" and n.get("src") == "Normal" and "QName" in str(n.get("scrutty", "")):
                for arm in n["arms"]:
                    if "guard" in arm and any(str(q.get("path", "")).endswith("QName::Unprefixed") for q in walk(arm["pat"])):
                        got = fl.cond(arm["guard"])
        if got is None:
            # `if node is attribute-like { None } else { uri }` forms
            for n in walk(f["body"]):
                if n.get("k") == "If":
                    c = fl.cond(n["cond"])
                    if c is not None:
                        got = c
    except enumflow.Unknown as u:
        raise BrokenCheck("%s: %s" % (rule, u))
    ok = got is not None and {"Attribute", "Namespace"} <= got and "Element" not in got
    res.oblige(1, ok)
    res.sample({"rule": rule, "exempt_kinds": sorted(got) if got is not None else None})
    if not ok:
        res.add(Finding(rule, "equal_qname|default-namespace", "equal_qname applies the default namespace to unprefixed name tests on %s: the "
                        "exemption must cover attribute and namespace nodes and nothing else (exempt now: %s)"
                        % (sorted({"Attribute", "Namespace"} - (got or set())) or "elements", sorted(got) if got is not None else None),
                        f["file"], f["line"], {}))


def _flows_into_push(f, ctor_suffix):
    """The value built by the named constructor is bound to a local that is the argument of a push on the result list."""
    lids = set()
    for n in walk(f["body"]):
        if n.get("s") == "Let" and isinstance(n.get("init"), dict) and n["init"].get("k") == "Call" and \
                str(n["init"]["f"].get("path", "")).endswith(ctor_suffix):
            for q in walk(n["pat"]):
                if q.get("p") == "Bind":
                    lids.add(q["lid"])
    for n in walk(f["body"]):
        if n.get("k") == "MethodCall" and n["m"] == "push" and n.get("args"):
            a = n["args"][0]
            while a.get("k") == "MethodCall" and a["m"] in ("clone",):
                a = a["recv"]
            if a.get("k") == "Path" and a.get("lid") in lids:
                return True
            if a.get("k") == "Call" and str(a["f"].get("path", "")).endswith(ctor_suffix):
                return True
    return False


def _flows_into_pushing_helper(facts, f, fam, ctor_suffix):
    """.. or is handed to a private piece of the function that pushes that parameter (`push_unless_declared(&mut items, ns)`)"""
    lids = set()
    for n in walk(f["body"]):
        if n.get("s") == "Let" and isinstance(n.get("init"), dict) and n["init"].get("k") == "Call" and \
                str(n["init"]["f"].get("path", "")).endswith(ctor_suffix):
            for q in walk(n["pat"]):
                if q.get("p") == "Bind":
                    lids.add(q["lid"])
    famids = {g["id"]: g for g in fam if g["id"] != f["id"]}
    for n in walk(f["body"]):
        if n.get("k") == "Call" and (n["f"].get("rid") or n["f"].get("id")) in famids:
            h = famids[n["f"].get("rid") or n["f"].get("id")]
            for i, a in enumerate(n.get("args", [])):
                hit = (a.get("k") == "Path" and a.get("lid") in lids) or (a.get("k") == "Call" and str(a["f"].get("path", "")).endswith(ctor_suffix))
                if hit and i < len(h.get("params", [])):
                    plid = h["params"][i].get("lid")
                    if any(m.get("k") == "MethodCall" and m["m"] == "push" and m.get("args") and m["args"][0].get("k") == "Path"
                           and m["args"][0].get("lid") == plid for m in walk(h["body"])):
                        return True
    return False


def _default_key(node):
    """Literal that stands for `no prefix` where an Option<&str> prefix is turned into a lookup key."""
    for m in walk(node):
        if m.get("k") == "MethodCall" and m["m"] in ("unwrap_or", "unwrap_or_default") and \
                any(x.get("k") == "MethodCall" and x["m"] == "prefix" for x in walk(m.get("recv", {}))):
            if m["m"] == "unwrap_or_default":
                return ""
            a = m["args"][0] if m.get("args") else {}
            if a.get("k") == "Lit":
                return a.get("v")
            return None
    return None


def c10_7(facts, res):
    """The information set looks namespaces up by a string key; the unprefixed case has to use one key on both sides:
    Element::namespace_name turns `no prefix` into a key, find_nameapce_uri turns the prefix-less in-scope binding into a
    key - if the two literals differ an inherited default namespace is never found.  An own declaration xmlns="" must not be
    answered as a namespace name (it undeclares)."""
    st = res.rule("C10-7", instances=2)
    caller = facts.fn("xml_info::<XmlElement as Element>::namespace_name")
    finder = facts.fn("xml_info::XmlElement::find_nameapce_uri")
    k1 = _default_key(caller["body"])
    k2 = _default_key(finder["body"])
    if k1 is None:
        raise BrokenCheck("C10-7: Element::namespace_name no longer maps a missing prefix to a literal key; shape not recognised")
    ok = k1 == k2
    res.oblige(1, ok)
    res.sample({"rule": "C10-7", "key_of_unprefixed_element": k1, "key_of_prefixless_binding": k2}, limit=40)
    if not ok:
        res.add(Finding("C10-7", "default-key", "Element::namespace_name looks an unprefixed element up with the key %r, find_nameapce_uri files the "
                        "in-scope default namespace under %r: an inherited default namespace is not found and the element is "
                        "reported in no namespace" % (k1, k2), finder["file"], finder["line"], {}))
    # the element's own declarations: xmlns:p is filed under "p" and xmlns under "xmlns", i.e. under the attribute's local name
    st["instances"] += 1
    own_ok = False
    for n in walk(finder["body"]):
        if n.get("k") == "Match" and n.get("src") == "ForLoop" and any(x.get("k") == "MethodCall" and x["m"] == "namespace_attributes" for x in walk(n["scrut"])):
            for c in walk(n):
                if c.get("k") == "Binary" and c.get("op") == "==":
                    sides = [c["a"], c["b"]]
                    if any(x.get("k") == "MethodCall" and x["m"] == "local_name" for x in sides) and \
                            not any(y.get("k") == "MethodCall" and y["m"] in ("prefix", "unwrap_or", "unwrap_or_default") for x in sides for y in walk(x)):
                        own_ok = True
    res.oblige(1, own_ok)
    if not own_ok:
        res.add(Finding("C10-7", "own-declaration-key", "find_nameapce_uri does not compare the wanted prefix with the local name of the element's own "
                        "namespace attributes (xmlns:p -> \"p\", xmlns -> \"xmlns\"): every xmlns:* declaration would answer for the default namespace",
                        finder["file"], finder["line"], {}))
    # own xmlns="" is filtered
    empties = [m for m in walk(finder["body"]) if m.get("k") == "MethodCall" and m["m"] == "is_empty"]
    res.oblige(1, bool(empties))
    if not empties:
        res.add(Finding("C10-7", "empty-own-declaration", "find_nameapce_uri answers the value of the element's own namespace declaration without "
                        "testing it for emptiness: xmlns=\"\" is reported as the namespace name \"\" instead of no namespace",
                        finder["file"], finder["line"], {}))


def _on_field(n, field):
    """Is the receiver chain of method call n rooted at self.<field>?  -> list of method names (outermost first) or None."""
    chain = []
    while isinstance(n, dict) and n.get("k") == "MethodCall":
        chain.append(n["m"])
        n = n.get("recv")
    while isinstance(n, dict) and n.get("k") in ("AddrOf", "Deref", "Borrow"):
        n = n.get("e") or n.get("a")
    if isinstance(n, dict) and n.get("k") == "Field" and n.get("name") == field and n["a"].get("name") == "self":
        return chain
    return None


def adjacent_dedup(facts, res, rule="C10-9", crates=("xml_info", "xml_dom", "xml_xpath")):
    """`Vec::dedup*` removes *adjacent* repetitions only.  Merging a list with an inherited one (`extend(parent); dedup_by(prefix)`)
    leaves every duplicate that does not happen to sit next to its twin - the nearest declaration of a prefix no longer hides
    the inherited one.  A dedup is accepted when the same vector was sorted earlier in the function (sort*, by any key)."""
    import guards
    st = res.rule(rule, instances=0, functions=0)
    for f in facts.fns.values():
        if f["crate"] not in crates or "body" not in f or f.get("derived") or f.get("test"):
            continue
        st["functions"] += 1
        seq = [n for n, _ in guards.ordered(f["body"])]
        for i, n in enumerate(seq):
            if n.get("k") == "MethodCall" and n.get("m") in ("dedup", "dedup_by", "dedup_by_key") and "Vec<" in str(n.get("recvty", "")):
                st["instances"] += 1
                lid = guards._root_local(n.get("recv"))[1]
                srt = any(m.get("k") == "MethodCall" and str(m.get("m", "")).startswith("sort") and guards._root_local(m.get("recv"))[1] == lid
                          for m in seq[:i])
                res.oblige(1, srt)
                if not srt:
                    res.add(Finding(rule, "%s|%s" % (f["path"], n["m"]), "%s removes duplicates with Vec::%s on a list that was not sorted before: only "
                                    "adjacent repetitions go, so a nearer entry does not replace an inherited one further down the list "
                                    "(in-scope namespaces: the nearest declaration of a prefix wins, xmlns=\"\" undeclares)" % (f["path"], n["m"]),
                                    f["file"], n.get("ln"), {}))
    res.oblige(1, True)
    if st["functions"] < 300:
        raise BrokenCheck("%s: %d functions scanned (floor 300)" % (rule, st["functions"]))


def c10_5(facts, res):
    """The caller's prefix bindings are a *function* prefix -> namespace name.  The store is a Vec of pairs, so writer and
    readers must agree: either every writer removes the old pair of that prefix before it appends (retain(|v| v.0 != prefix);
    push), or every reader takes the newest pair (rev().find / rfind).  Append-only writer + first-match reader = the first
    binding of a prefix can never be changed."""
    import guards
    st = res.rule("C10-5", instances=0)
    writers, readers = [], []
    for f in facts.fns.values():
        if f["crate"] != "xml_xpath" or "body" not in f or "Context::" not in f["path"]:
            continue
        seq = [n for n, _ in guards.ordered(f["body"])]
        for i, n in enumerate(seq):
            if n.get("k") != "MethodCall":
                continue
            ch = _on_field(n, "namespaces")
            if ch is None:
                continue
            if ch[0] in ("push", "insert", "extend", "push_back"):
                removed = False
                for m in seq[:i]:
                    c2 = _on_field(m, "namespaces") if m.get("k") == "MethodCall" else None
                    if c2 and c2[0] == "retain" and m["args"] and m["args"][0].get("k") == "Closure":
                        body = m["args"][0]["body"]
                        ops = [x.get("op") for x in walk(body) if x.get("k") == "Binary"]
                        touches_key = any(x.get("k") == "Field" and str(x.get("name")) == "0" for x in walk(body))
                        if ops == ["!="] and touches_key:
                            removed = True
                writers.append((f, n, removed))
            if ch[0] in ("find", "position", "find_map", "rfind", "rposition", "last", "first", "next"):
                newest = ch[0] in ("rfind", "rposition", "last") or "rev" in ch
                readers.append((f, n, newest))
    if not writers or not readers:       # three readers on the unchanged tree; they may be merged into one lookup helper
        raise BrokenCheck("C10-5: %d writers / %d readers of Context.namespaces (floor 1 / 1)" % (len(writers), len(readers)))
    st["instances"] = len(writers) + len(readers)
    st["writers"] = len(writers)
    st["readers"] = len(readers)
    all_replace = all(r for _, _, r in writers)
    all_newest = all(r for _, _, r in readers)
    ok = all_replace or all_newest
    res.oblige(st["instances"], ok)
    res.sample({"rule": "C10-5", "writers": [(f["path"], r) for f, _, r in writers], "readers": [(f["path"], r) for f, _, r in readers]}, limit=40)
    if not ok:
        for f, n, r in writers:
            if not r:
                res.add(Finding("C10-5", f["path"].split("::")[-1] + "|append-only", "%s appends a binding without removing the older pair of the same "
                                "prefix, while %s take the first match: re-binding a prefix has no effect"
                                % (f["path"], sorted({g["path"].split("::")[-1] for g, _, nw in readers if not nw})), f["file"], n.get("ln"), {}))


def e1_reach(succ, start):
    seen, work = set(), list(succ.get(start, []))
    while work:
        x = work.pop()
        if x in seen:
            continue
        seen.add(x)
        work.extend(succ.get(x, []))
    return seen
