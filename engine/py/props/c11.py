"""C11 — attribute value normalisation and defaults (narrow)."""
import e6
import enumflow
import guards
from common import Finding, Result
from facts import BrokenCheck, walk
from props.c08 import arm_callees, match_arms_on, variants_of_pat, ws
from props import c03

LEVEL = "other"


def arms_by_variant(f, enum_suffix, facts=None):
    out = {}
    if facts is not None:
        # the function or the private piece of it that holds the match
        for g in facts.family(f):
            got = arms_by_variant(g, enum_suffix)
            if got:
                return got
        return out
    for n in walk(f["body"]):
        if n.get("k") == "Match" and n.get("src") == "Normal" and enum_suffix in str(n.get("scrutty", "")):
            for arm in n["arms"]:
                for v in variants_of_pat(arm["pat"]):
                    out.setdefault(v, arm)
            break
    return out


def names(facts, arm, fn=None):
    """callee names of an arm; a call through a local function value (`let append: fn(..) = if normalize { |p, t| .. } else
    { |p, t| .. }; .. append(&mut parsed, v)`) stands for the callees of the closures the local can hold"""
    out = {c.split("::")[-1] for c in arm_callees(facts, arm["body"])}
    if fn is not None:
        lets = {m["pat"]["lid"]: m["init"] for m in walk(fn["body"])
                if m.get("s") == "Let" and m.get("pat", {}).get("p") == "Bind" and "init" in m}
        for c in walk(arm["body"]):
            if c.get("k") == "Call" and c["f"].get("k") == "Path" and c["f"].get("res") == "Local" and c["f"].get("lid") in lets:
                for clo in walk(lets[c["f"]["lid"]]):
                    if clo.get("k") == "Closure":
                        out |= {x.split("::")[-1] for x in arm_callees(facts, clo["body"])}
    return out


def _neg_depth(root, target):
    """Number of `!` between root and target (None when target is not below root)."""
    def go(n, d):
        if n is target:
            return d
        if isinstance(n, dict):
            dd = d + 1 if (n.get("k") == "Unary" and n.get("op") == "!") else d
            for k, v in n.items():
                if isinstance(v, (dict, list)):
                    r = go(v, dd)
                    if r is not None:
                        return r
        elif isinstance(n, list):
            for x in n:
                r = go(x, d)
                if r is not None:
                    return r
        return None
    return go(root, 0)


def _name_equality(body, param_lid):
    """Classify a closure body: ('qname', negated) when it compares the qualified name of the closure parameter with the
    qualified name of something else; ('other', what) when it compares something narrower."""
    neg = 0
    n = body
    while isinstance(n, dict) and n.get("k") in ("Unary", "Block") and (n.get("k") == "Block" or n.get("op") == "!"):
        if n.get("k") == "Unary":
            neg += 1
            n = n["a"]
        else:
            if n.get("stmts"):
                break
            n = n.get("expr")
    if not isinstance(n, dict):
        return ("other", "?")
    operands = None
    if n.get("k") == "Call" and str(n["f"].get("path", "")).endswith("equal_qname"):
        operands = n["args"]
    elif n.get("k") == "Binary" and n.get("op") in ("==", "!="):
        operands = [n["a"], n["b"]]
        if n["op"] == "!=":
            neg += 1
    if not operands or len(operands) != 2:
        return ("other", n.get("k"))
    outer = [o.get("m") if o.get("k") == "MethodCall" else o.get("k") for o in operands]
    if all(o.get("k") == "MethodCall" and o["m"] == "qname" for o in operands):
        roots = [guards._root_local(o)[1] for o in operands]
        if (roots[0] == param_lid) != (roots[1] == param_lid):
            return ("qname", neg % 2 == 1)
    return ("other", "/".join(str(x) for x in outer))


def c11_7(facts, res, e, rule="C11-7"):
    st = res.rule(rule, instances=0)
    target = None
    for g in facts.family(e):          # XmlElement::attributes and the private pieces it may be split into
        for n in walk(g["body"]):
            if n.get("k") == "If" and any(m.get("k") == "Call" and str(m["f"].get("path", "")).endswith("new_from_declaration") for m in walk(n["then"])):
                if target is None or len(list(walk(n))) < len(list(walk(target))):
                    target = n
                    e = g
    chain_form = False

    def has_quant(x):
        return any(m.get("k") == "MethodCall" and m["m"] in ("any", "all") for m in walk(x)) or \
            any(m.get("k") == "Path" and m.get("res") == "Local" and str(m.get("ty")) == "bool" for m in walk(x))
    if target is None or not has_quant(target["cond"]):
        # iterator form: `.filter(|attr| !items.iter().any(..)).map(|attr| new_from_declaration(..))`
        for g in facts.family(e):
            if not any(m.get("k") == "Call" and str(m["f"].get("path", "")).endswith("new_from_declaration") for m in walk(g["body"])):
                continue
            for n in walk(g["body"]):
                if n.get("k") == "MethodCall" and n["m"] in ("filter", "take_while", "skip_while") and n.get("args") and n["args"][0].get("k") == "Closure" \
                        and any(m.get("k") == "MethodCall" and m["m"] in ("any", "all") for m in walk(n["args"][0]["body"])):
                    target = {"cond": n["args"][0]["body"], "then": None, "ln": n.get("ln")}
                    e = g
                    chain_form = True
    if target is None:
        raise BrokenCheck("C11-7: no conditional guards XmlAttribute::new_from_declaration in XmlElement::attributes")
    lets = {m["pat"]["lid"]: m["init"] for m in walk(e["body"])
            if m.get("s") == "Let" and m.get("pat", {}).get("p") == "Bind" and "init" in m}

    def find_quant(expr, depth=0):
        """-> (quantifier node, number of `!` around it), looking through boolean locals (`let present = items.iter().any(..)`)"""
        for m in walk(expr):
            if m.get("k") == "MethodCall" and m["m"] in ("any", "all") and m.get("args") and m["args"][0].get("k") == "Closure":
                return m, _neg_depth(expr, m)
        if depth < 3:
            for m in walk(expr):
                if m.get("k") == "Path" and m.get("res") == "Local" and str(m.get("ty")) == "bool" and m.get("lid") in lets:
                    q, d = find_quant(lets[m["lid"]], depth + 1)
                    if q is not None:
                        return q, d + _neg_depth(expr, m)
        return None, 0
    quant, negs = find_quant(target["cond"])
    if quant is None:
        raise BrokenCheck("C11-7: the written-attribute test is not an any()/all() over the written attributes; shape not recognised")
    st["instances"] += 1
    # "the first declaration is binding" (XML 1.0 3.3): the collection the test looks at is the one the defaults are added to,
    # inside the loop over the definitions - a test that only sees the written attributes adds one default per definition
    st["instances"] += 1
    # every collection the quantifier ranges over: `specified.iter().chain(defaulted.iter()).any(..)` searches both
    searched = {m.get("lid") for m in walk(quant.get("recv")) if m.get("k") == "Path" and m.get("res") == "Local"}
    grows = False
    for lp in walk(e["body"]):
        if lp.get("k") != "Loop":
            continue
        inside = list(walk(lp))
        if not any(m is quant for m in inside):
            continue
        for m in inside:
            if m.get("k") == "MethodCall" and m["m"] in ("push", "insert", "push_back") and guards._root_local(m.get("recv"))[1] in searched and \
                    any(c.get("k") == "Call" and str(c["f"].get("path", "")).endswith("new_from_declaration") for c in walk(m.get("args", []))):
                grows = True
    dedup = any(m.get("k") == "MethodCall" and m["m"] in ("dedup_by", "dedup_by_key", "retain") or
                (m.get("k") == "MethodCall" and m["m"] == "insert" and "Set<" in str(m.get("recvty", ""))) for m in walk(e["body"]))
    okg = grows or dedup
    res.oblige(1, okg)
    if not okg:
        res.add(Finding(rule, "attributes|first-definition", "the test whether an attribute is already present looks at a collection that does "
                        "not receive the defaulted attributes as they are added%s: a second definition of the same attribute in the "
                        "attribute-list declaration yields a second attribute (XML 1.0 3.3: the first declaration is binding)"
                        % (" (filter/map chain collected separately)" if chain_form else ""), e["file"], target.get("ln") or quant.get("ln"), {}))
    clo = quant["args"][0]
    plid = clo["params"][0].get("lid") if clo.get("params") else None
    kind, x = _name_equality(clo["body"], plid)
    res.sample({"rule": rule, "quantifier": quant["m"], "negations_outside": negs, "closure": [kind, x]}, limit=40)
    if kind != "qname":
        res.oblige(1, False)
        res.add(Finding(rule, "attributes|compare", "the test whether a declared attribute is written compares %s, not the qualified "
                        "names of the written attribute and of the declaration: a written attribute with another prefix hides the default" % x,
                        e["file"], quant.get("ln"), {}))
        return
    # no written attribute equals the declaration:  !any(eq)  or  all(!eq)
    ok = (quant["m"] == "any" and negs % 2 == 1 and not x) or (quant["m"] == "all" and negs % 2 == 0 and x)
    res.oblige(1, ok)
    if not ok:
        res.add(Finding(rule, "attributes|quantifier", "a default is added when `%s%s(|v| %sequal)` holds; it must be added exactly when NO written "
                        "attribute has the declared name (!any(eq) / all(!eq)): with the present test an element without written attributes "
                        "loses its defaults or gets a duplicate" % ("!" * (negs % 2), quant["m"], "!" if x else ""), e["file"], quant.get("ln"), {}))


def expansion_roots(facts):
    """entry points of the entity expansion used for attribute values: `expand_entity` and, when present, its wrapper"""
    out = [facts.fn("xml_info::expand_entity")["id"]]
    w = facts.fn_opt("xml_info::attr_value_from_name")
    if w is not None:
        out.append(w["id"])
    return out


def normalize_flags(facts, body, target, idx, depth=0, seen=None, env=None):
    """The argument expressions handed to parameter `idx` of `target` by every call reachable from `body` through functions of
    the crate (bounded depth).  A parameter of an intermediate function that is handed on stands for the argument its caller
    wrote (`attr_value(name, ctx, true)` -> `expand_entity(name, ctx, .., normalize)`).  -> list of (argument node, via)"""
    seen = seen if seen is not None else set()
    env = env or {}
    out = []
    for m in walk(body):
        fid = None
        if m.get("k") == "Call" and m["f"].get("k") == "Path":
            fid = m["f"].get("rid") or m["f"].get("id")
            args = m.get("args", [])
        elif m.get("k") == "MethodCall":
            fid = m.get("rid") or m.get("id")
            args = [m.get("recv")] + m.get("args", [])
        if fid is None or fid not in facts.fns:
            continue
        g = facts.fns[fid]
        args = [env.get(a.get("lid"), a) if isinstance(a, dict) and a.get("k") == "Path" and a.get("res") == "Local" else a for a in args]
        if g["id"] == target["id"]:
            if idx < len(args):
                out.append((args[idx], None))
        elif depth < 3 and g["crate"] == target["crate"] and "body" in g and (fid, depth) not in seen and not g.get("derived"):
            seen.add((fid, depth))
            sub = {p_.get("lid"): a for p_, a in zip(g.get("params", []), args) if p_.get("p") == "Bind" and isinstance(a, dict)
                   and a.get("k") == "Lit"}
            for a, via in normalize_flags(facts, g["body"], target, idx, depth + 1, seen, sub):
                out.append((a, via or g["path"]))
    return out


def c11_1(facts, res, rule="C11-1"):
    # ---- C11-1
    st = res.rule(rule, instances=0)
    f = facts.fn("xml_info::<XmlAttribute as Attribute>::normalized_value")
    a = arms_by_variant(f, "XmlAttributeValue", facts)
    g = facts.fn("xml_info::expand_entity")
    bools = [i for i, p_ in enumerate(g.get("params", [])) if str(p_.get("ty")) == "bool"]
    if len(bools) != 1:
        raise BrokenCheck("C11-1: expand_entity has %d bool parameters (one expected: normalise white space)" % len(bools))
    want = {"Char": ({"character_code"}, {"normalize_ws"}), "Entity": (set(), {"normalize_ws"}),
            "Text": ({"normalize_ws"}, {"attr_value_from_name", "expand_entity"})}
    # the Entity arm expands the reference with normalisation switched on *unconditionally*: every call path from the arm to
    # expand_entity passes the literal `true` (a flag computed from the reference's parent item is false for the pieces of a
    # declared default, whose parent is the document type declaration)
    if "Entity" in a:
        st["instances"] += 1
        flags = normalize_flags(facts, a["Entity"]["body"], g, bools[0])
        okf = bool(flags) and all(x.get("k") == "Lit" and x.get("v") is True for x, _ in flags)
        res.oblige(1, okf)
        if not okf:
            via = [v_ for x, v_ in flags if not (x.get("k") == "Lit" and x.get("v") is True)]
            res.add(Finding(rule, "normalized_value|Entity|flag", "normalized_value: the Entity arm %s; an entity reference in an attribute "
                            "value is always expanded with white-space normalisation (XML 1.0 3.3.3), whatever item the reference hangs under"
                            % ("reaches expand_entity through %s with a normalisation flag computed at run time" % (via[0] or "a direct call")
                               if flags else "does not reach expand_entity"), f["file"], a["Entity"].get("ln") or f["line"], {}))
    for v, (must, must_not) in want.items():
        st["instances"] += 1
        ns = names(facts, a[v], f) if v in a else None
        ok = ns is not None and must <= ns and not (must_not & ns)
        res.oblige(1, ok)
        if not ok:
            res.add(Finding(rule, "normalized_value|" + v, "normalized_value: the %s arm calls %s; expected %s and not %s"
                            % (v, sorted(ns or []), sorted(must), sorted(must_not)), f["file"], f["line"], {}))
    b = arms_by_variant(g, "XmlEntityValue", facts)
    # replacement text (XML 1.0 4.5) contains the characters denoted by character references of the entity literal, so
    # they are normalised like literal text: 3.3.3's example `<!ENTITY d "&#xD;">  a="&d;"` gives one space
    want2 = {"Character": ({"char_from_char10", "char_from_char16", "normalize_ws"}, set()), "Entity": ({"expand_entity"}, {"normalize_ws"}),
             "Text": ({"normalize_ws"}, {"expand_entity"})}
    for v, (must, must_not) in want2.items():
        st["instances"] += 1
        ns = names(facts, b[v], g) if v in b else None
        ok = ns is not None and must <= ns and not (must_not & ns)
        res.oblige(1, ok)
        if not ok:
            res.add(Finding(rule, "expand_entity|" + v, "expand_entity: the %s arm calls %s; expected %s and not %s"
                            % (v, sorted(ns or []), sorted(must), sorted(must_not)), g["file"], g["line"], {}))


def c11_8(facts, res, rule="C11-8"):
    """xml_info::equal_qname decides whether a declared attribute is written, which declaration belongs to an attribute and
    which attribute-list declaration to an element: two prefixed names are equal iff prefix and local part are equal, two
    unprefixed names iff they are the same string, a prefixed and an unprefixed name never."""
    st = res.rule(rule, instances=1)
    f = facts.fn("xml_info::equal_qname")
    problems = []
    inner = [n for n in walk(f["body"]) if n.get("k") == "Match" and n.get("src") == "Normal"]
    pp = None
    for n in inner:
        for arm in n["arms"]:
            if any(str(q.get("path", "")).endswith("QName::Prefixed") for q in walk(arm["pat"])):
                for a2 in [x for x in walk(arm["body"]) if x.get("k") == "Match" and x.get("src") == "Normal"]:
                    for arm2 in a2["arms"]:
                        if any(str(q.get("path", "")).endswith("QName::Prefixed") for q in walk(arm2["pat"])):
                            pp = arm2["body"]
    if pp is None:
        # one match on the pair: `(QName::Prefixed(a), QName::Prefixed(b)) => ..`
        for n in inner:
            for arm in n["arms"]:
                if sum(1 for q in walk(arm["pat"]) if str(q.get("path", "")).endswith("QName::Prefixed")) == 2:
                    pp = arm["body"]
    if pp is None:
        raise BrokenCheck("%s: no (Prefixed, Prefixed) case found in xml_info::equal_qname" % rule)
    eqs = [m for m in walk(pp) if m.get("k") == "Binary" and m.get("op") == "=="]
    flds = sorted({x.get("name") for m in eqs for x in walk(m) if x.get("k") == "Field"})
    conj = any(m.get("k") == "Binary" and m.get("op") == "&&" for m in walk(pp))
    ok = len(eqs) == 2 and conj and flds == ["local_part", "prefix"] and not any(m.get("k") == "Binary" and m.get("op") == "||" for m in walk(pp))
    res.oblige(1, ok)
    if not ok:
        res.add(Finding(rule, "equal_qname|prefixed", "xml_info::equal_qname: two prefixed names are compared by %s (expected prefix and local part): "
                        "a declared p:a counts as written when q:a is, and an ATTLIST for p:r applies to q:r" % (flds or "nothing"), f["file"], f["line"], {}))


def run(facts, tier):
    res = Result("C11")
    res.explanation = (
        "static (narrow): C11-1 the two implementations of the 3-case algorithm of XML 1.0 3.3.3 (XmlAttribute::normalized_value "
        "for the items of an attribute, expand_entity for replacement text) agree arm by arm: literal text goes through "
        "normalize_ws, character references written in the attribute do not (those of an entity literal belong to the "
        "replacement text and do), entity references recurse; C11-2 normalize_ws replaces exactly #x20, #xD, "
        "#xA, #x9 by one space (constants read from the typed tree); C11-3 collapsing of spaces is skipped only for CDATA; "
        "C11-4 an attribute is synthesised from a declaration only for a default value; C11-5 synthesised attributes know their "
        "element; all attribute-list declarations of an element are consulted; C11-6 entity recursion is guarded (R03-3).")
    res.assumptions = ["the normalised value as a string is not computed"]
    c11_1(facts, res)
    f = facts.fn("xml_info::<XmlAttribute as Attribute>::normalized_value")
    # ---- C11-2
    st2 = res.rule("C11-2", instances=1)
    h = facts.fn("xml_info::normalize_ws")
    # the set of characters that are replaced, whatever the spelling of the pattern: a char / one-char string literal,
    # char::from_u32(_unchecked)(literal), an array or slice of those, or a named constant holding one of these
    def _chars(a, depth=0):
        k = a.get("k")
        if k == "Lit" and a.get("t") == "char":
            return {int(a["v"])}
        if k == "Lit" and a.get("t") == "str" and len(a["v"]) == 1:
            return {ord(a["v"])}
        if k == "Call" and str(a["f"].get("path", "")).split("::")[-1] in ("from_u32_unchecked", "from_u32", "from") and a["args"] \
                and a["args"][0].get("k") == "Lit" and a["args"][0].get("t") != "str":
            return {int(a["args"][0]["v"])}
        if k in ("AddrOf", "Cast", "Unary") and "a" in a:
            return _chars(a["a"], depth)
        if k == "Array":
            out = set()
            for x in a.get("es", []):
                c = _chars(x, depth)
                if c is None:
                    return None
                out |= c
            return out
        if k == "MethodCall" and a["m"] in ("unwrap", "as_slice", "as_ref") and not a["args"]:
            return _chars(a["recv"], depth)
        if k == "Path" and depth < 3:
            c = facts.consts.get(a.get("rid") or a.get("id")) or facts.consts_by_path.get(str(a.get("path")))
            if c is not None:
                return _chars(c["body"], depth + 1)
        if k == "Block" and not a.get("stmts") and "expr" in a:
            return _chars(a["expr"], depth)
        return None
    replaced, repl, unknown = set(), [], []
    for m in walk(h["body"]):
        if m.get("k") == "MethodCall" and m["m"] == "replace" and len(m["args"]) == 2:
            c = _chars(m["args"][0])
            if c is None:
                unknown.append(m["args"][0].get("k"))
            else:
                replaced |= c
            repl.append(m["args"][1].get("v") if m["args"][1].get("k") == "Lit" else None)
    # `value.chars().map(|c| match c { ' ' | '\r' | '\n' | '\t' => ' ', c => c }).collect()`: a character-wise map whose arms
    # either answer one constant or give the character back
    for m in walk(h["body"]):
        if m.get("k") == "MethodCall" and m["m"] == "map" and m.get("args") and m["args"][0].get("k") == "Closure" and \
                any(x.get("k") == "MethodCall" and x.get("m") == "chars" for x in walk(m["recv"])):
            clo = m["args"][0]
            body = clo["body"]
            while body.get("k") == "Block" and not body.get("stmts") and "expr" in body:
                body = body["expr"]
            if body.get("k") == "Match" and body.get("src") == "Normal":
                for arm in body["arms"]:
                    b_ = arm["body"]
                    pats = [arm["pat"]] if arm["pat"].get("p") != "Or" else arm["pat"]["pats"]
                    if b_.get("k") == "Lit" and b_.get("t") == "char" and "guard" not in arm:
                        cs = set()
                        for q in pats:
                            if q.get("p") == "Expr" and q["e"].get("k") == "Lit" and q["e"].get("t") == "char":
                                cs.add(int(q["e"]["v"]))
                            elif q.get("p") == "Range" and q.get("lo", {}).get("k") == "Lit" and q.get("hi", {}).get("k") == "Lit":
                                cs |= set(range(int(q["lo"]["v"]), int(q["hi"]["v"]) + (1 if q.get("incl") else 0)))
                            else:
                                unknown.append("pattern " + str(q.get("p")))
                        replaced |= cs
                        repl.append(chr(int(b_["v"])))
                    elif b_.get("k") == "Path" and b_.get("res") == "Local":
                        pass        # the character itself
                    else:
                        unknown.append("arm body " + str(b_.get("k")))
            else:
                unknown.append("map closure " + str(body.get("k")))
    if unknown:
        raise BrokenCheck("C11-2: a replace() pattern in normalize_ws is not a character constant (%s); shape not recognised" % unknown)
    consts = sorted(replaced)
    ok = (replaced | {0x20}) == {0x09, 0x0A, 0x0D, 0x20} and repl and all(r == " " for r in repl)
    res.oblige(1, ok)
    res.sample({"rule": "C11-2", "replaced": ["#x%X" % c for c in consts], "by": repl})
    if not ok:
        res.add(Finding("C11-2", "normalize_ws", "normalize_ws replaces %s by %s; XML 1.0 3.3.3 says #x20, #xD, #xA, #x9 -> one space"
                        % (["#x%X" % c for c in sorted(consts)], repl), h["file"], h["line"], {}))
    # ---- C11-3
    st3 = res.rule("C11-3", instances=1)
    # for which declared types is the collapsing of spaces reached?  (enumflow: match / if-let / matches! / helper
    # predicates over the declared type are decided over the finite set of attribute types, None = not declared)
    def _collapses(n):
        if n.get("k") == "MethodCall" and n.get("m") == "join":
            return True
        if n.get("k") in ("Call", "MethodCall"):
            t_ = n if n.get("k") == "MethodCall" else n.get("f", {})
            g = facts.fns.get(t_.get("rid") or t_.get("id"))
            if g is not None and "body" in g and g["crate"] == "xml_info":
                ms = {m.get("m") for m in walk(g["body"]) if m.get("k") == "MethodCall"}
                return {"split", "join"} <= ms
        return False
    try:
        dom = enumflow.Domain(facts, "Option", "XmlDeclarationAttType", "Some", outer_vars=["None", "Some"],
                              level_fn=lambda ty: None if "XmlDeclarationAttType" not in ty else ("outer" if "Option<" in ty else "inner"))
        hits = enumflow.Flow(dom, f).run(_collapses)
    except enumflow.Unknown as u:
        raise BrokenCheck("C11-3: %s" % u)
    reached = set()
    for _, s_ in hits:
        reached |= s_
    want = set(dom.inner_vars) - {"CData"}
    ok = bool(hits) and reached == want
    # the collapse itself: split at #x20 (only), drop the empty pieces, join with one #x20
    def _space(a):
        return a.get("k") == "Lit" and (a.get("v") == " " or a.get("v") == 32)
    joins = []
    for n, _ in hits:
        if n.get("m") == "join" and n.get("k") == "MethodCall":
            joins.append(n)
        else:
            t_ = n if n.get("k") == "MethodCall" else n.get("f", {})
            g = facts.fns.get(t_.get("rid") or t_.get("id"))
            joins += [m for m in walk(g["body"]) if m.get("k") == "MethodCall" and m.get("m") == "join"]
    for jn in joins:
        chain, r_ = {}, jn
        while isinstance(r_, dict) and r_.get("k") == "MethodCall":
            chain[r_["m"]] = r_
            r_ = r_.get("recv")
        form = "split" in chain and chain["split"]["args"] and _space(chain["split"]["args"][0]) and "filter" in chain \
            and jn["args"] and _space(jn["args"][0]) and not ({"split_whitespace", "split_ascii_whitespace", "trim"} & set(chain))
        ok = ok and bool(form)
    res.sample({"rule": "C11-3", "collapse_sites": len(hits), "types": sorted(reached)})
    res.oblige(1, ok)
    if not ok:
        res.add(Finding("C11-3", "collapse", "collapsing of spaces must be skipped for CDATA (and undeclared attributes) only; it is reached for %s"
                        % sorted(reached), f["file"], f["line"], {}))
    # ---- C11-4
    st4 = res.rule("C11-4", instances=1)
    e = facts.fn("xml_info::<XmlElement as Element>::attributes")
    cond_ok = False
    for n in walk(e["body"]):
        if n.get("k") == "If":
            c = n["cond"]
            txt_matches = any("XmlDeclarationAttDefault::Value" in str(p.get("path", "")) and p.get("p") in ("TupleStruct", "Struct")
                              for p in walk(c))
            if txt_matches:
                cond_ok = True
    res.oblige(1, cond_ok)
    if not cond_ok:
        res.add(Finding("C11-4", "XmlElement::attributes", "attributes are synthesised from every declaration that is not #IMPLIED (guard `!= Implied`): "
                        "#REQUIRED attributes appear with an empty value although they were not written", e["file"], e["line"], {}))
    # ---- C11-5
    st5 = res.rule("C11-5", instances=2)
    nfd = facts.fn("xml_info::XmlAttribute::new_from_declaration")
    has_parent = False
    for n in walk(nfd["body"]):
        if n.get("k") == "Struct" and str(n.get("path", "")).endswith("XmlAttribute"):
            for fl in n["fields"]:
                if fl["name"] == "parent_id":
                    has_parent = not (fl["e"].get("k") == "Path" and str(fl["e"].get("path", "")).endswith("None"))
    res.oblige(1, has_parent)
    if not has_parent:
        res.add(Finding("C11-5", "new_from_declaration|parent", "a defaulted attribute is built with parent_id: None: it has no owner element, so its declared type is "
                        "not found and a tokenised default is not collapsed", nfd["file"], nfd["line"], {}))
    dal = facts.fn("xml_info::XmlElement::declaration_att_list")
    uses_find = any(m.get("k") == "MethodCall" and m["m"] == "find" for m in walk(dal["body"]))
    res.oblige(1, not uses_find)
    if uses_find:
        res.add(Finding("C11-5", "declaration_att_list|first-only", "only the first <!ATTLIST> of an element is consulted (Iterator::find): declarations of the same "
                        "element in a second attribute-list declaration are ignored", dal["file"], dal["line"], {}))
    # ---- C11-6
    reach, _ = facts.reachable(expansion_roots(facts))
    c03.r03_3(facts, res, "C11-6", reach, {})
    guards.rule(facts, res, "C11-6g", [facts.fns[x] for x in reach if x in facts.fns], want=("G1", "G2", "G3", "G4", "G5"), floor=1)
    # ---- C11-7: "is the attribute written?" = no written attribute has the declaration's qualified name
    c11_7(facts, res, e)
    c11_8(facts, res)
    from props import c01
    c01.r01_3(facts, res)      # the pieces of an attribute value all reach the value list (no piece dropped by a narrowed arm)
    res.functions_analysed = 6
    return res
