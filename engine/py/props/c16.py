"""C16 — character-data operations: character offsets, guards, clipping, no overflow, split_text shape."""
import re

import e1
import e4
import entries
import reasons_e1
from common import Finding, Result
from facts import BrokenCheck

LEVEL = "other"

BYTE_INDEXED = [
    r"^core::str::<impl str>::(len|split_at|split_at_mut|split_at_checked|char_indices|find|rfind|get|get_mut|"
    r"is_char_boundary|as_bytes|bytes|floor_char_boundary|ceil_char_boundary)$",
    r"^std::string::String::(len|insert|insert_str|remove|truncate|drain|split_off|replace_range|as_bytes|into_bytes)$",
    r"^core::str::traits::<impl std::ops::Index(Mut)?<I> for str>::index(_mut)?$",
    r"^<std::string::String as std::ops::Index(Mut)?<.*>>::index(_mut)?$",
]
BYTE_INDEXED = [re.compile(x) for x in BYTE_INDEXED]

OPS = {
    # method -> (operation callee suffixes that do the work)
    "substring_data": ("::substring",),
    "insert_data": ("::insert",),
    "delete_data": ("::delete",),
    "split_text": ("::split_at",),
}
TYPES = ("XmlText", "XmlComment", "XmlCDataSection")


def arg_name(f, local):
    return f["mir"]["locals"][local].get("name")


def guard_of(facts, f, op_suffixes):
    """Find the bounds guard of a character-data method.  Returns dict or None."""
    blocks = facts.blocks(f)
    succ = e1.cfg(facts, f)
    dom, _ = e1.dominators(succ)
    defs = e1.def_sites(facts, f)
    op_bbs = [bi for bi, t in facts.mir_calls(f) if t.get("callee") and
              any(facts.callee_name(t["callee"]).endswith(s) for s in op_suffixes) and
              facts.callee_name(t["callee"]).startswith("xml_info::")]
    if not op_bbs:
        # the operation may sit in a private piece the method was split into (`self.split_under(v, offset)`): the call of that
        # piece is the operation as far as the guard of this method is concerned
        def does_op(g):
            return any(t.get("callee") and facts.callee_name(t["callee"]).startswith("xml_info::") and
                       any(facts.callee_name(t["callee"]).endswith(s) for s in op_suffixes) for _, t in facts.mir_calls(g))
        helpers = {g["path"] for g in facts.family(f) if g["id"] != f["id"] and does_op(g)}
        op_bbs = [bi for bi, t in facts.mir_calls(f) if t.get("callee") and facts.callee_name(t["callee"]) in helpers]
    if not op_bbs:
        return {"error": "operation call %s not found" % (op_suffixes,)}
    guards = []
    for bi in succ:
        t = blocks[bi]["term"]
        if t["k"] != "SwitchInt":
            continue
        dl = e1.local_of(t["discr"])
        for st in blocks[bi]["stmts"]:
            if st["ll"] == dl and st.get("rv") == "BinaryOp" and st["op"] in ("Lt", "Le", "Gt", "Ge", "Eq", "Ne"):
                a, b = st["ops"]

                def describe(op):
                    p = e1.producer(facts, f, defs, op)
                    if p.startswith("arg"):
                        return arg_name(f, int(p[3:])) or p
                    l = e1.local_of(op)
                    # follow one Use
                    for kind, _, x in defs.get(l, []):
                        if kind == "stmt" and x["rv"] == "Use":
                            src = e1.local_of(x["ops"][0])
                            if src is not None and src <= f["mir"]["argc"]:
                                return arg_name(f, src) or ("arg%d" % src)
                        if kind == "stmt" and x["rv"] == "BinaryOp":
                            return "(%s %s %s)" % (describe(x["ops"][0]), x["op"], describe(x["ops"][1]))
                    return p
                true_t = t["succ"][-1]
                false_t = t["succ"][0]
                region = e4.reach_from(succ, true_t) | {true_t}
                raises = any(s2.get("variant") == "IndexSizeErr" for r in region for s2 in blocks[r]["stmts"])
                guards.append({"bb": bi, "op": st["op"], "lhs": describe(a), "rhs": describe(b),
                               "true_raises": raises, "true_reaches_op": any(o in region for o in op_bbs),
                               "dominates_op": all(bi in dom[o] for o in op_bbs), "line": st.get("ln")})
    return {"guards": guards, "op_bbs": op_bbs}


def guard_rules(facts, res, rule2="C16-2", rule3="C16-3"):
    """Bounds guards of the character-data operations (shared with C13: index-size errors)."""
    # ---- C16-2 / C16-3
    st2 = res.rule(rule2, instances=0)
    st3 = res.rule(rule3, instances=0)
    shapes = {}
    for ty in TYPES:
        for meth, ops in OPS.items():
            if meth == "split_text" and ty == "XmlComment":
                continue
            trait = {"substring_data": "CharacterData", "split_text": "TextMut"}.get(meth, "CharacterDataMut")
            f = facts.fn("xml_dom::<%s as %s>::%s" % (ty, trait, meth))
            g = guard_of(facts, f, ops)
            st2["instances"] += 1
            key = "%s::%s" % (ty, meth)
            if "error" in g:
                raise BrokenCheck("%s: %s: %s" % (rule2, f["path"], g["error"]))
            good = [x for x in g["guards"] if x["true_raises"] and x["dominates_op"] and not x["true_reaches_op"]]
            want = [x for x in good if (x["op"], x["lhs"], x["rhs"]) in (("Lt", "length", "offset"), ("Gt", "offset", "length"))]
            res.sample({"rule": rule2, "method": key, "guards": [(x["lhs"], x["op"], x["rhs"]) for x in g["guards"]]}, limit=12)
            ok = len(want) == 1 and len(good) == 1
            res.oblige(1, ok)
            shapes[key] = [(x["lhs"], x["op"], x["rhs"]) for x in good]
            if not ok:
                res.add(Finding(rule2, key, "%s: the bounds guard is %s, expected exactly `length() < offset` raising IndexSizeErr "
                                "before the operation" % (f["path"], shapes[key] or "missing"), f["file"], f["line"], {"guards": g["guards"]}))
            st3["instances"] += 1
            dep = [x for x in g["guards"] if "count" in x["lhs"] or "count" in x["rhs"]]
            res.oblige(1, not dep)
            if dep:
                res.add(Finding(rule3, key, "%s: a guard depends on `count` (%s): a count running past the end must be clipped, "
                                "not refused" % (f["path"], [(x["lhs"], x["op"], x["rhs"]) for x in dep]), f["file"], dep[0]["line"], {}))
    if st2["instances"] < 6:
        raise BrokenCheck("%s: %d methods (floor 6)" % (rule2, st2["instances"]))
    # merged text (read only): substring_data guard on chars().count()
    f = facts.fn("xml_dom::<XmlExpandedText as CharacterData>::substring_data")
    blocks = facts.blocks(f)
    defs = e1.def_sites(facts, f)
    found = False
    for b in blocks:
        for s in b["stmts"]:
            if s.get("rv") == "BinaryOp" and s["op"] == "Lt":
                pa = e1.producer(facts, f, defs, s["ops"][0])
                l = e1.local_of(s["ops"][1])
                src = None
                for kind, _, x in defs.get(l, []):
                    if kind == "stmt" and x["rv"] == "Use":
                        src = e1.local_of(x["ops"][0])
                if pa == "count" and src == 2:
                    found = True
    res.oblige(1, found)
    st2["instances"] += 1
    if not found:
        res.add(Finding(rule2, "XmlExpandedText::substring_data", "guard `chars().count() < offset` not found", f["file"], f["line"], {}))


def run(facts, tier):
    res = Result("C16")
    res.explanation = (
        "static: C16-1 no byte-indexed str/String operation is reachable (resolved call graph, crates xml_dom / xml_info) "
        "from the CharacterData / CharacterDataMut / TextMut methods, and length() is chars().count(); C16-2 every "
        "substring_data / insert_data / delete_data / split_text of Text, Comment and CDATA is dominated by the guard "
        "`length() < offset` whose true branch raises IndexSizeErr and cannot reach the operation (operator and operands "
        "are extracted from the MIR comparison); C16-3 that guard does not mention `count` (clipping); C16-4 no overflow / "
        "index panic site is reachable without discharge (engine E1); C16-5 split_text calls split_at and then inserts "
        "the new node after self.")
    res.assumptions = ["resulting strings are not computed", "unwind edges ignored"]
    roots = entries.c16(facts)
    if len(roots) < 12:
        raise BrokenCheck("C16: %d entry points (floor 12)" % len(roots))
    reach, parent = facts.reachable(roots)
    # ---- C16-1
    st1 = res.rule("C16-1", instances=0, functions=0)
    for fid in sorted(reach, key=lambda i: facts.fns[i]["path"]):
        f = facts.fns[fid]
        if f["crate"] not in ("xml_dom", "xml_info") or f.get("derived"):
            continue
        st1["functions"] += 1
        import idxproof
        exact = idxproof.boundary_sites(facts, f)       # byte-indexed calls that together compute a character boundary (A11)
        for bi, t in facts.mir_calls(f):
            c = t.get("callee")
            if not c:
                continue
            n = facts.callee_name(c)
            if any(rx.search(n) for rx in BYTE_INDEXED):
                if t.get("ln") in exact:
                    st1["instances"] += 1
                    st1["character_exact_idiom"] = st1.get("character_exact_idiom", 0) + 1
                    res.oblige(1, True)
                    continue
                st1["instances"] += 1
                res.oblige(1, False)
                res.add(Finding("C16-1", "%s|%s" % (f["path"], n.split("::")[-1]),
                                "%s uses the byte-indexed %s on character data (reachable: %s)"
                                % (f["path"], n, " -> ".join(facts.path_to(parent, fid)[-4:])), f["file"], t.get("ln"), {}))
    # the merged text node: its length is the character count of its data (a reference may stand for any number of characters)
    f = facts.fn("xml_dom::<XmlExpandedText as CharacterData>::length")
    names = [facts.callee_name(t["callee"]) for _, t in facts.mir_calls(f) if t.get("callee")]
    ok = any(n.endswith("<std::str::Chars<'a> as std::iter::Iterator>::count") for n in names) and any(n.endswith("CharacterData>::data") or n.endswith("::data") for n in names)
    res.oblige(1, ok)
    st1["instances"] += 1
    if not ok:
        res.add(Finding("C16-1", "XmlExpandedText::length", "the length of a merged text node is not data().chars().count() (calls %s)" % [n.split("::")[-1] for n in names][:6],
                        f["file"], f["line"], {}))
    for ty in ("XmlText", "XmlComment", "XmlCData"):
        f = facts.fn("xml_info::%s::len" % ty)
        names = [facts.callee_name(t["callee"]) for _, t in facts.mir_calls(f) if t.get("callee")]
        ok = any(n.endswith("<std::str::Chars<'a> as std::iter::Iterator>::count") for n in names) and \
            "core::str::<impl str>::chars" in names
        res.oblige(1, ok)
        st1["instances"] += 1
        if not ok:
            res.add(Finding("C16-1", "xml_info::%s::len" % ty, "length is not computed as chars().count(): calls %s" % names,
                            f["file"], f["line"], {}))
    guard_rules(facts, res)
    # ---- C16-4
    reasons, verdicts = reasons_e1.resolve(facts, reach)
    e1.panic_rule(facts, res, "C16-4", roots, reasons, {}, only_crates=("xml_dom", "xml_info"))
    # ---- C16-5
    st5 = res.rule("C16-5", instances=0)
    for ty in ("XmlText", "XmlCDataSection"):
        f = facts.fn("xml_dom::<%s as TextMut>::split_text" % ty)
        # the method itself, or the private piece of it that holds the split and the insertion
        for g in facts.family(f):
            if any(t.get("callee") and facts.callee_name(t["callee"]).endswith("::split_at") for _, t in facts.mir_calls(g)):
                f = g
                break
        succ = e1.cfg(facts, f)
        dom, _ = e1.dominators(succ)
        sp = [bi for bi, t in facts.mir_calls(f) if t.get("callee") and facts.callee_name(t["callee"]).endswith("::split_at")]
        ia = [bi for bi, t in facts.mir_calls(f) if t.get("callee") and facts.callee_name(t["callee"]).endswith("HasChildren::insert_after")]
        st5["instances"] += 1
        ok = bool(sp) and bool(ia) and all(any(s in dom[i] for s in sp) for i in ia)
        # the reference id passed to insert_after is self's id
        defs = e1.def_sites(facts, f)
        blocks = facts.blocks(f)
        for i in ia:
            t = blocks[i]["term"]
            if e1.producer(facts, f, defs, t["args"][2]) != "id":
                ok = False
        # ... of the node that is being split: in the typed tree the receiver chain of that id() starts at `self`
        from facts import walk as _walk
        for n in _walk(f["body"]):
            if n.get("k") == "MethodCall" and n["m"] == "insert_after" and len(n.get("args", [])) >= 2:
                ref = n["args"][1]
                r = ref
                while isinstance(r, dict) and r.get("k") in ("MethodCall", "Field", "AddrOf", "Deref"):
                    r = r.get("recv") or r.get("a") or r.get("e")
                if not (isinstance(r, dict) and r.get("k") == "Path" and r.get("name") == "self"):
                    ok = False
        res.oblige(1, ok)
        if not ok:
            res.add(Finding("C16-5", ty, "%s: split_at must dominate insert_after(new, self.id()) (split_at in %s, insert_after in %s)"
                            % (f["path"], sp, ia), f["file"], f["line"], {}))
    # ---- C16-6: insert_after(new, id) = insert_before(new, <id of the child at index(id) + 1>)  (or append at the end)
    from props import c14
    st6 = res.rule("C16-6", instances=1)
    f = facts.fn("xml_info::HasChildren::insert_after")
    defs = e1.def_sites(facts, f)
    blocks = facts.blocks(f)
    ib = [(bi, t) for bi, t in facts.mir_calls(f) if t.get("callee") and facts.callee_name(t["callee"]).endswith("HasChildren::insert_before")]
    cb = [(bi, t) for bi, t in facts.mir_calls(f) if t.get("callee") and facts.callee_name(t["callee"]).endswith("HasChildren::child_by_index")]
    if not ib or not cb:
        raise BrokenCheck("C16-6: HasChildren::insert_after no longer calls child_by_index / insert_before; shape not recognised")
    why = []
    for bi, t in ib:
        p = e1.producer(facts, f, defs, t["args"][2])
        if p != "id":
            why.append("insert_before is given %s as reference, expected the id() of the following child" % p)
    for bi, t in cb:
        a = c14.affine(facts, f, defs, t["args"][1])
        if a[1] != 1:
            why.append("the following child is looked up at index%+d, expected index+1" % a[1])
    res.oblige(1, not why)
    if why:
        res.add(Finding("C16-6", "HasChildren::insert_after", "%s: %s - split_text puts the new node at the wrong place when the split node "
                        "has a following sibling" % (f["path"], "; ".join(why)), f["file"], f["line"], {}))
    res.functions_analysed = len(reach)
    return res
