"""C12 — the DOM stays a tree: bookkeeping sequence on insert / delete, who-may-write, attach sets parent."""
import re

import e1
import e4
import e6
import mutset
from common import Finding, Result
from facts import BrokenCheck

LEVEL = "other"

CONTAINERS = ("XmlAttribute", "XmlDocument", "XmlElement")


def calls(facts, f, pred):
    return [(bi, t) for bi, t in facts.mir_calls(f) if t.get("callee") and pred(facts.callee_name(t["callee"]))]


def unreachable_without(facts, f, targets, removed):
    """Are all `targets` blocks unreachable from entry once `removed` blocks are deleted?"""
    succ = e1.cfg(facts, f)
    seen, work = set(), [0]
    while work:
        x = work.pop()
        if x in seen or x in removed:
            continue
        seen.add(x)
        work.extend(succ.get(x, []))
    return not (set(targets) & seen)


def ok_blocks(facts, f, variant):
    out = []
    for bi, b in enumerate(facts.blocks(f)):
        if b.get("cleanup"):
            continue
        for st in b["stmts"]:
            if st["ll"] == 0 and st.get("rv") == "Aggregate" and st.get("variant") == variant:
                out.append(bi)
    return out


def insert_sequence(facts, res, ty):
    rule = "R12-1"
    path = "xml_info::<%s as HasChildren>::insert_by_id" % ty
    f = facts.fn(path)
    body_fn = f
    helper = facts.fn_opt(path + "::add_or_insert")
    st = res.rules[rule]
    st["instances"] += 1
    problems = []
    # the function that does the work
    w = helper or f
    succ = e1.cfg(facts, w)
    dom, _ = e1.dominators(succ)
    rm = calls(facts, w, lambda n: n == "xml_info::XmlItem::remove_from_parent")
    sp = calls(facts, w, lambda n: n == "xml_info::XmlItem::set_parent_id")
    ins = calls(facts, w, lambda n: re.search(r"^std::vec::Vec::<T, A>::(insert|push)$", n) is not None)
    if not rm or not sp or len(ins) < 2:
        problems.append("expected remove_from_parent, set_parent_id and Vec::insert + Vec::push (found %d/%d/%d)" % (len(rm), len(sp), len(ins)))
    else:
        for bi, _ in sp:
            if not any(r in dom[bi] for r, _ in rm):
                problems.append("set_parent_id is not preceded by remove_from_parent on every path")
        for bi, _ in ins:
            if not any(s in dom[bi] for s, _ in sp):
                problems.append("the child vector is extended without set_parent_id before it")
        # the parent id is Some(self.id())
        defs = e1.def_sites(facts, w)
        for bi, t in sp:
            l = e1.local_of(t["args"][1])
            some = False
            for kind, _, x in defs.get(l, []):
                if kind == "stmt" and x.get("rv") == "Aggregate" and x.get("variant") == "Some":
                    if e1.producer(facts, w, defs, x["ops"][0]) == "id":
                        some = True
            if not some:
                problems.append("set_parent_id is not called with Some(self.id())")
    # every Ok exit passes an insertion
    oks = ok_blocks(facts, f, "Ok")
    if not oks:
        problems.append("no Ok exit found")
    if helper:
        hc = calls(facts, f, lambda n: n == helper["path"])
        if not unreachable_without(facts, f, oks, {bi for bi, _ in hc}):
            problems.append("an Ok exit does not pass add_or_insert")
    else:
        if not unreachable_without(facts, f, oks, {bi for bi, _ in ins}):
            problems.append("an Ok exit does not pass Vec::insert / Vec::push")
    # hierarchy test (not for the document: a document is nobody's child)
    if ty != "XmlDocument":
        an = calls(facts, f, lambda n: n == "xml_info::HasParent::ancestor")
        if not an:
            problems.append("no hierarchy test (ancestor)")
        else:
            d2, _ = e1.dominators(e1.cfg(facts, f))
            for bi, _ in rm if not helper else []:
                if not any(a in d2[bi] for a, _ in an):
                    problems.append("remove_from_parent is not dominated by the hierarchy test")
    ok = not problems
    res.oblige(1, ok)
    res.sample({"rule": rule, "impl": ty, "method": "insert_by_id", "verdict": "ok" if ok else problems})
    if not ok:
        res.add(Finding(rule, "%s::insert_by_id" % ty, "%s: %s" % (path, "; ".join(sorted(set(problems)))), f["file"], f["line"], {}))


def delete_sequence(facts, res, ty):
    rule = "R12-1"
    path = "xml_info::<%s as HasChildren>::delete_by_id" % ty
    f = facts.fn(path)
    res.rules[rule]["instances"] += 1
    problems = []
    succ = e1.cfg(facts, f)
    dom, _ = e1.dominators(succ)
    rmv = calls(facts, f, lambda n: n == "std::vec::Vec::<T, A>::remove")
    sp = calls(facts, f, lambda n: n.endswith("::set_parent_id"))
    somes = ok_blocks(facts, f, "Some")
    if not rmv or not sp:
        problems.append("expected Vec::remove and set_parent_id (found %d/%d)" % (len(rmv), len(sp)))
    else:
        for bi, _ in sp:
            if not any(r in dom[bi] for r, _ in rmv):
                problems.append("set_parent_id(None) is not preceded by Vec::remove")
        if not unreachable_without(facts, f, somes, {bi for bi, _ in sp}):
            problems.append("a Some(..) exit does not pass set_parent_id")
        defs = e1.def_sites(facts, f)
        for bi, t in sp:
            l = e1.local_of(t["args"][1])
            none = any(kind == "stmt" and x.get("rv") == "Aggregate" and x.get("variant") == "None" for kind, _, x in defs.get(l, []))
            if not none:
                problems.append("set_parent_id is not called with None")
    ok = not problems
    res.oblige(1, ok)
    res.sample({"rule": rule, "impl": ty, "method": "delete_by_id", "verdict": "ok" if ok else problems})
    if not ok:
        res.add(Finding(rule, "%s::delete_by_id" % ty, "%s: %s" % (path, "; ".join(sorted(set(problems)))), f["file"], f["line"], {}))


WHO_MAY_CALL = {
    # callee -> allowed callers (canonical paths or prefixes), reason
    "insert_by_id": (["xml_info::HasChildren::append", "xml_info::HasChildren::insert_before"],
                     "only the two default methods that first move the order key"),
    "delete_by_id": (["xml_info::HasChildren::delete", "xml_info::XmlItem::remove_from_parent"],
                     "delete (clears the order key afterwards) and the detach step of insert_by_id"),
    # "CONSTRUCTORS" = the constructors of mutset (node / new / empty ...) and private helpers called from constructors only
    "xml_info::XmlElement::push_child": ("CONSTRUCTORS", "constructor only"),
    "xml_info::XmlDocument::push_child": ("CONSTRUCTORS", "constructor only"),
    "xml_info::XmlDocumentTypeDeclaration::push_child": ("CONSTRUCTORS", "constructor only"),
    "xml_info::XmlElement::push_attribute": ("CONSTRUCTORS", "constructor only"),
    "xml_info::XmlElement::append_attribute": (["xml_dom::<XmlElement as ElementMut>::set_attribute_node"], "DOM attribute setter"),
    "xml_info::XmlElement::remove_attribute": (["xml_dom::<XmlElement as ElementMut>::set_attribute_node",
                                                "xml_dom::<XmlElement as ElementMut>::remove_attribute"], "DOM attribute setters"),
    "set_parent_id": (["xml_info::<XmlAttribute as HasChildren>::insert_by_id", "xml_info::<XmlElement as HasChildren>::insert_by_id",
                       "xml_info::<XmlDocument as HasChildren>::insert_by_id::add_or_insert",
                       "xml_info::<XmlAttribute as HasChildren>::delete_by_id", "xml_info::<XmlElement as HasChildren>::delete_by_id",
                       "xml_info::<XmlDocument as HasChildren>::delete_by_id", "xml_info::XmlItem::set_parent_id",
                       "xml_info::XmlAttributeValue::set_parent_id", "xml_info::XmlAttribute::set_values",
                       "xml_info::XmlElement::append_attribute", "xml_info::XmlElement::remove_attribute"],
                      "attach / detach bookkeeping only"),
}


def who_may_call(facts, res):
    rule = "R12-2"
    st = res.rule(rule, instances=0)
    mutset.prepare(facts)
    for callee, (allowed, why) in WHO_MAY_CALL.items():
        if "::" in callee:
            pred = lambda n, c=callee: n == c
        else:
            pred = lambda n, c=callee: n.startswith("xml_info::") and n.split("::")[-1] == c
        cs = e6.callers_of(facts, pred)
        if not cs:
            raise BrokenCheck("R12-2: no caller of %s found" % callee)
        closure = set()
        if allowed != "CONSTRUCTORS":
            # an allowed caller stands for itself, for the functions nested in it (or that it is nested in: a nested helper that was
            # inlined), and for the private functions that are only called from it (the pieces it may be split into)
            for a in allowed:
                closure.add(a)
                g = facts.by_path.get(a)
                if g is not None:
                    closure |= {x["path"] for x in facts.family(g)}
        for caller, e in cs:
            st["instances"] += 1
            cp = caller["path"]
            ok = mutset.is_constructor(cp) if allowed == "CONSTRUCTORS" else \
                (cp in closure or any(cp.startswith(a + "::") or a.startswith(cp + "::") for a in allowed))
            res.oblige(1, ok)
            if not ok:
                res.add(Finding(rule, "%s<-%s" % (callee, caller["path"]),
                                "%s is called from %s; allowed callers: %s (%s)" % (e["name"], caller["path"], allowed, why),
                                caller["file"], e.get("line"), {}))


CHILD_KINDS = ("XmlElement", "XmlText", "XmlCDataSection", "XmlComment", "XmlProcessingInstruction", "XmlEntityReference",
               "XmlDocumentType")


def r12_7(facts, res):
    """A removed node has no parent: parent_node() of every node kind that can be a child must be the outcome of a lookup
    that fails for a detached node (parent id -> registry, or membership in the document), never an unconditional Some(..)."""
    from facts import walk
    st = res.rule("R12-7", instances=0)
    for ty in CHILD_KINDS:
        f = facts.fn_opt("xml_dom::<%s as Node>::parent_node" % ty)
        if f is None or "body" not in f:
            continue
        st["instances"] += 1
        b = f["body"]
        tail = b.get("expr") if b.get("k") == "Block" else b
        uncond = isinstance(tail, dict) and tail.get("k") == "Call" and str(tail.get("f", {}).get("path", "")).endswith("Some") \
            and not b.get("stmts")
        res.oblige(1, not uncond)
        if uncond:
            res.add(Finding("R12-7", ty, "%s answers Some(..) unconditionally: a node of this kind that was removed from its document still "
                            "reports the document as parent" % f["path"], f["file"], f["line"], {}))
    # kinds that may also be children of the document (and of the document type): the answer must not be restricted to elements
    for ty in ("XmlProcessingInstruction", "XmlComment", "XmlElement"):
        f = facts.fn_opt("xml_dom::<%s as Node>::parent_node" % ty)
        if f is None or "body" not in f:
            continue
        st["instances"] += 1
        narrow = sorted({m["m"] for m in walk(f["body"]) if m.get("k") == "MethodCall" and m["m"] in ("as_element", "as_attribute", "as_document")})
        for c in [x for x in facts.fns.values() if x.get("parent") == f["path"] and "body" in x]:
            narrow += sorted({m["m"] for m in walk(c["body"]) if m.get("k") == "MethodCall" and m["m"] in ("as_element", "as_attribute", "as_document")})
        res.oblige(1, not narrow)
        if narrow:
            res.add(Finding("R12-7", ty + "|narrowed", "%s keeps the parent only when it is of one kind (%s): a node of this kind directly under the "
                            "document reports no parent although the document lists it" % (f["path"], ", ".join(narrow)), f["file"], f["line"], {}))
    if st["instances"] < 3:
        raise BrokenCheck("R12-7: %d parent_node implementations of child kinds (floor 3)" % st["instances"])


def run(facts, tier):
    res = Result("C12")
    res.explanation = (
        "static: R12-1 in the three HasChildren impls (attribute, document, element) the MIR CFG must order hierarchy test -> "
        "remove_from_parent -> set_parent_id(Some(self.id())) -> Vec::insert/push on every path to Ok, and Vec::remove -> "
        "set_parent_id(None) on every path to Some in delete_by_id (dominance and cut-set checks); R12-2 who-may-call table "
        "for insert_by_id, delete_by_id, push_*, set_parent_id and the attribute-vector writers; R12-3 every function that "
        "adds to a child or attribute vector after construction sets the child's parent id; R12-4 the hierarchy guard also "
        "excludes the node itself.")
    res.assumptions = ["agreement of the navigation views after arbitrary histories is not decided (aliasing through Rc<RefCell>)"]
    res.rule("R12-1", instances=0)
    for ty in CONTAINERS:
        insert_sequence(facts, res, ty)
        delete_sequence(facts, res, ty)
    who_may_call(facts, res)
    # ---- R12-3
    st3 = res.rule("R12-3", instances=0)
    for path in ("xml_info::XmlElement::append_attribute",):
        f = facts.fn(path)
        st3["instances"] += 1
        has = bool(calls(facts, f, lambda n: n.endswith("::set_parent_id")))
        res.oblige(1, has)
        if not has:
            res.add(Finding("R12-3", path, "%s adds an item to the attribute vector without setting its parent id: the attribute has no "
                            "owner element" % path, f["file"], f["line"], {}))
    f = facts.fn("xml_info::XmlElement::remove_attribute")
    st3["instances"] += 1
    has = bool(calls(facts, f, lambda n: n.endswith("::set_parent_id")))
    res.oblige(1, has)
    if not has:
        res.add(Finding("R12-3", f["path"], "%s removes an attribute without clearing its parent id" % f["path"], f["file"], f["line"], {}))
    # ---- R12-4
    st4 = res.rule("R12-4", instances=0)
    for ty in ("XmlElement",):   # an attribute or a document is refused as a child by the kind test
        f = facts.fn("xml_info::<%s as HasChildren>::insert_by_id" % ty)
        st4["instances"] += 1
        defs = e1.def_sites(facts, f)
        found = False
        for b in facts.blocks(f):
            for s in b["stmts"]:
                if s.get("rv") == "BinaryOp" and s["op"] in ("Eq", "Ne"):
                    if e1.producer(facts, f, defs, s["ops"][0]) == "id" and e1.producer(facts, f, defs, s["ops"][1]) == "id":
                        found = True
        res.oblige(1, found)
        if not found:
            res.add(Finding("R12-4", "%s::insert_by_id" % ty, "%s: the hierarchy test starts at the parent (HasParent::ancestor) and there is no "
                            "`value.id() == self.id()` test: inserting a node into itself is not refused" % f["path"], f["file"], f["line"], {}))
    res.functions_analysed = 6 + len(WHO_MAY_CALL)
    import registry
    registry.rule(facts, res, "R12-6")
    registry.dangling_rule(facts, res, "R12-8")
    # previous_sibling / next_sibling find the node in the child list by its order key: the keys have to be the delegated
    # order of each node kind (R06-3) and cached keys have to be invalidated when the order vector shifts (C14-8)
    from props import c06, c14
    c06.r06_3(facts, res, "R12-9")
    c14.c14_8(facts, res, "R12-10")
    from props import c15
    c15.r15_4(facts, res, "R12-11")    # at most one document element and one document type: the refusals of XmlDocument::insert_by_id
    c14.slot_index(facts, res, "R12-12")
    # a refused insertion leaves the refused node where it was: it may be attached (an ancestor of the receiver), and sibling
    # navigation finds a child by its order key - clearing the key on the error path leaves an attached child with key 0
    st13 = res.rule("R12-13", instances=0)
    for path in ("xml_info::HasChildren::insert_before", "xml_info::HasChildren::append"):
        g = facts.fn(path)
        st13["instances"] += 1
        fam = facts.family(g)
        pieces = fam + [c for c in facts.fns.values() if c.get("parent") in {x["path"] for x in fam}]
        bad = sorted({facts.callee_name(t["callee"]) for h in pieces for _, t in facts.mir_calls(h)
                      if t.get("callee") and facts.callee_name(t["callee"]).split("::")[-1] in ("clear_order", "delete", "remove_from_parent")})
        res.oblige(1, not bad)
        if bad:
            res.add(Finding("R12-13", path.split("::", 1)[1], "%s calls %s on the node it is inserting: when the insertion is refused the node may still be "
                            "attached elsewhere and loses its order key (or its place) there" % (path, bad), g["file"], g["line"], {}))
    r12_7(facts, res)
    import staleidx
    staleidx.rule(facts, res, "R12-5", lambda f: f["crate"] in ("xml_info", "xml_dom"), floor=5)
    return res
