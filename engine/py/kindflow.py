"""Path-sensitive walk of a function body over the *kinds* of several enum-typed inputs (typed tree).

The tracked values are immutable parameters of one enum type (XPath `Value`: Boolean / Node / Number / Text).  A state is
one assignment of a kind to every tracked value; the walk carries the set of states under which a program point can be
reached.  Conditions are evaluated to a pair (states where true, states where false):

    v.is_node() ...            predicate methods of the enum; their kind is read from the `matches!` in their body
    if let PAT = (a, b)        tuple / or / variant patterns against tracked values
    match a { .. }             arms in order, guards refine
    !, &&, ||                  with short-circuit refinement
    anything else              not about the kinds: both outcomes keep all states

`return`, `?`-free divergence (unreachable!/panic!) and guard clauses are followed, so `if .. { return x }` removes the
states of its condition from what follows.  hits = [(node, states)] for the nodes selected by `want`.
"""
import itertools

from facts import walk


class Unknown(Exception):
    pass


class KindFlow:
    def __init__(self, facts, f, enum_suffix, tracked=None):
        self.facts, self.f, self.enum = facts, f, enum_suffix
        adt = None
        for a in facts.adts.values():
            if str(a.get("path", "")).endswith(enum_suffix) and a.get("variants"):
                adt = a
        if adt is None:
            raise Unknown("enum %s not found" % enum_suffix)
        self.kinds = [v["name"] for v in adt["variants"]]
        if tracked is None:
            tracked = [p["lid"] for p in f.get("params") or [] if p.get("p") == "Bind" and not p.get("mut")
                       and enum_suffix.split("::")[-1] in str(p.get("ty", ""))]
        if not tracked:
            raise Unknown("%s has no parameter of type %s" % (f["path"], enum_suffix))
        self.idx = {lid: i for i, lid in enumerate(tracked)}
        self.universe = frozenset(itertools.product(self.kinds, repeat=len(tracked)))
        self.preds = self._predicates(adt["path"])
        self.hits = []

    def _predicates(self, adt_path):
        """method id -> kind, for `fn is_x(&self) -> bool { matches!(self, Enum::X(..)) }`"""
        out = {}
        for g in self.facts.fns.values():
            if "body" not in g or not g["path"].startswith(adt_path + "::") or not str(g.get("sig", "")).endswith("-> bool"):
                continue
            b = g["body"]
            while b.get("k") == "Block" and not b.get("stmts") and "expr" in b:
                b = b["expr"]
            if b.get("k") == "Match" and len(b.get("arms", [])) == 2:
                a0, a1 = b["arms"]
                ks = self._pat_kinds(a0["pat"])
                if ks is not None and len(ks) == 1 and a0["body"].get("v") is True and a1["body"].get("v") is False:
                    out[g["id"]] = next(iter(ks))
        return out

    def _pat_kinds(self, pat):
        p = pat.get("p")
        if p in ("Ref", "Deref"):
            return self._pat_kinds(pat["sub"])
        if p == "Or":
            out = set()
            for q in pat["pats"]:
                k = self._pat_kinds(q)
                if k is None:
                    return None
                out |= k
            return out
        if p in ("Wild",) or (p == "Bind" and "sub" not in pat):
            return set(self.kinds)
        if p == "Bind":
            return self._pat_kinds(pat["sub"])
        if p in ("TupleStruct", "Struct") or (p == "Expr" and pat["e"].get("k") == "Path"):
            path = pat.get("path") or pat["e"].get("path")
            v = str(path).split("::")[-1]
            if v in self.kinds and self.enum.split("::")[-1] in str(path):
                return {v}
        return None

    # -- value shapes ----------------------------------------------------------------------------------------------
    def shape(self, e):
        n = 0
        while isinstance(e, dict) and n < 10:
            n += 1
            k = e.get("k")
            if k in ("AddrOf", "Cast") or (k == "Unary" and e.get("op") == "*"):
                e = e["a"]
            elif k == "Block" and not e.get("stmts") and "expr" in e:
                e = e["expr"]
            else:
                break
        if not isinstance(e, dict):
            return None
        if e.get("k") == "Path" and e.get("res") == "Local" and e.get("lid") in self.idx:
            return ("var", self.idx[e["lid"]])
        if e.get("k") == "Tup":
            return ("tup", [self.shape(x) for x in e.get("es", [])])
        return None

    def pmatch(self, pat, shape, s):
        """True / False / None (not decidable from the kinds)"""
        p = pat.get("p")
        if p in ("Ref", "Deref"):
            return self.pmatch(pat["sub"], shape, s)
        if p == "Wild" or (p == "Bind" and "sub" not in pat):
            return True
        if p == "Bind":
            return self.pmatch(pat["sub"], shape, s)
        if p == "Or":
            res = [self.pmatch(q, shape, s) for q in pat["pats"]]
            if any(r is True for r in res):
                return True
            return None if any(r is None for r in res) else False
        if p == "Tuple":
            if shape is None or shape[0] != "tup" or len(shape[1]) != len(pat["pats"]) or "dd" in pat:
                return None
            res = [self.pmatch(q, sh, s) for q, sh in zip(pat["pats"], shape[1])]
            if any(r is False for r in res):
                return False
            return None if any(r is None for r in res) else True
        ks = self._pat_kinds(pat)
        if ks is not None and shape is not None and shape[0] == "var":
            return s[shape[1]] in ks
        return None

    def pat_cond(self, pat, init, S):
        sh = self.shape(init)
        T, F = set(), set()
        for s in S:
            r = self.pmatch(pat, sh, s)
            if r is True or r is None:
                T.add(s)
            if r is False or r is None:
                F.add(s)
        return T, F

    # -- conditions ------------------------------------------------------------------------------------------------
    def cond(self, e, S):
        k = e.get("k")
        S = set(S)
        if k == "Lit" and e.get("t") == "bool":
            return (S, set()) if e["v"] else (set(), S)
        if k == "Block" and not e.get("stmts") and "expr" in e:
            return self.cond(e["expr"], S)
        if k == "Unary" and e.get("op") == "!":
            t, f = self.cond(e["a"], S)
            return f, t
        if k == "Binary" and e.get("op") == "&&":
            ta, fa = self.cond(e["a"], S)
            tb, fb = self.cond(e["b"], ta)
            return tb, fa | fb
        if k == "Binary" and e.get("op") == "||":
            ta, fa = self.cond(e["a"], S)
            tb, fb = self.cond(e["b"], fa)
            return ta | tb, fb
        if k == "MethodCall" and (e.get("rid") or e.get("id")) in self.preds and not e.get("args"):
            sh = self.shape(e["recv"])
            if sh is not None and sh[0] == "var":
                kind = self.preds[e.get("rid") or e.get("id")]
                t = {s for s in S if s[sh[1]] == kind}
                return t, S - t
        if k == "Let":
            self.visit(e["init"], S)
            return self.pat_cond(e["pat"], e["init"], S)
        if k == "Match" and e.get("src") == "Normal" and e.get("mac", "").startswith("matches") and len(e.get("arms", [])) == 2:
            t, f = self.pat_cond(e["arms"][0]["pat"], e["scrut"], S)
            if "guard" in e["arms"][0]:
                return S, S
            return t, f
        self.visit(e, S)
        return S, S

    # -- statements / expressions: returns the states that fall through ----------------------------------------------
    def run(self, want):
        self.want = want
        self.visit(self.f["body"], set(self.universe))
        return self.hits

    def visit(self, e, S):
        if isinstance(e, list):
            for x in e:
                S = self.visit(x, S)
            return S
        if not isinstance(e, dict):
            return S
        S = set(S)
        if "s" in e and "k" not in e:          # statement
            if e["s"] == "Let":
                if "init" not in e:
                    return S
                S = self.visit(e["init"], S)
                if "els" in e:
                    t, f = self.pat_cond(e["pat"], e["init"], S)
                    self.visit(e["els"], f)
                    return t
                return S
            return self.visit(e.get("e"), S)
        k = e.get("k")
        if self.want(e):
            self.hits.append((e, set(S)))
        if k == "Block":
            for s in e.get("stmts", []):
                S = self.visit(s, S)
            if "expr" in e:
                S = self.visit(e["expr"], S)
            return S
        if k == "Ret":
            if "v" in e:
                self.visit(e["v"], S)
            return set()
        if k in ("Break", "Continue"):
            return set()
        if k == "If":
            t, f = self.cond(e["cond"], S)
            out = self.visit(e["then"], t)
            out |= self.visit(e["else"], f) if "else" in e else f
            return out
        if k == "Match":
            src = e.get("src")
            if src == "Try":
                sc = e["scrut"]
                return self.visit(sc["args"][0] if sc.get("k") == "Call" and sc.get("args") else sc, S)
            if src == "ForLoop":
                self.visit(e["scrut"], S)
                for arm in e["arms"]:          # the arms are alternatives (None => break | Some(x) => body), not a sequence
                    self.visit(arm, S)
                return S
            S = self.visit(e["scrut"], S)
            rest, out = set(S), set()
            for arm in e["arms"]:
                t, f = self.pat_cond(arm["pat"], e["scrut"], rest)
                if "guard" in arm:
                    gt, gf = self.cond(arm["guard"], t)
                    out |= self.visit(arm["body"], gt)
                    rest = f | gf
                else:
                    out |= self.visit(arm["body"], t)
                    rest = f
            return out
        if k == "Loop":
            self.visit(e["body"], S)
            return S
        if k == "Closure":
            self.visit(e.get("body"), S)
            return S
        if k == "Call" and "panic" in str(e.get("mac", "")):
            return set()
        if k in ("Call", "MethodCall") and str(e.get("mac", "")).rstrip("!") in ("unreachable", "unimplemented", "todo", "panic"):
            return set()
        if k == "Binary" and e.get("op") in ("&&", "||"):
            t, f = self.cond(e, S)
            return t | f
        order = {"MethodCall": ["recv", "args"], "Call": ["f", "args"], "Binary": ["a", "b"], "Assign": ["r", "l"]}.get(k)
        keys = [x for x in (order or []) if x in e] + [x for x in e if x not in (order or []) and x != "mir"]
        for x in keys:
            v = e[x]
            if isinstance(v, (dict, list)):
                S = self.visit(v, S)
        return S
