"""R02-1 — every caller of a nom parser (or of XmlDocument::from_raw*) tests the unconsumed rest."""
from facts import walk, BrokenCheck
from props.c15 import strip_try, root_local

PARSER_PREFIXES = ("xml_parser::", "xml_xpath::expr::parse", "xml_dom::XmlDocument::from_raw", "xml_nom::")
CALLER_CRATES = ("xml_info", "xml_dom", "xml_xpath", "xq", "xe", "dump_element", "dump_xml_info", "validate_xml")

REASONS = {
    "xml_info::XmlDocument::empty|xml_parser::document#1":
        "constant input \"<r />\": R01-1 shows the grammar consumes it completely",
    "xml_dom::<XmlDocument as DocumentMut>::create_entity_reference|xml_parser::reference#1":
        "only used as a syntax pre-check; the complete name is looked up in the entity table afterwards, so a name with a "
        "tail the parser would leave over is refused there",
}


def is_parser_call(e):
    if e.get("k") != "Call" or e["f"].get("k") != "Path":
        return None
    p = str(e["f"].get("path", ""))
    if p.startswith(PARSER_PREFIXES) and "::model::" not in p and "helper" not in p and "xmlchar" not in p:
        return p
    return None


def unwrap_call(e):
    """Peel `?`, .unwrap(), .map_err(..) around a parser call; returns the call node or None."""
    for _ in range(6):
        e, _t = strip_try(e)
        if e.get("k") == "MethodCall" and e["m"] in ("unwrap", "map_err", "expect", "ok"):
            e = e["recv"]
            continue
        break
    return e if is_parser_call(e) else None


def analyse(facts):
    """Yield dict(fn, callee, ord, verdict, how, line)."""
    out = []
    for f in facts.fns.values():
        if f["crate"] not in CALLER_CRATES or "body" not in f or f.get("derived"):
            continue
        if f["path"].startswith("xml_xpath::expr::"):
            continue   # the grammar itself
        ordn = {}
        # collect let-bindings of parser results
        bound = []     # (call node, callee, rest lid or None, whole-binding lid, let node)
        for n in walk(f["body"]):
            if n.get("s") == "Let" and "init" in n:
                c = unwrap_call(n["init"])
                if c is None:
                    continue
                pat = n["pat"]
                rest = None
                dropped = False
                if pat.get("p") == "Tuple" and len(pat["pats"]) == 2:
                    r = pat["pats"][0]
                    if r.get("p") == "Bind":
                        rest = r["lid"]
                    else:
                        dropped = True
                bound.append((c, is_parser_call(c), rest, dropped, n))
        seen_calls = {id(b[0]) for b in bound}
        for n in walk(f["body"]):
            p = is_parser_call(n)
            if p and id(n) not in seen_calls:
                # a parser call whose result is not bound by `let (rest, x)`: is it returned / mapped?
                bound.append((n, p, None, None, None))
        for c, callee, rest, dropped, letn in bound:
            k = callee
            ordn[k] = ordn.get(k, 0) + 1
            key = "%s|%s#%d" % (f["path"], callee, ordn[k])
            how = None
            if rest is not None:
                _is_empty_of.allow_trim = callee.startswith("xml_xpath::expr::parse")
                how = rest_tested(f, rest)
                _is_empty_of.allow_trim = False
            elif letn is None:
                how = direct_use(f, c)
            out.append({"fn": f["path"], "callee": callee, "key": key, "ok": how is not None, "how": how,
                        "line": c.get("ln"), "file": f["file"], "dropped": bool(dropped)})
    return out


def rest_tested(f, rest):
    import restlogic
    base = lambda c: _is_rest_empty(c, rest)
    for n in walk(f["body"]):
        k = n.get("k")
        if k == "If":
            cond = n["cond"]
            # F1: if rest.is_empty() [&& ..] { .. }
            if restlogic.true_implies(cond, base):
                return "F1: result used under `if rest.is_empty()`"
            # F2: if !rest.is_empty() [|| ..] { return Err }
            if restlogic.false_implies(cond, base) and restlogic.always_leaves(n["then"]):
                return "F2: `if !rest.is_empty() { return Err(..) }`"
            if restlogic.false_implies(cond, base) and "else" in n and _tail_is_err(n["then"]):
                return "F2: `if !rest.is_empty() { Err(..) } else { .. }`"
        if k == "Call" and str(n["f"].get("path", "")).endswith("::Ok") and n["args"]:
            a = n["args"][0]
            # F3: rest returned to the caller
            if a.get("k") == "Tup" and any(root_local(x) == rest for x in a["es"]):
                return "F3: rest returned to the caller"
            # F4: Ok(rest.is_empty() && ..)
            if restlogic.true_implies(a, base):
                return "F4: Ok(rest.is_empty() ..)"
    return None


def _tail_is_err(e):
    while e.get("k") == "Block" and "expr" in e:
        e = e["expr"]
    e, _ = strip_try(e)
    return e.get("k") == "Call" and str(e["f"].get("path", "")).endswith("::Err")


TRIMS = ("trim", "trim_start", "trim_end", "trim_start_matches", "trim_end_matches", "trim_matches")


def _is_rest_empty(c, rest):
    if not (c.get("k") == "MethodCall" and c["m"] == "is_empty"):
        return False
    r = c["recv"]
    # `rest.trim_start_matches(white space).is_empty()`: the rest may consist of white space (XPath 3.7: white space is allowed
    # after the last token).  Only for the expression parser - an XML document parser consumes its own trailing Misc.
    if r.get("k") == "MethodCall" and r["m"] in TRIMS and root_local(r["recv"]) == rest:
        return _is_empty_of.allow_trim
    return root_local(r) == rest


def _is_empty_of(cond, rest, negated):
    import restlogic
    base = lambda c: _is_rest_empty(c, rest)
    return restlogic.false_implies(cond, base) if negated else restlogic.true_implies(cond, base)


_is_empty_of.allow_trim = False


def direct_use(f, call):
    """parser(input) used as the tail expression (its IResult, rest included, is returned to the caller)."""
    body = f["body"]
    tail = body
    while tail.get("k") == "Block" and "expr" in tail:
        tail = tail["expr"]
    if tail is call:
        return "F3: IResult returned to the caller"
    return None


def rule(facts, res, rule_name, caller_filter=None, floor=10):
    from common import Finding
    rows = analyse(facts)
    st = res.rule(rule_name, instances=0, reasoned=0)
    for r in rows:
        if caller_filter and not caller_filter(r["fn"]):
            continue
        st["instances"] += 1
        if r["ok"]:
            res.oblige(1, True)
            res.sample({"rule": rule_name, "site": r["key"], "verdict": r["how"]}, limit=8)
            continue
        if r["key"] in REASONS:
            st["reasoned"] += 1
            res.oblige(1, True)
            continue
        res.oblige(1, False)
        res.add(Finding(rule_name, r["key"], "%s calls %s and %s: ill-formed input with a tail would be taken as parsed"
                        % (r["fn"], r["callee"], "drops the unconsumed rest" if r["dropped"] else "never tests the unconsumed rest"),
                        r["file"], r["line"], {}))
    if st["instances"] < floor:
        raise BrokenCheck("%s: %d call sites (floor %d)" % (rule_name, st["instances"], floor))
