"""Token tables of the XPath expression grammar: From<&str> impls of operator / axis / node-type enums
versus the `alt(tag..)` sets that feed them (used by R08-5 and as a precondition of R06-1 reasons)."""
import e2
from facts import walk, BrokenCheck

_cache = {}


def from_str_arms(facts, enum_name):
    """{literal -> variant name} for `impl From<&str> for expr::model::<enum_name>`, plus default arm kind."""
    path = "xml_xpath::<expr::model::%s as std::convert::From<&str>>::from" % enum_name
    f = facts.fn(path)
    arms = {}
    default = None
    for n in walk(f["body"]):
        if n.get("k") == "Match":
            for arm in n["arms"]:
                pat = arm["pat"]
                lits = []
                if pat.get("p") == "Expr" and pat["e"].get("k") == "Lit" and pat["e"]["t"] == "str":
                    lits = [pat["e"]["v"]]
                elif pat.get("p") == "Or":
                    lits = [q["e"]["v"] for q in pat["pats"] if q.get("p") == "Expr" and q["e"].get("t") == "str"]
                elif pat.get("p") in ("Wild", "Bind"):
                    body = arm["body"]
                    default = "panic" if any(c.get("mac", "").startswith(("unreachable", "panic", "unimplemented", "todo"))
                                             for c in walk(body) if c.get("k") in ("Call", "MethodCall")) else "value"
                    continue
                variant = None
                for c in walk(arm["body"]):
                    if c.get("k") == "Path" and str(c.get("res", "")).startswith("Ctor") and enum_name in str(c.get("path", "")):
                        variant = c["path"].split("::")[-1]
                for l in lits:
                    arms[l] = variant
            break
    if not arms:
        raise BrokenCheck("token table: no literal arms found in %s" % path)
    return f, arms, default


def feeding_literals(facts, ex, enum_name):
    """Literal sets of every parser `P` used as map(P, <enum>::from) in the expression grammar."""
    target = "xml_xpath::<expr::model::%s as std::convert::From<&str>>::from" % enum_name
    out = []
    for m in ex.maps:
        fpath = m["f"]
        if fpath.get("k") != "Path":
            continue
        fid = fpath.get("rid") or fpath.get("id")
        if fid in facts.fns and facts.fns[fid]["path"] == target:
            lits = e2.term_literals(m["term"])
            out.append((m["fn"], m.get("line"), lits))
    return out


def direct_pairs(facts, ex, enum_name):
    """{literal: variant} for every `value(<enum>::Variant, <parser of a finite set of tags>)` of the expression grammar: the
    token is paired with its variant directly, without the string-keyed From<&str>"""
    out = {}
    for v in ex.values:
        c = v["v"]
        while isinstance(c, dict) and c.get("k") in ("AddrOf", "Cast"):
            c = c["a"]
        path = str(c.get("path", "")) if isinstance(c, dict) else ""
        if c.get("k") == "Path" and ("model::%s::" % enum_name) in path:
            lits = e2.term_literals(v["term"])
            if lits is None:
                raise BrokenCheck("%s pairs %s with a parser that is not a finite set of tags" % (v["fn"], path))
            for l in lits:
                if l in out and out[l] != path.split("::")[-1]:
                    out[l] = "%s and %s" % (out[l], path.split("::")[-1])
                else:
                    out[l] = path.split("::")[-1]
    return out


def extractor_for_xpath(facts):
    if id(facts) in _cache:
        return _cache[id(facts)]
    ex = e2.Extractor(facts)
    for f in facts.fns.values():
        if f["crate"] == "xml_xpath" and f["path"].startswith("xml_xpath::expr::") and f["kind"] == "Fn" \
                and "::model::" not in f["path"]:
            try:
                ex.fn_term(f)
            except e2.Unknown as u:
                raise BrokenCheck("expression grammar: %s" % u)
    _cache[id(facts)] = ex
    return ex


def pre_xpath_tokens(facts, reach, enum_name):
    ex = extractor_for_xpath(facts)
    f, arms, default = from_str_arms(facts, enum_name)
    feeds = feeding_literals(facts, ex, enum_name)
    if not feeds:
        return False, "no map(.., %s::from) site found in the grammar" % enum_name
    for fn, line, lits in feeds:
        if lits is None:
            return False, "%s feeds %s::from with a parser that is not a finite set of tags" % (fn, enum_name)
        missing = sorted(lits - set(arms))
        if missing:
            return False, "%s feeds %s::from with %s, which no arm handles" % (fn, enum_name, missing)
    # and nobody else calls it
    import e6
    target = f["path"]
    others = sorted({c["path"] for c, e in e6.callers_of(facts, lambda n: n == target)} - {x[0] for x in feeds})
    if others:
        return False, "%s::from is also called from %s" % (enum_name, others)
    return True, "%d feeding site(s), tag set within the %d literal arms" % (len(feeds), len(arms))
