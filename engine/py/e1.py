"""E1 — panic-site reachability, recursion SCCs, overflow asserts.

A *site* is a MIR terminator in a workspace function that may panic by itself:
  * a call to a std leaf whose summary says "panics on ..." (unwrap/expect, Vec::insert/remove/...,
    slice indexing, str::split_at, explicit core::panicking::* from panic!/unreachable!/
    unimplemented!/todo!),
  * an Assert terminator (Overflow, BoundsCheck, DivisionByZero, RemainderByZero).
Debug-build pointer-check asserts are ignored.  RefCell borrow panics are recorded but not
claimed (they depend on run-time aliasing).
"""
import re

PANIC_LEAVES = [
    # (regex on canonical callee name, site kind)
    (r"^core::panicking::", "panic"),
    (r"^std::rt::(panic_fmt|begin_panic)", "panic"),
    (r"^std::option::Option::<T>::(unwrap|expect)$", "unwrap"),
    (r"^std::result::Result::<T, E>::(unwrap|expect|unwrap_err|expect_err)$", "unwrap"),
    (r"^std::vec::Vec::<T, A>::(insert|remove|split_off|drain|swap_remove|truncate_front)$", "vec-index"),
    (r"^<std::vec::Vec<T, A> as std::ops::Index(Mut)?<I>>::index(_mut)?$", "index"),
    (r"^core::slice::index::<impl std::ops::Index(Mut)?<I> for \[T\]>::index(_mut)?$", "index"),
    (r"^core::str::<impl str>::(split_at|split_at_mut)$", "str-index"),
    (r"^core::str::traits::<impl std::ops::Index(Mut)?<I> for str>::index(_mut)?$", "str-index"),
    (r"^<std::string::String as std::ops::Index(Mut)?<I>>::index(_mut)?$", "str-index"),       # `s[..n]` on a String: byte offsets
    (r"^std::string::String::(insert|insert_str|remove|drain|split_off|truncate|replace_range)$", "str-index"),
    (r"^core::slice::<impl \[T\]>::(split_at|split_at_mut|copy_from_slice|swap)$", "index"),
    (r"^std::char::methods::<impl char>::from_u32_unchecked$", "unsafe"),
    # allocation sized by a value: `capacity overflow` panic / abort when the size is controlled by the input
    (r"^std::(string::String|vec::Vec::<T>|vec::Vec::<T, A>|collections::VecDeque::<T>)::(with_capacity|reserve|reserve_exact)$", "alloc"),
    (r"^std::vec::Vec::<T, A>::(resize|resize_with)$|^std::vec::from_elem$|^std::str::<impl str>::repeat$|^alloc::str::<impl str>::repeat$", "alloc"),
]
PANIC_LEAVES = [(re.compile(r), k) for r, k in PANIC_LEAVES]

IGNORED_ASSERTS = ("Misaligned", "NullDeref")

BORROW_LEAVES = re.compile(r"^std::cell::RefCell::<T>::(borrow|borrow_mut)$")


def classify_callee(name):
    for rx, kind in PANIC_LEAVES:
        if rx.search(name):
            return kind
    return None


def sites_of(facts, f):
    """List of site dicts of function record f (ordinals are per (kind, callee) in block order)."""
    out = []
    ordn = {}
    for bi, b in enumerate(facts.blocks(f)):
        if b.get("cleanup"):
            continue
        t = b["term"]
        if t["k"] == "Call" and "callee" in t:
            name = facts.callee_name(t["callee"])
            kind = classify_callee(name)
            if kind:
                short = name.split("::")[-1]
                if kind == "panic":
                    short = t.get("mac", "panic!")
                k = (kind, short)
                ordn[k] = ordn.get(k, 0) + 1
                out.append({"fn": f["path"], "fid": f["id"], "kind": kind, "what": short, "callee": name,
                            "ord": ordn[k], "bb": bi, "line": t.get("ln"), "mac": t.get("mac"),
                            "snip": t.get("snip"), "term": t})
        elif t["k"] == "Assert":
            a = t["assert"]
            if a in IGNORED_ASSERTS:
                continue
            k = ("assert", a)
            ordn[k] = ordn.get(k, 0) + 1
            out.append({"fn": f["path"], "fid": f["id"], "kind": "assert", "what": a, "callee": a,
                        "ord": ordn[k], "bb": bi, "line": t.get("ln"), "term": t})
    return out


def site_key(s):
    return "%s|%s|%s#%d" % (s["fn"], s["kind"], s["what"], s["ord"])


# ------------------------------------------------------------------------------------------
# SCCs (Tarjan, iterative)

def sccs(nodes, succ):
    index = {}
    low = {}
    onstack = set()
    stack = []
    out = []
    counter = [0]
    for root in nodes:
        if root in index:
            continue
        work = [(root, iter(succ(root)))]
        index[root] = low[root] = counter[0]
        counter[0] += 1
        stack.append(root)
        onstack.add(root)
        while work:
            v, it = work[-1]
            advanced = False
            for w in it:
                if w not in index:
                    index[w] = low[w] = counter[0]
                    counter[0] += 1
                    stack.append(w)
                    onstack.add(w)
                    work.append((w, iter(succ(w))))
                    advanced = True
                    break
                elif w in onstack:
                    low[v] = min(low[v], index[w])
            if advanced:
                continue
            work.pop()
            if work:
                u = work[-1][0]
                low[u] = min(low[u], low[v])
            if low[v] == index[v]:
                comp = []
                while True:
                    w = stack.pop()
                    onstack.discard(w)
                    comp.append(w)
                    if w == v:
                        break
                out.append(comp)
    return out


def recursive_sccs(facts, reach):
    edges = facts.edges()

    def succ(n):
        for e in edges.get(n, []):
            if e["kind"] == "dyn":
                for a in facts.dyn_targets(e):
                    if a in reach:
                        yield a
            elif e["kind"] == "store":
                continue
            elif e["to"] in reach:
                yield e["to"]
    comps = sccs(sorted(reach), succ)
    out = []
    for c in comps:
        if len(c) > 1:
            out.append(c)
        else:
            n = c[0]
            if any(True for x in succ(n) if x == n):
                out.append(c)
    return out


# ------------------------------------------------------------------------------------------
# dominators on the MIR CFG (non-cleanup), simple iterative algorithm

def cfg(facts, f):
    blocks = facts.blocks(f)
    succ = {}
    for i, b in enumerate(blocks):
        if b.get("cleanup"):
            continue
        succ[i] = [s for s in b["term"].get("succ", []) if not blocks[s].get("cleanup")]
    return succ


def dominators(succ, entry=0):
    nodes = list(succ)
    pred = {n: [] for n in nodes}
    for n, ss in succ.items():
        for s in ss:
            if s in pred:
                pred[s].append(n)
    dom = {n: set(nodes) for n in nodes}
    dom[entry] = {entry}
    changed = True
    while changed:
        changed = False
        for n in nodes:
            if n == entry:
                continue
            ps = [dom[p] for p in pred[n]]
            new = set.intersection(*ps) if ps else set()
            new = new | {n}
            if new != dom[n]:
                dom[n] = new
                changed = True
    return dom, pred


# ------------------------------------------------------------------------------------------
# producers, automatic discharge patterns, the generic rule

def local_of(op):
    """Base local index of a MIR operand/place string like 'move _15', '(*_3)', '(_7.0: T)'."""
    if isinstance(op, dict):
        return None
    m = re.search(r"_(\d+)", op)
    return int(m.group(1)) if m else None


def def_sites(facts, f):
    """local -> list of ('call', bb, term) | ('stmt', bb, stmt) definitions."""
    out = {}
    for bi, b in enumerate(facts.blocks(f)):
        if b.get("cleanup"):
            continue
        for st in b["stmts"]:
            if not re.match(r"^_\d+$", st.get("l", "")):
                continue   # a store through a projection ((*_1).f = ..) does not define the base local
            out.setdefault(st["ll"], []).append(("stmt", bi, st))
        t = b["term"]
        if t["k"] == "Call":
            out.setdefault(t["destl"], []).append(("call", bi, t))
    return out


def producer(facts, f, defs, op, depth=0):
    """Name (last path segments) of the call that produced the value of operand `op`, following
    moves/copies/refs; '?' when unknown."""
    l = local_of(op)
    if l is None or depth > 6:
        return "?"
    ds = defs.get(l, [])
    if len(ds) != 1:
        if l <= f["mir"]["argc"] and l >= 1:
            return "arg%d" % l
        calls = [d for d in ds if d[0] == "call"]
        if len(calls) == 1 and all(d[0] == "call" or d[2]["rv"] in ("Use",) for d in ds):
            ds = calls
        else:
            return "?"
    kind, _, x = ds[0]
    if kind == "call":
        c = x.get("callee")
        if not c:
            return "<indirect>"
        name = facts.callee_name(c)
        segs = re.sub(r"<[^<>]*>", "", name)
        return name.split("::")[-1] if "::" in name else name
    if x["rv"] in ("Use", "Ref", "CopyForDeref", "Cast") and x.get("ops"):
        return producer(facts, f, defs, x["ops"][0], depth + 1)
    return "?"


def producer_callee(facts, f, defs, op, depth=0):
    """Callee record of the call producing `op` (through moves), or None."""
    l = local_of(op)
    if l is None or depth > 6:
        return None
    ds = defs.get(l, [])
    calls = [d for d in ds if d[0] == "call"]
    if len(ds) == 1 or (len(calls) == 1 and all(d[0] == "call" or d[2]["rv"] == "Use" for d in ds)):
        kind, _, x = (calls[0] if calls else ds[0])
        if kind == "call":
            return x
        if x["rv"] in ("Use", "Ref", "CopyForDeref", "Cast") and x.get("ops"):
            return producer_callee(facts, f, defs, x["ops"][0], depth + 1)
    return None


def is_const(op, val=None):
    if isinstance(op, dict) and op.get("k") == "const":
        if val is None:
            return True
        return re.match(r"^%s(_[iu]\w+)?$" % val, op["v"]) is not None
    return False


def const_int(op):
    if isinstance(op, dict) and op.get("k") == "const":
        m = re.match(r"^(-?\d+)(_[iu]\w+)?$", op["v"])
        if m:
            return int(m.group(1))
    return None


def always_some(fn):
    """True when every value the function returns is syntactically `Some(..)` / `Ok(..)`."""
    body = fn.get("body")
    if body is None:
        return False
    from facts import walk

    def is_some(e):
        k = e.get("k")
        if k == "Block":
            return "expr" in e and is_some(e["expr"])
        if k == "Call":
            f = e["f"]
            return f.get("k") == "Path" and str(f.get("res", "")).startswith("Ctor") and \
                str(f.get("path", "")).split("::")[-1] in ("Some", "Ok")
        if k == "If":
            return "else" in e and is_some(e["then"]) and is_some(e["else"])
        if k == "Match":
            return all(is_some(a["body"]) for a in e["arms"])
        return False
    for n in walk(body):
        if n.get("k") == "Ret":
            if "v" not in n or not is_some(n["v"]):
                return False
        if n.get("k") == "Match" and n.get("src") == "Try":
            return False
    return is_some(body)


def guarded_positive(facts, f, site_bb, op):
    """Is `op > 0` (or `op != 0`, `0 < op`) established on every path to site_bb?  Pattern P3."""
    l = local_of(op)
    if l is None:
        return False
    succ = cfg(facts, f)
    dom, _ = dominators(succ)
    blocks = facts.blocks(f)
    for d in dom.get(site_bb, ()):
        t = blocks[d]["term"]
        if t["k"] != "SwitchInt":
            continue
        dl = local_of(t["discr"])
        # `match x { 0 => .., i => .. i - 1 .. }`: a switch on the value itself whose `otherwise` edge leaves 0 behind
        if dl is not None and _same_value(facts, f, dl, l) and "0" in [str(v) for v in t.get("vals", [])]:
            other = t["succ"][-1]
            if len(t["succ"]) == len(t.get("vals", [])) + 1 and (other in dom.get(site_bb, ()) or other == site_bb):
                return True
        # find the comparison defining the discriminant
        for st in blocks[d]["stmts"]:
            if st["ll"] == dl and st["rv"] == "BinaryOp" and st["op"] in ("Gt", "Ne", "Lt"):
                a, b = st["ops"]
                ok = False
                if st["op"] in ("Gt", "Ne") and local_of(a) is not None and is_const(b, "0"):
                    ok = _same_value(facts, f, local_of(a), l)
                if st["op"] == "Lt" and is_const(a, "0") and local_of(b) is not None:
                    ok = _same_value(facts, f, local_of(b), l)
                if not ok:
                    continue
                # true edge: SwitchInt on bool: vals ['0'] -> succ[0] is false target, otherwise is true
                true_target = t["succ"][-1]
                if true_target in dom.get(site_bb, ()) or true_target == site_bb:
                    return True
    return False


def _same_value(facts, f, a, b):
    if a == b:
        return True
    # a may be a copy of b (or both copies of one source)
    defs = def_sites(facts, f)

    def root(x, depth=0):
        ds = defs.get(x, [])
        if len(ds) == 1 and ds[0][0] == "stmt" and ds[0][2]["rv"] == "Use" and depth < 5:
            src = local_of(ds[0][2]["ops"][0])
            if src is not None:
                return root(src, depth + 1)
        return x
    return root(a) == root(b)


def auto_discharge(facts, f, defs, s, ctx):
    """Return a reason string when an automatic pattern proves the site harmless, else None."""
    t = s["term"]
    if s["kind"] in ("index", "vec-index") or (s["kind"] == "assert" and s["what"] == "BoundsCheck"):
        import idxproof
        why = idxproof.proof(facts, f, s.get("line")) or idxproof.clamp_proof(facts, f, s.get("line")) or \
            (idxproof.order_slot_proof(facts, f, s.get("line")) if s.get("what") == "insert" else None)
        if why:
            return why
    if s["kind"] == "str-index":
        import idxproof
        if s.get("line") in idxproof.boundary_sites(facts, f):
            return "A11: the byte offset is the position of the k-th character of the same string (char_indices().nth(k)), or its length"
    if s["kind"] == "assert":
        a = s["what"]
        ops = t.get("ovf_ops")
        if a == "Overflow(Add)" and ops and (is_const(ops[0], "1") or is_const(ops[1], "1")):
            return "A1: increment by the constant 1 (overflow needs 2^64 increments of one counter)"
        if a in ("RemainderByZero", "DivisionByZero"):
            # divisor is the operand compared with zero: look at the cond's defining statement
            cl = local_of(t["cond"])
            for st in facts.blocks(f)[s["bb"]]["stmts"]:
                if st["ll"] == cl and st["rv"] == "BinaryOp" and st["op"] == "Eq":
                    if (const_int(st["ops"][0]) or 0) != 0 and is_const(st["ops"][1], "0"):
                        return "A2: constant non-zero divisor"
        if a == "Overflow(Sub)" and ops and is_const(ops[1], "1") and guarded_positive(facts, f, s["bb"], ops[0]):
            return "A3: `x - 1` dominated by the test `x > 0`"
        return None
    if s["kind"] == "alloc":
        a = t.get("args", [])
        size = a[-1] if a else None
        if size is not None and is_const(size):
            return "A8: allocation of a constant size"
        if size is not None and producer(facts, f, defs, size) in ("len", "count", "capacity", "size_hint", "length"):
            # `range.len()` (ExactSizeIterator on a Range the caller built from an offset and a count) is a number, not the
            # length of anything that exists: String::with_capacity(usize::MAX) panics with `capacity overflow`
            pc = producer_callee(facts, f, defs, size)
            nm = (facts.callee_name(pc["callee"]) + " " + str(pc["callee"].get("pathargs", ""))) if pc and pc.get("callee") else ""
            if not re.search(r"ops::Range|RangeInclusive|ExactSizeIterator|iter::Take|iter::Repeat|StepBy", nm):
                return "A8: allocation sized by the length of existing data"
        return None
    if s["kind"] == "vec-index" and s["what"] == "insert" and len(t.get("args", [])) >= 2 and is_const(t["args"][1], "0"):
        return "A7: Vec::insert at the constant index 0 (always <= len)"
    if s["kind"] == "unwrap":
        pc = producer_callee(facts, f, defs, t["args"][0]) if t.get("args") else None
        if pc and pc.get("callee"):
            cid = facts.callee_id(pc["callee"])
            callee = facts.fns.get(cid)
            if callee is not None and always_some(callee):
                return "A4: producer %s returns Some/Ok on every path" % callee["path"]
        arity = ctx.get("arity", {}).get(f["id"])
        if arity is not None and s["prod"] in ("next", "first"):
            # k-th next()/first() on the argument vector of a table function
            k = s["ord_prod"]
            if (s["prod"] == "first" and arity >= 1) or (s["prod"] == "next" and arity >= k):
                return "A5: argument %d exists: function table guarantees at least %d arguments and " \
                       "eval_func_expr rejects calls outside [min,max] before exec" % (k, arity)
    return None


def annotate(facts, f, sites):
    """Add producer names and producer-relative ordinals to unwrap/index sites."""
    defs = def_sites(facts, f)
    cnt = {}
    for s in sites:
        t = s["term"]
        prod = None
        if s["kind"] in ("unwrap", "vec-index", "index", "str-index") and t.get("args"):
            prod = producer(facts, f, defs, t["args"][0])
        s["prod"] = prod or "-"
        k = (s["kind"], s["what"], s["prod"])
        cnt[k] = cnt.get(k, 0) + 1
        s["ord_prod"] = cnt[k]
        s["key"] = "%s|%s|%s<-%s#%d" % (s["fn"], s["kind"], s["what"], s["prod"], s["ord_prod"]) \
            if prod else "%s|%s|%s#%d" % (s["fn"], s["kind"], s["what"], s["ord"])
    return defs


def _relatives(facts, f):
    """Functions a piece of f's code can have come from or gone to without changing what it does: the function it is nested in
    (closure / nested fn -> parent), the closures and nested fns inside it, and the private functions that are only called
    from it or that it is only called from (Facts.family)."""
    out = []
    p = f.get("parent")
    while p:
        g = facts.by_path.get(p)
        if g is None:
            break
        out.append(g)
        p = g.get("parent")
    out += [c for c in facts.fns.values() if c.get("parent") == f["path"]]
    try:
        out += [g for g in facts.family(f) if g["id"] != f["id"]]
        for g in facts.fns.values():
            if g["crate"] == f["crate"] and g["id"] != f["id"] and "body" in g and g["kind"] in ("Fn", "AssocFn") and \
                    any(x["id"] == f["id"] for x in facts.family(g)):
                out.append(g)
    except Exception:
        pass
    seen, uniq = set(), []
    for g in out:
        if g["id"] not in seen:
            seen.add(g["id"])
            uniq.append(g)
    return uniq


def _moved_reason(facts, f, s, reasons, all_keys):
    """The key of a written reason that covers site s after the code moved between f and one of its relatives: same kind of
    site with the same producer, and the site the reason names no longer exists."""
    tail = s["key"][len(s["fn"]):]                   # |kind|what<-prod#n
    base = tail.rsplit("#", 1)[0]
    cands = []
    for g in _relatives(facts, f):
        for k in reasons:
            if k.startswith(g["path"] + "|") and k[len(g["path"]):].rsplit("#", 1)[0] == base and k not in all_keys:
                cands.append(k)
    # a nested function or closure that was inlined into f (and no longer exists), or the reverse
    for k in reasons:
        kf = k.split("|", 1)[0]
        if (kf.startswith(f["path"] + "::") or f["path"].startswith(kf + "::")) and k[len(kf):].rsplit("#", 1)[0] == base and k not in all_keys:
            cands.append(k)
    cands = sorted(set(cands))
    return cands[0] if len(cands) == 1 else None


def panic_rule(facts, res, rule, roots, reasons, ctx=None, only_crates=None, skip_unsafe=True):
    """Generic R03-1 / R06-1 / R13-1 rule.  Returns (findings, stats)."""
    from common import Finding
    ctx = ctx or {}
    reach, parent = facts.reachable(roots)
    st = res.rule(rule, instances=0, entry_points=len(roots), reachable_functions=len(reach),
                  auto_discharged=0, reasoned=0)
    used_reasons = set()
    # every site key that exists in the tree (reachable or not): a reason is only carried over to a moved site when the site
    # it was written for is gone
    all_keys = set()
    for g in facts.fns.values():
        if g.get("derived") or "mir" not in g:
            continue
        ss = sites_of(facts, g)
        if ss:
            annotate(facts, g, ss)
            all_keys |= {x["key"] for x in ss}
    for fid in sorted(reach, key=lambda i: facts.fns[i]["path"]):
        f = facts.fns[fid]
        if f.get("derived"):
            continue
        if only_crates and f["crate"] not in only_crates:
            continue
        sites = sites_of(facts, f)
        if not sites:
            continue
        defs = annotate(facts, f, sites)
        for s in sites:
            if s["kind"] == "unsafe" and skip_unsafe:
                continue
            st["instances"] += 1
            why = auto_discharge(facts, f, defs, s, ctx)
            if why:
                st["auto_discharged"] += 1
                res.oblige(1, True)
                res.sample({"rule": rule, "site": s["key"], "line": s["line"], "verdict": "discharged", "by": why}, limit=6)
                continue
            if s["key"] in reasons:
                st["reasoned"] += 1
                used_reasons.add(s["key"])
                res.oblige(1, True)
                continue
            moved = _moved_reason(facts, f, s, reasons, all_keys)
            if moved:
                st["reasoned"] += 1
                st["reasons_carried_over"] = st.get("reasons_carried_over", 0) + 1
                used_reasons.add(moved)
                res.oblige(1, True)
                res.sample({"rule": rule, "site": s["key"], "verdict": "reasoned", "carried_over_from": moved}, limit=12)
                continue
            res.oblige(1, False)
            chain = facts.path_to(parent, fid)
            res.add(Finding(rule, s["key"],
                            "%s site `%s` (%s) is reachable: %s" % (s["kind"], s["what"], s.get("snip") or s["callee"],
                                                                  " -> ".join(chain[-5:])),
                            f["file"], s["line"], {"call_chain": chain, "callee": s["callee"]}))
    st["reasons_used"] = len(used_reasons)
    return reach, parent
