"""The mutator set: functions that write document-observable state, and the may-mutate closure."""
import re
from facts import BrokenCheck

# writes that are not observable through the API (one symbol, one reason)
NOT_OBSERVABLE = {
    "xml_info::IdManager::next": "allocates the next item id; ids are never reused or compared across items",
    "xml_info::Context::add_item": "registers a freshly built item in the id map (insert-only, keyed by a fresh id)",
    "xml_info::Context::new": "builds the context of a new document",
    "xml_info::HasContext::order": "refreshes the cached copy of the item's own order key",
    "xml_info::Context::set_text_expanded": "configuration flag set once by from_raw_with_context before the document is returned",
}


CONSTRUCTOR_RX = re.compile(r"^xml_info::(Xml\w+|Context|NamespaceUri)::(node|new|empty|new_from_declaration|next|zero|xml)$"
                            r"|^xml_info::(node|singleton)$"
                            r"|^xml_info::<XmlEntity as std::convert::From<")
CONSTRUCTOR_WHY = ("builds a fresh item (graph): every write goes to objects created in the call, which are dropped and "
                   "unreachable if the call fails; the id counter and the insert-only id map are not observable")


_INTERNAL = set()      # private helpers that are only ever called from constructors (computed per fact set by prepare())


def is_constructor(path):
    return CONSTRUCTOR_RX.search(path) is not None or path in _INTERNAL


def prepare(facts):
    """A private function all of whose callers are constructors (or such helpers) works on the fresh object graph of its
    caller: XmlDocumentTypeDeclaration::build is the body of ::node and of the document constructor."""
    _INTERNAL.clear()
    callers = {}
    for fid, es in facts.edges().items():
        for e in es:
            if e["to"] in facts.fns and e["kind"] in ("call", "cha", "fwd", "mention", "store"):
                callers.setdefault(e["to"], set()).add(fid)
    changed = True
    while changed:
        changed = False
        for fid, f in facts.fns.items():
            if f["crate"] != "xml_info" or f["path"] in _INTERNAL or f.get("vis") == "Public" or CONSTRUCTOR_RX.search(f["path"]):
                continue
            cs = callers.get(fid)
            if not cs:
                continue
            if all(is_constructor(facts.fns[c]["path"]) or facts.fns[c].get("parent") == f["path"] for c in cs):
                _INTERNAL.add(f["path"])
                changed = True
    return sorted(_INTERNAL)


def item_types(facts):
    it = {"Context", "DocumentOrder", "IdManager", "ContextInfo"}
    for p, a in facts.adts.items():
        if a["crate"] == "xml_info" and a["kind"] == "struct" and \
                any(fl["ty"].endswith("Context") or fl["ty"].endswith("Context>") for fl in a["variants"][0]["fields"]):
            it.add(p.split("::")[-1])
    if len(it) < 7:
        raise BrokenCheck("mutator set: only %d item types recognised" % len(it))
    return it


def direct_mutators(facts):
    """fn id -> [why]: RefCell::borrow_mut, or an assignment through `&mut self` of an item type."""
    its = item_types(facts)
    out = {}
    for f in facts.fns.values():
        if f["crate"] not in ("xml_info", "xml_dom") or f.get("derived"):
            continue
        why = []
        for bi, t in facts.mir_calls(f):
            c = t.get("callee")
            if c and facts.callee_name(c) == "std::cell::RefCell::<T>::borrow_mut":
                why.append("borrow_mut@%s" % t.get("ln"))
        m = f.get("mir")
        if m and m["argc"] >= 1 and m["locals"][1]["ty"].startswith("&mut ") and \
                m["locals"][1]["ty"][5:].split("<")[0].split("::")[-1] in its:
            for b in m["blocks"]:
                if b.get("cleanup"):
                    continue
                for st in b["stmts"]:
                    if st["ll"] == 1 and st["l"].startswith("((*_1)."):
                        why.append("field-write@%s" % st.get("ln"))
                    elif st.get("rv") == "Ref" and st.get("mut") and st["ops"] and str(st["ops"][0]).startswith("((*_1)."):
                        why.append("field-mut-borrow@%s" % st.get("ln"))
        if why:
            out[f["id"]] = why
    return out


def may_mutate_closure(facts, exclude=NOT_OBSERVABLE):
    """Set of fn ids from which an observable mutator is reachable (including themselves)."""
    prepare(facts)
    direct = {fid for fid in direct_mutators(facts)
              if facts.fns[fid]["path"] not in exclude and not is_constructor(facts.fns[fid]["path"])}
    # reverse reachability over the call graph
    rev = {}
    for fid, es in facts.edges().items():
        for e in es:
            targets = []
            if e["kind"] == "dyn":
                targets = facts.dyn_targets(e)
            elif e["kind"] == "store":
                continue
            elif e["to"] in facts.fns:
                targets = [e["to"]]
            for t in targets:
                if facts.fns[t]["path"] in exclude or is_constructor(facts.fns[t]["path"]):
                    continue
                rev.setdefault(t, set()).add(fid)
    seen = set(direct)
    work = list(direct)
    while work:
        x = work.pop()
        for p in rev.get(x, ()):
            if p not in seen and facts.fns[p]["path"] not in exclude and not is_constructor(facts.fns[p]["path"]):
                seen.add(p)
                work.append(p)
    return seen, direct
