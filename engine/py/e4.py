"""E4 — CFG path rules on MIR: pairing (push/pop), must-pass-through, effects-before-failure."""
import e1


def callee_short(facts, t):
    c = t.get("callee")
    if not c:
        return None
    return facts.callee_name(c)


def pairing(facts, f, push_pop):
    """push_pop: {counter name: (push callee suffix, pop callee suffix)}.
    Forward analysis over the non-cleanup CFG; state = tuple of pending counts (capped at 3).
    Returns list of violations: dict(exit_bb, state, path=[bb..], last_call)."""
    blocks = facts.blocks(f)
    succ = e1.cfg(facts, f)
    kinds = sorted(push_pop)

    def effect(bi):
        t = blocks[bi]["term"]
        if t["k"] != "Call":
            return None
        n = callee_short(facts, t)
        if not n:
            return None
        for i, k in enumerate(kinds):
            pu, po = push_pop[k]
            if n.endswith(pu):
                return (i, +1)
            if n.endswith(po):
                return (i, -1)
        return None

    start = tuple(0 for _ in kinds)
    seen = {(0, start): None}
    work = [(0, start)]
    viol = []
    n_push = 0
    for bi in succ:
        e = effect(bi)
        if e and e[1] > 0:
            n_push += 1
    while work:
        bi, st = work.pop()
        t = blocks[bi]["term"]
        e = effect(bi)
        st2 = st
        if e:
            lst = list(st)
            lst[e[0]] = max(0, min(3, lst[e[0]] + e[1]))
            st2 = tuple(lst)
        if t["k"] == "Return":
            if any(st2):
                # reconstruct path
                path = []
                cur = (bi, st)
                while cur is not None:
                    path.append(cur[0])
                    cur = seen[cur]
                path.reverse()
                last_call = None
                for b in reversed(path[:-1]):
                    tt = blocks[b]["term"]
                    if tt["k"] == "Call" and tt.get("callee"):
                        n = callee_short(facts, tt)
                        if n and not n.startswith(("<std::", "std::", "core::", "<core::")):
                            last_call = n
                            break
                viol.append({"exit_bb": bi, "state": dict(zip(kinds, st2)), "path": path, "last_call": last_call})
            continue
        for s in succ.get(bi, []):
            key = (s, st2)
            if key not in seen:
                seen[key] = (bi, st)
                work.append(key)
    return n_push, viol
