"""E4 — CFG path rules on MIR: pairing (push/pop), must-pass-through, effects-before-failure."""
import e1


def callee_short(facts, t):
    c = t.get("callee")
    if not c:
        return None
    return facts.callee_name(c)


def pairing(facts, f, push_pop):
    """push_pop: {counter name: (push callee suffix, pop callee suffix)}.
    Forward analysis over the non-cleanup CFG; state = tuple of pending counts (capped at 3).
    Returns list of violations: dict(exit_bb, state, path=[bb..], last_call)."""
    blocks = facts.blocks(f)
    succ = e1.cfg(facts, f)
    kinds = sorted(push_pop)

    def effect(bi):
        t = blocks[bi]["term"]
        if t["k"] != "Call":
            return None
        n = callee_short(facts, t)
        if not n:
            return None
        for i, k in enumerate(kinds):
            pu, po = push_pop[k]
            if n.endswith(pu):
                return (i, +1)
            if n.endswith(po):
                return (i, -1)
        return None

    start = tuple(0 for _ in kinds)
    seen = {(0, start): None}
    work = [(0, start)]
    viol = []
    n_push = 0
    for bi in succ:
        e = effect(bi)
        if e and e[1] > 0:
            n_push += 1
    while work:
        bi, st = work.pop()
        t = blocks[bi]["term"]
        e = effect(bi)
        st2 = st
        if e:
            lst = list(st)
            lst[e[0]] = max(0, min(3, lst[e[0]] + e[1]))
            st2 = tuple(lst)
        if t["k"] == "Return":
            if any(st2):
                # reconstruct path
                path = []
                cur = (bi, st)
                while cur is not None:
                    path.append(cur[0])
                    cur = seen[cur]
                path.reverse()
                last_call = None
                for b in reversed(path[:-1]):
                    tt = blocks[b]["term"]
                    if tt["k"] == "Call" and tt.get("callee"):
                        n = callee_short(facts, tt)
                        if n and not n.startswith(("<std::", "std::", "core::", "<core::")):
                            last_call = n
                            break
                viol.append({"exit_bb": bi, "state": dict(zip(kinds, st2)), "path": path, "last_call": last_call})
            continue
        for s in succ.get(bi, []):
            key = (s, st2)
            if key not in seen:
                seen[key] = (bi, st)
                work.append(key)
    return n_push, viol


# ------------------------------------------------------------------------------------------
# effects before failure (R13-2)

def returns_result(facts, t):
    c = t.get("callee")
    if not c:
        return False
    fid = facts.callee_id(c)
    f = facts.fns.get(fid)
    if f is None:
        impls = facts.impls_of.get(c.get("id"), [])
        if impls:
            f = facts.fns[impls[0]]
    if f is not None:
        sig = f.get("sig", "")
        return "-> std::result::Result<" in sig
    return False


def reach_from(succ, start):
    seen, work = set(), list(succ.get(start, []))
    while work:
        x = work.pop()
        if x in seen:
            continue
        seen.add(x)
        work.extend(succ.get(x, []))
    return seen


def derives_from_call(facts, f, defs, op, call_bb, depth=0, seen=None):
    """Does operand `op` derive (through moves, field projections, Try::branch) from the result of the call
    terminating block call_bb?"""
    seen = seen if seen is not None else set()
    l = e1.local_of(op)
    if l is None or depth > 10 or l in seen:
        return False
    seen.add(l)
    for kind, bb, x in defs.get(l, []):
        if kind == "call":
            if bb == call_bb:
                return True
            n = facts.callee_name(x["callee"]) if x.get("callee") else ""
            if n.endswith("::branch") or n.endswith("::map_err") or n.endswith("::from") or n.endswith("::into") \
                    or n.endswith("::ok_or") or n.endswith("::ok_or_else") or n.endswith("::map"):
                for a in x.get("args", []):
                    if derives_from_call(facts, f, defs, a, call_bb, depth + 1, seen):
                        return True
        else:
            for o in x.get("ops", []):
                if derives_from_call(facts, f, defs, o, call_bb, depth + 1, seen):
                    return True
    return False


def effects_before_failure(facts, f, may_mutate, fallible):
    """Pairs (mutating call, later error source) on one CFG path of f.

    may_mutate(term) -> name or None;  fallible(term) -> bool for calls returning Result into _0.
    Error sources: `_0 = Err(..)`, `_0 = from_residual(..)`, `_0 = <fallible call>` (tail call)."""
    blocks = facts.blocks(f)
    succ = e1.cfg(facts, f)
    defs = e1.def_sites(facts, f)
    muts = []
    for bi in succ:
        t = blocks[bi]["term"]
        if t["k"] == "Call":
            n = may_mutate(t)
            if n:
                muts.append((bi, n, t))
    if not muts:
        return 0, []
    errs = []
    for bi in succ:
        b = blocks[bi]
        for st in b["stmts"]:
            if st["ll"] == 0 and st.get("rv") == "Aggregate" and st.get("variant") == "Err":
                errs.append((bi, "Err(..)", st.get("ln"), None))
        t = b["term"]
        if t["k"] == "Call" and t.get("destl") == 0 and t.get("callee"):
            n = facts.callee_name(t["callee"])
            if n.endswith("::from_residual"):
                errs.append((bi, "?", t.get("ln"), t))
            elif fallible(t):
                errs.append((bi, "tail:" + n, t.get("ln"), t))
    out = []
    for mb, mname, mt in muts:
        after = reach_from(succ, mb)
        for eb, what, ln, et in errs:
            if eb not in after and eb != mb:
                continue
            if eb == mb:
                continue   # the mutating call itself is the tail call
            if et is not None and what == "?":
                # `?` applied to the result of the mutating call itself: failure *of* the call
                if derives_from_call(facts, f, defs, et["args"][0], mb):
                    continue
            # which call failed? for `?`: the producer of the residual
            failing = what
            if et is not None and what == "?":
                pc = None
                for cand_bb in sorted(succ):
                    tt = blocks[cand_bb]["term"]
                    if tt["k"] == "Call" and tt.get("callee") and cand_bb != mb and \
                            derives_from_call(facts, f, defs, et["args"][0], cand_bb):
                        n2 = facts.callee_name(tt["callee"])
                        if not (n2.endswith("::branch") or n2.endswith("::from_residual")):
                            pc = n2
                if pc:
                    failing = "?" + pc
            out.append({"mut_bb": mb, "mut": mname, "mut_line": mt.get("ln"), "err_bb": eb, "err": failing, "err_line": ln})
    return len(muts), out
