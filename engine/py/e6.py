"""E6 helpers — who-may-construct / who-may-write / who-may-call queries over MIR and the typed tree."""
import re
from facts import walk, BrokenCheck


def ctor_sites(facts, adt, variant=None, include_derived=False):
    """Functions (records) whose MIR builds a value of `adt` (path suffix match) / `variant`."""
    out = []
    for f in facts.fns.values():
        if f.get("derived") and not include_derived:
            continue
        for bi, b in enumerate(facts.blocks(f)):
            if b.get("cleanup"):
                continue
            for st in b["stmts"]:
                if st.get("rv") == "Aggregate" and "adt" in st:
                    if (st["adt"] == adt or st["adt"].endswith("::" + adt)) and (variant is None or st["variant"] == variant):
                        out.append((f, bi, st))
    return out


def callers_of(facts, target_pred):
    """(caller fn, edge) for every call-graph edge whose target name satisfies target_pred."""
    out = []
    for fid, es in facts.edges().items():
        for e in es:
            if e["kind"] in ("call", "cha", "mention", "fwd") and target_pred(e["name"]):
                out.append((facts.fns[fid], e))
    return out


def field_writes(facts, struct_suffix, field):
    """Functions whose MIR assigns to `.<field>` of a place whose type mentions struct_suffix.

    MIR places print as `((*_1).3: Type)`; field *names* are not printed, so the index of the
    field in the struct definition is used."""
    adt = None
    for p, a in facts.adts.items():
        if p == struct_suffix or p.endswith("::" + struct_suffix):
            adt = a
    if adt is None:
        raise BrokenCheck("missing anchor: struct %s" % struct_suffix)
    names = [x["name"] for x in adt["variants"][0]["fields"]]
    if field not in names:
        raise BrokenCheck("missing anchor: field %s.%s" % (struct_suffix, field))
    idx = names.index(field)
    fty = adt["variants"][0]["fields"][idx]["ty"]
    out = []
    pat = re.compile(r"\.%d: " % idx)
    for f in facts.fns.values():
        if f.get("derived"):
            continue
        m = f.get("mir")
        if not m:
            continue
        for bi, b in enumerate(m["blocks"]):
            if b.get("cleanup"):
                continue
            for st in b["stmts"]:
                l = st["l"]
                if pat.search(l) and l.rstrip(")").endswith(_short(fty)) and _base_is(m, st["ll"], struct_suffix):
                    out.append((f, bi, st))
    return out


def _short(t):
    return t


def _base_is(mir, local, struct_suffix):
    ty = mir["locals"][local]["ty"]
    return struct_suffix.split("::")[-1] in ty
