"""E2 — grammar engine: nom combinator terms from the typed tree, regular-language comparison
with the Recommendations, ordered-choice rules, blow-up rule."""
import re

import automata as A
import e3
from charset import CS, UNIVERSE
from facts import BrokenCheck, walk


class Unknown(Exception):
    """A combinator or construct the term extractor does not understand (-> exit 3, never a pass)."""


INPUT = ("input",)

NOM_CLASS = {
    "nom::character::complete::multispace0": ("star", ("cls", CS.of(0x20, 0x09, 0x0D, 0x0A))),
    "nom::character::complete::multispace1": ("plus", ("cls", CS.of(0x20, 0x09, 0x0D, 0x0A))),
    "nom::character::complete::space0": ("star", ("cls", CS.of(0x20, 0x09))),
    "nom::character::complete::space1": ("plus", ("cls", CS.of(0x20, 0x09))),
    "nom::character::complete::digit0": ("star", ("cls", CS.of((0x30, 0x39)))),
    "nom::character::complete::digit1": ("plus", ("cls", CS.of((0x30, 0x39)))),
    "nom::character::complete::hex_digit0": ("star", ("cls", CS.of((0x30, 0x39), (0x41, 0x46), (0x61, 0x66)))),
    "nom::character::complete::hex_digit1": ("plus", ("cls", CS.of((0x30, 0x39), (0x41, 0x46), (0x61, 0x66)))),
    "nom::character::complete::alpha0": ("star", ("cls", CS.of((0x41, 0x5A), (0x61, 0x7A)))),
    "nom::character::complete::alpha1": ("plus", ("cls", CS.of((0x41, 0x5A), (0x61, 0x7A)))),
    "nom::character::complete::alphanumeric0": ("star", ("cls", CS.of((0x30, 0x39), (0x41, 0x5A), (0x61, 0x7A)))),
    "nom::character::complete::alphanumeric1": ("plus", ("cls", CS.of((0x30, 0x39), (0x41, 0x5A), (0x61, 0x7A)))),
}

SEQ_COMB = {
    "nom::sequence::tuple", "nom::sequence::pair", "nom::sequence::delimited", "nom::sequence::preceded",
    "nom::sequence::terminated", "nom::sequence::separated_pair",
}
TRANSPARENT = {"nom::combinator::map", "nom::combinator::recognize", "nom::combinator::value",
               "nom::combinator::cut", "nom::combinator::complete", "nom::combinator::all_consuming",
               "nom::combinator::into", "nom::combinator::map_opt", "nom::combinator::map_res",
               # verify(p, f) restricts p by a predicate on the *parsed value* (a context-sensitive constraint such as
               # "end tag = start tag"); the regular reading keeps L(p), as the grammar of the Recommendation does
               "nom::combinator::verify"}

TAKE_UNTIL = "xml_nom::helper::take_until"
TAKE_EXCEPT = "xml_nom::helper::take_except"


class Extractor:
    def __init__(self, facts):
        self.facts = facts
        self.alts = []          # metadata of every alt encountered: dict(fn, ord, arms=[terms])
        self.maps = []          # (fn path, parser term, mapped fn callee record)
        self.values = []        # value(CONST, parser): (fn path, parser term, the constant expression)
        self.loops = []         # metadata of many0/many1: dict(fn, ord, body)
        self._alt_ord = {}
        self._loop_ord = {}
        self._memo = {}
        self.cur_fn = None
        self.notes = []

    # ------------------------------------------------------------------ public

    def fn_term(self, fn):
        """Term of a parser function `fn(input) -> IResult`, callees referenced as ("nt", id)."""
        if fn["id"] in self._memo:
            return self._memo[fn["id"]]
        prev = self.cur_fn
        self.cur_fn = fn["path"]
        try:
            params = fn.get("params") or []
            if not params or params[0].get("p") != "Bind":
                raise Unknown("%s: first parameter is not a simple binding" % fn["path"])
            env = {params[0]["lid"]: INPUT}
            t = self.body_term(fn["body"], env)
        finally:
            self.cur_fn = prev
        self._memo[fn["id"]] = t
        return t

    # ------------------------------------------------------------------ bodies applied to INPUT

    def body_term(self, e, env):
        """`e` is an expression of type IResult computed from INPUT."""
        k = e.get("k")
        if k == "Block":
            env = dict(env)
            steps = []          # explicit sequencing: `let (rest, x) = p(input)?; let (rest, y) = q(rest)?; .. Ok((rest, ..))`
            for s in e.get("stmts", []):
                if s.get("s") == "Let" and s["pat"].get("p") == "Bind" and "init" in s and not steps:
                    env[s["pat"]["lid"]] = self.value(s["init"], env)
                    continue
                step = self._sequencing_step(s, env)
                if step is not None:
                    term, rest_lid = step
                    steps.append(term)
                    for lid, v in list(env.items()):
                        if v is INPUT:
                            env[lid] = ("consumed",)      # the old input is no longer the position of the parser
                    env[rest_lid] = INPUT
                    continue
                if steps and self._is_pure_or_error_exit(s):
                    continue
                raise Unknown("%s: statement in parser body" % self.cur_fn)
            if "expr" not in e:
                raise Unknown("%s: parser body without tail expression" % self.cur_fn)
            if steps:
                if not self._tail_returns_rest(e["expr"], env):
                    raise Unknown("%s: the tail of a sequenced parser body does not return the current rest" % self.cur_fn)
                return ("seq", steps) if len(steps) > 1 else steps[0]
            return self.body_term(e["expr"], env)
        if k == "Call":
            args = e["args"]
            f = e["f"]
            if len(args) == 1 and self.value(args[0], env) is INPUT:
                return self.parser(f, env)
            # direct call of a helper with INPUT as first argument and extra arguments
            if f.get("k") == "Path" and "id" in f and args and self.value(args[0], env) is INPUT:
                callee = self.facts.fns.get(f.get("rid") or f["id"])
                if callee is None:
                    raise Unknown("%s: call of external %s with extra arguments" % (self.cur_fn, f.get("path")))
                vals = [self.value(a, env) for a in args]
                return self.apply_fn(callee, vals)
            raise Unknown("%s: call shape not understood (%s)" % (self.cur_fn, f.get("path") or f.get("k")))
        if k == "MethodCall":
            m = e["m"]
            recv = self.value(e["recv"], env)
            path = e.get("path", "")
            if recv is INPUT and path.startswith("nom::InputTakeAtPosition::split_at_position"):
                clo = e["args"][0]
                if clo.get("k") != "Closure":
                    raise Unknown("%s: split_at_position predicate is not a closure" % self.cur_fn)
                stop = self.closure_set(clo, env)
                cls = ("cls", ~stop)
                if m == "split_at_position_complete":
                    return ("star", cls)
                if m == "split_at_position1_complete":
                    return ("plus", cls)
                raise Unknown("%s: streaming variant %s" % (self.cur_fn, m))
            if path == "nom::Parser::parse" and len(e["args"]) == 1 and self.value(e["args"][0], env) is INPUT:
                return self.parser(e["recv"], env)
            raise Unknown("%s: method %s in parser body" % (self.cur_fn, m))
        raise Unknown("%s: expression kind %s in parser body" % (self.cur_fn, k))

    def _sequencing_step(self, s, env):
        """`let (rest, value) = <parser applied to the current input>?;` -> (term, lid of the new rest)"""
        if s.get("s") != "Let" or "init" not in s or s["pat"].get("p") != "Tuple" or len(s["pat"].get("pats", [])) != 2:
            return None
        r = s["pat"]["pats"][0]
        init = s["init"]
        if init.get("k") != "Match" or init.get("src") != "Try" or r.get("p") not in ("Bind",):
            return None
        sc = init["scrut"]
        inner = sc["args"][0] if sc.get("k") == "Call" and sc.get("args") else None
        if inner is None:
            return None
        return self.body_term(inner, env), r["lid"]

    def _is_pure_or_error_exit(self, s):
        """between two steps: a `let` that calls no parser, or `if cond { return Err(..) }` (a constraint on the values parsed so
        far: like `verify`, read as not changing the language)"""
        x = s.get("init") if s.get("s") == "Let" else s.get("e")
        if not isinstance(x, dict):
            return s.get("s") == "Let"
        for n in walk(x):
            if n.get("k") == "Call" and n["f"].get("k") == "Path":
                fid = n["f"].get("rid") or n["f"].get("id")
                g = self.facts.fns.get(fid)
                if g is not None and "nom::Err<" in str(g.get("sig", "")):
                    return False
            if n.get("k") == "Ret":
                v = n.get("v") or {}
                if not (v.get("k") == "Call" and str(v["f"].get("path", "")).endswith("::Err")):
                    return False
        return True

    def _tail_returns_rest(self, e, env):
        while e.get("k") == "Block" and "expr" in e and all(self._is_pure_or_error_exit(s) for s in e.get("stmts", [])):
            e = e["expr"]
        if e.get("k") == "Call" and str(e["f"].get("path", "")).endswith("::Ok") and e["args"]:
            a = e["args"][0]
            return a.get("k") == "Tup" and a.get("es") and self.value(a["es"][0], env) is INPUT
        if e.get("k") == "Call" and str(e["f"].get("path", "")).endswith("::Err"):
            return True
        if e.get("k") == "If" and "else" in e:
            return self._tail_returns_rest(e["then"], env) and self._tail_returns_rest(e["else"], env)
        if e.get("k") == "Match" and e.get("src") == "Normal":
            return all(self._tail_returns_rest(a["body"], env) for a in e["arms"])
        return False

    def closure_set(self, clo, env):
        cenv = {}
        for lid, v in env.items():
            if isinstance(v, tuple) and v and v[0] == "str":
                cenv[lid] = ("str", CS.of(v[1]))
        try:
            return e3.closure_set(self.facts, clo, cenv)
        except e3.Uninterpretable as u:
            raise Unknown("%s: character predicate not interpretable: %s" % (self.cur_fn, u))

    # ------------------------------------------------------------------ values

    def value(self, e, env):
        k = e.get("k")
        if k == "Path" and e.get("res") == "Local":
            if e["lid"] in env:
                return env[e["lid"]]
            raise Unknown("%s: unbound local %s" % (self.cur_fn, e.get("name")))
        if k == "Lit":
            if e["t"] == "str":
                return ("str", e["v"])
            if e["t"] == "char":
                return ("str", chr(e["v"]))
            return ("lit", e["v"])
        if k == "AddrOf":
            return self.value(e["a"], env)
        if k == "MethodCall" and e["m"] in ("clone", "as_str") and not e["args"]:
            return self.value(e["recv"], env)
        if k == "Path":
            c = getattr(self.facts, "consts", {}).get(e.get("rid") or e.get("id")) or \
                getattr(self.facts, "consts_by_path", {}).get(str(e.get("path")))
            if c is not None and str(e.get("res", "")).startswith(("Const", "Static")):
                return self.value(c["body"], {})     # a named constant: its initialiser
        if k in ("Call", "Closure", "Path"):
            return ("term", self.parser(e, env))
        if k == "Path":
            return ("path", e.get("path"))
        raise Unknown("%s: value expression %s" % (self.cur_fn, k))

    # ------------------------------------------------------------------ parser-valued expressions

    def parser(self, e, env):
        k = e.get("k")
        if k == "Path":
            if e.get("res") == "Local":
                v = env.get(e["lid"])
                if isinstance(v, tuple) and v and v[0] == "term":
                    return v[1]
                raise Unknown("%s: local %s is not a parser" % (self.cur_fn, e.get("name")))
            path = e.get("path", "")
            if path in NOM_CLASS:
                return NOM_CLASS[path]
            fid = e.get("rid") or e.get("id")
            if fid in self.facts.fns:
                return ("nt", fid)
            raise Unknown("%s: external parser function %s" % (self.cur_fn, path))
        if k == "Closure":
            params = e["params"]
            if len(params) != 1 or params[0].get("p") != "Bind":
                raise Unknown("%s: parser closure parameters" % self.cur_fn)
            cenv = dict(env)
            cenv[params[0]["lid"]] = INPUT
            return self.body_term(e["body"], cenv)
        if k == "MethodCall" and e["m"] in ("clone",) and not e["args"]:
            return self.parser(e["recv"], env)
        if k == "AddrOf":
            return self.parser(e["a"], env)
        if k != "Call":
            raise Unknown("%s: parser expression kind %s" % (self.cur_fn, k))
        f = e["f"]
        if f.get("k") != "Path" or "path" not in f:
            raise Unknown("%s: combinator is not a path" % self.cur_fn)
        path = f["path"]
        args = e["args"]
        if path == "nom::bytes::complete::tag" or path == "nom::character::complete::char":
            v = self.value(args[0], env)
            if isinstance(v, tuple) and v[0] == "str":
                return ("lit", v[1])
            raise Unknown("%s: tag/char argument is not a literal" % self.cur_fn)
        if path == "nom::bytes::complete::tag_no_case":
            v = self.value(args[0], env)
            return ("ci", v[1])
        if path == "nom::branch::alt":
            arms = self.tuple_items(args[0], env)
            n = self._alt_ord.get(self.cur_fn, 0) + 1
            self._alt_ord[self.cur_fn] = n
            self.alts.append({"fn": self.cur_fn, "ord": n, "arms": arms, "line": e.get("ln")})
            return ("alt", arms)
        if path in SEQ_COMB:
            if path == "nom::sequence::tuple":
                return ("seq", self.tuple_items(args[0], env))
            return ("seq", [self.parser(a, env) for a in args])
        if path == "nom::combinator::verify" and len(args) == 2:
            p0 = self.parser(args[0], env)
            excl = self.verify_excluded_literals(args[1])
            if excl:
                return ("minus", p0, ("alt", [("lit", x) for x in sorted(excl)]))
            self.notes.append("%s: predicate of verify(..) is a constraint on the parsed value; the regular reading keeps the "
                              "language of the inner parser" % self.cur_fn)
            return p0
        if path in TRANSPARENT:
            # value(v, p): parser is the 2nd argument; others: the 1st
            p = self.parser(args[1] if path.endswith("::value") else args[0], env)
            if path.endswith("::map") and len(args) == 2:
                self.maps.append({"fn": self.cur_fn, "term": p, "f": args[1], "line": e.get("ln")})
            if path.endswith("::value") and len(args) == 2:
                self.values.append({"fn": self.cur_fn, "term": p, "v": args[0], "line": e.get("ln")})
            return p
        if path == "nom::combinator::opt":
            return ("opt", self.parser(args[0], env))
        if path in ("nom::multi::many0", "nom::multi::many1", "nom::multi::many0_count", "nom::multi::many1_count"):
            body = self.parser(args[0], env)
            n = self._loop_ord.get(self.cur_fn, 0) + 1
            self._loop_ord[self.cur_fn] = n
            self.loops.append({"fn": self.cur_fn, "ord": n, "body": body, "line": e.get("ln")})
            return ("star" if "many0" in path else "plus", body)
        if path in ("nom::multi::separated_list0", "nom::multi::separated_list1"):
            sep = self.parser(args[0], env)
            item = self.parser(args[1], env)
            n = self._loop_ord.get(self.cur_fn, 0) + 1
            self._loop_ord[self.cur_fn] = n
            self.loops.append({"fn": self.cur_fn, "ord": n, "body": ("seq", [sep, item]), "line": e.get("ln")})
            t = ("seq", [item, ("star", ("seq", [sep, item]))])
            return t if path.endswith("1") else ("opt", t)
        if path in ("nom::bytes::complete::take_till", "nom::bytes::complete::take_till1",
                    "nom::bytes::complete::take_while", "nom::bytes::complete::take_while1"):
            if args[0].get("k") != "Closure":
                raise Unknown("%s: %s predicate is not a closure" % (self.cur_fn, path))
            s = self.closure_set(args[0], env)
            cls = ("cls", ~s if "take_till" in path else s)
            return ("plus" if path.endswith("1") else "star", cls)
        if path == TAKE_UNTIL:
            inner = self.parser(args[0], env)
            lit = self.value(args[1], env)
            if not (isinstance(lit, tuple) and lit[0] == "str"):
                raise Unknown("%s: take_until delimiter is not a literal" % self.cur_fn)
            return ("until", inner, lit[1])
        if path == TAKE_EXCEPT:
            inner = self.parser(args[0], env)
            lit = self.value(args[1], env)
            if not (isinstance(lit, tuple) and lit[0] == "str"):
                raise Unknown("%s: take_except argument is not a literal" % self.cur_fn)
            return ("minus", inner, (take_except_model(self.facts), lit[1]))
        if path in ("nom::character::complete::one_of", "nom::character::complete::none_of"):
            lit = self.value(args[0], env)
            if not (isinstance(lit, tuple) and lit[0] == "str"):
                raise Unknown("%s: %s argument is not a literal" % (self.cur_fn, path))
            cs = CS.of(*[ord(c) for c in lit[1]]) if isinstance(lit[1], str) else lit[1]
            return ("cls", cs if path.endswith("one_of") else ~cs)
        if path == "nom::character::complete::anychar":
            return ("cls", UNIVERSE)
        if path == "nom::character::complete::satisfy":
            a = args[0]
            if a.get("k") == "Closure":
                return ("cls", self.closure_set(a, env))
            if a.get("k") == "Path" and str(a.get("path", "")).startswith(e3.CHAR_IMPL):
                nm = str(a["path"]).split("::")[-1]
                cs = e3.ASCII_METHODS.get(nm) or e3.unicode_method(nm)
                if cs is not None:
                    return ("cls", cs)
            if a.get("k") == "Path" and (a.get("rid") or a.get("id")) in self.facts.fns:
                try:
                    return ("cls", e3.pred_set(self.facts, self.facts.fns[a.get("rid") or a["id"]]))
                except e3.Uninterpretable as u:
                    raise Unknown("%s: satisfy predicate not interpretable: %s" % (self.cur_fn, u))
            raise Unknown("%s: satisfy argument" % self.cur_fn)
        # workspace parser factory: fn(args...) -> impl Fn(input)
        fid = f.get("rid") or f.get("id")
        callee = self.facts.fns.get(fid)
        if callee is not None:
            vals = [self.value(a, env) for a in args]
            return self.apply_factory(callee, vals)
        raise Unknown("%s: unknown combinator %s" % (self.cur_fn, path))

    def verify_excluded_literals(self, clo):
        """`|v| !matches!(v, QName::Unprefixed("a" | "b"))` -> {"a", "b"}: the predicate excludes exactly these complete
        matches (an unprefixed QName is the whole matched text).  Anything else -> None."""
        if clo.get("k") != "Closure" or len(clo["params"]) != 1 or clo["params"][0].get("p") != "Bind":
            return None
        lid = clo["params"][0]["lid"]
        body = clo["body"]
        while body.get("k") == "Block" and not body.get("stmts") and "expr" in body:
            body = body["expr"]
        if body.get("k") != "Unary" or body.get("op") != "!":
            return None
        m = body["a"]
        if m.get("k") != "Match" or len(m["arms"]) != 2:
            return None
        sc = m["scrut"]
        while sc.get("k") in ("Unary", "AddrOf"):
            sc = sc["a"]
        if not (sc.get("k") == "Path" and sc.get("res") == "Local" and sc["lid"] == lid):
            return None
        first, second = m["arms"]
        if not (first["body"].get("k") == "Lit" and first["body"].get("v") is True and
                second["pat"].get("p") == "Wild" and second["body"].get("v") is False):
            return None
        pat = first["pat"]
        while pat.get("p") in ("Ref", "Deref"):
            pat = pat["sub"]
        if pat.get("p") != "TupleStruct" or not str(pat.get("path", "")).endswith("QName::Unprefixed") or len(pat["pats"]) != 1:
            return None
        inner = pat["pats"][0]
        lits = []
        for q in ([inner] if inner.get("p") != "Or" else inner["pats"]):
            if q.get("p") == "Expr" and q["e"].get("k") == "Lit" and q["e"].get("t") == "str":
                lits.append(q["e"]["v"])
            else:
                return None
        return set(lits)

    def tuple_items(self, e, env):
        if e.get("k") != "Tup":
            raise Unknown("%s: alt/tuple argument is not a tuple literal" % self.cur_fn)
        return [self.parser(x, env) for x in e["es"]]

    def apply_fn(self, callee, vals):
        params = callee.get("params") or []
        if len(params) != len(vals):
            raise Unknown("%s: arity mismatch calling %s" % (self.cur_fn, callee["path"]))
        env = {}
        for p, v in zip(params, vals):
            if p.get("p") != "Bind":
                raise Unknown("%s: parameter pattern of %s" % (self.cur_fn, callee["path"]))
            env[p["lid"]] = v
        prev = self.cur_fn
        self.cur_fn = callee["path"]
        try:
            return self.body_term(callee["body"], env)
        finally:
            self.cur_fn = prev

    def apply_factory(self, callee, vals):
        """callee(vals...) returns a parser (closure or combinator application)."""
        params = callee.get("params") or []
        if len(params) != len(vals):
            raise Unknown("%s: arity mismatch calling factory %s" % (self.cur_fn, callee["path"]))
        env = {}
        for p, v in zip(params, vals):
            if p.get("p") != "Bind":
                raise Unknown("%s: parameter pattern of %s" % (self.cur_fn, callee["path"]))
            env[p["lid"]] = v
        body = callee["body"]
        prev = self.cur_fn
        self.cur_fn = callee["path"]
        try:
            while body.get("k") == "Block" and not body.get("stmts") and "expr" in body:
                body = body["expr"]
            return self.parser(body, env)
        finally:
            self.cur_fn = prev


# ------------------------------------------------------------------------------------------
# helper fingerprints: the hand-written models of take_until / take_except are only valid for the
# implementation they were written for (resolved callees of the helpers).

TAKE_UNTIL_CALLEES = {"nom::Parser::parse", "nom::FindSubstring::find_substring", "nom::Slice::slice"}
TAKE_EXCEPT_CALLEES = {
    # compare_no_case alone: `Ok` also for every proper prefix of the excluded word
    frozenset({"nom::Parser::parse", "nom::Compare::compare_no_case", "nom::error::ParseError::from_error_kind"}): "ciprefixes",
    # compare_no_case guarded by equal input_len: exactly the case variants of the excluded word
    frozenset({"nom::Parser::parse", "nom::Compare::compare_no_case", "nom::error::ParseError::from_error_kind",
               "nom::InputLength::input_len"}): "ci",
}


def _nom_callees(facts, path):
    f = facts.fn(path)
    have = set()
    for _, t in facts.mir_calls(f):
        c = t.get("callee")
        if c and c["path"].startswith("nom::"):
            have.add(c["path"])
    return f, have


def take_except_model(facts):
    """Which of the two known implementations of helper::take_except is in the tree."""
    f, have = _nom_callees(facts, "xml_nom::helper::take_except::{closure#0}")
    model = TAKE_EXCEPT_CALLEES.get(frozenset(have))
    if model is None:
        raise BrokenCheck("helper take_except changed its nom callees (%s): the hand-written language model in E2 is "
                          "no longer valid" % sorted(have))
    if model == "ci":
        # the guard must be `len(except) == len(value)`: an Eq between two input_len results
        import e1
        defs = e1.def_sites(facts, f)
        ok = False
        for b in facts.blocks(f):
            for st in b["stmts"]:
                if st.get("rv") == "BinaryOp" and st.get("op") == "Eq":
                    pa = e1.producer(facts, f, defs, st["ops"][0])
                    pb = e1.producer(facts, f, defs, st["ops"][1])
                    if pa == "input_len" and pb == "input_len":
                        ok = True
        if not ok:
            raise BrokenCheck("helper take_except calls input_len but does not compare the two lengths for equality")
    return model


def check_helper_fingerprints(facts):
    f, have = _nom_callees(facts, "xml_nom::helper::take_until::{closure#0}")
    if have != TAKE_UNTIL_CALLEES:
        raise BrokenCheck("helper take_until changed its nom callees (%s, modelled for %s): the hand-written language "
                          "model in E2 is no longer valid" % (sorted(have), sorted(TAKE_UNTIL_CALLEES)))
    take_except_model(facts)
    return True


# ------------------------------------------------------------------------------------------
# expansion of code terms into closed terms

def expand(ex, term, atoms, stack=(), subst=None):
    """Inline ("nt", fid) references recursively; fids in `atoms` (dict fid -> atom name) stay atoms.
    fids in `subst` are replaced by the given closed term ("what if that callee were correct").
    ("until", p, lit) becomes ("and", p, ("notcontaining", lit))."""
    k = term[0]
    if k == "nt":
        fid = term[1]
        if subst is not None and fid in subst and fid not in atoms:
            return subst[fid]
        if fid in atoms:
            return ("nt", atoms[fid])
        if fid in stack:
            raise Unknown("recursive production %s is not declared as an atom" % ex.facts.fns[fid]["path"])
        return expand(ex, ex.fn_term(ex.facts.fns[fid]), atoms, stack + (fid,), subst)
    if k in ("seq", "alt"):
        return (k, [expand(ex, t, atoms, stack, subst) for t in term[1]])
    if k in ("opt", "star", "plus"):
        return (k, expand(ex, term[1], atoms, stack, subst))
    if k == "until":
        return ("and", expand(ex, term[1], atoms, stack, subst), ("notcontaining", term[2]))
    if k in ("minus", "and"):
        return (k, expand(ex, term[1], atoms, stack, subst), expand(ex, term[2], atoms, stack, subst))
    return term


def expand_spec(spec, term, atoms, stack=()):
    k = term[0]
    if k == "nt":
        name = term[1]
        if name in atoms:
            return ("nt", name)
        if name in stack:
            raise BrokenCheck("spec production %s is recursive but not an atom" % name)
        if name not in spec:
            raise BrokenCheck("spec production %s missing" % name)
        return expand_spec(spec, spec[name], atoms, stack + (name,))
    if k in ("seq", "alt"):
        return (k, [expand_spec(spec, t, atoms, stack) for t in term[1]])
    if k in ("opt", "star", "plus"):
        return (k, expand_spec(spec, term[1], atoms, stack))
    if k in ("minus", "and"):
        return (k, expand_spec(spec, term[1], atoms, stack), expand_spec(spec, term[2], atoms, stack))
    return term


def term_literals(term, out=None):
    """All complete literal strings a term can match if it is a finite union of literals, else None."""
    k = term[0]
    if k == "lit":
        return {term[1]}
    if k == "alt":
        s = set()
        for t in term[1]:
            x = term_literals(t)
            if x is None:
                return None
            s |= x
        return s
    if k == "seq" and len(term[1]) == 1:
        return term_literals(term[1][0])
    return None


class Comparison:
    """Compares (code term, spec term) pairs, each over its own (production-local) alphabet, so that the
    difference signature of one production does not depend on literals used elsewhere."""

    def __init__(self, pairs):
        self.pairs = pairs

    def run(self):
        import hashlib
        out = []
        for name, c, s in self.pairs:
            sets, atoms = set(), set()
            A.collect_sets(c, sets, atoms)
            A.collect_sets(s, sets, atoms)
            sets.add(UNIVERSE)
            al = A.Alphabet(sets, atoms)
            b = A.Builder(al)
            dc, ds = b.dfa_of(c), b.dfa_of(s)
            only_c, only_s = dc.minus(ds), ds.minus(dc)
            extra, missing = only_c.shortest(), only_s.shortest()
            sig = None
            if extra is not None or missing is not None:
                words = ["+" + al.render(w) for w in A.enumerate_words(only_c)] + \
                        ["-" + al.render(w) for w in A.enumerate_words(only_s)]
                sig = hashlib.sha1("\n".join(words).encode()).hexdigest()[:10]
            out.append({"name": name, "code_states": dc.n, "spec_states": ds.n, "cells": len(al.cells),
                        "code_only": None if extra is None else al.render(extra),
                        "spec_only": None if missing is None else al.render(missing),
                        "signature": sig})
        return out


# ------------------------------------------------------------------------------------------
# production-by-production conformance (R01-1 / R18-2 / R08-1)

def _refs(term, out):
    k = term[0]
    if k == "nt":
        out.add(term[1])
    elif k in ("seq", "alt"):
        for t in term[1]:
            _refs(t, out)
    elif k in ("opt", "star", "plus"):
        _refs(term[1], out)
    elif k in ("minus", "and", "until"):
        _refs(term[1], out)
        if isinstance(term[2], tuple):
            _refs(term[2], out)


def conformance(facts, spec, only=None):
    """Compare every mapped production.  Returns (rows, extractor).

    row: {production, fn, file, line, inlined:{code_only,spec_only}, modular:{...}, calls:[productions],
          verdict: equal | root | derived}
    """
    check_helper_fingerprints(facts)
    ex = Extractor(facts)
    fn_of = {}
    for path, prod in spec.MAP.items():
        fn_of[prod] = facts.fn(path)
    atom_fids = {facts.fn(p)["id"]: n for p, n in spec.ATOM_FNS.items()}
    mapped_fids = {f["id"]: prod for prod, f in fn_of.items()}
    prods = [p for p in spec.MAP.values() if only is None or p in only]

    # terms
    code_terms = {}
    for prod in prods:
        try:
            code_terms[prod] = ex.fn_term(fn_of[prod])
        except Unknown as u:
            raise BrokenCheck("grammar term extraction failed for %s: %s" % (prod, u))

    def code_refs(prod):
        """mapped productions referenced by the code of `prod` (through unmapped helpers)."""
        seen, out = set(), set()

        def go(term):
            r = set()
            _refs(term, r)
            for fid in r:
                if fid in mapped_fids:
                    out.add(mapped_fids[fid])
                elif fid not in seen and fid in facts.fns:
                    seen.add(fid)
                    go(ex.fn_term(facts.fns[fid]))
        go(code_terms[prod])
        out.discard(prod)
        return out

    spec_inl = {}
    for prod in spec.MAP.values():
        spec_inl[prod] = expand_spec(spec.P, spec.P[prod], spec.ATOMS, (prod,) if prod not in spec.ATOMS else ())
    # Modular comparison: the code of a production with every *other* mapped production replaced by the reference language
    # of that production, against the reference production.  By induction over the (atom-cut) call structure all languages
    # are equal iff no production differs modularly; a production that differs is a root cause, one that only calls a
    # differing production is `derived`.  (Comparing fully inlined code languages as well adds nothing when no callee
    # differs, and when one does it can blow the automata up - a mutated leaf is inlined into every declaration.)
    pairs_mod = []
    for prod in prods:
        fid = fn_of[prod]["id"]
        try:
            subst = {k: spec_inl[v] for k, v in mapped_fids.items() if k != fid and k not in atom_fids}
            c_mod = expand(ex, code_terms[prod], atom_fids, (fid,) if fid not in atom_fids else (), subst)
        except Unknown as u:
            raise BrokenCheck("grammar expansion failed for %s: %s" % (prod, u))
        pairs_mod.append((prod, c_mod, spec_inl[prod]))
    cmp_mod = Comparison(pairs_mod).run()
    differs = {r["name"] for r in cmp_mod if r["code_only"] is not None or r["spec_only"] is not None}
    rows = []
    for rm in cmp_mod:
        prod = rm["name"]
        f = fn_of[prod]
        calls = sorted(code_refs(prod))
        seen, work = set(), list(calls)
        while work:
            x = work.pop()
            if x in seen:
                continue
            seen.add(x)
            if x in code_terms:
                work.extend(code_refs(x))
        explained = sorted(differs & seen)
        if prod in differs:
            verdict = "root"
        elif explained:
            verdict = "derived"
        else:
            verdict = "equal"
        d = {"code_only": rm["code_only"], "spec_only": rm["spec_only"], "code_states": rm["code_states"], "spec_states": rm["spec_states"]}
        rows.append({"production": prod, "fn": f["path"], "file": f["file"], "line": f["line"],
                     "inlined": d,
                     "modular": {"code_only": rm["code_only"], "spec_only": rm["spec_only"], "signature": rm["signature"]},
                     "signature": rm["signature"],
                     "calls": calls, "explained_by": explained, "verdict": verdict})
    return rows, ex


def conformance_findings(rows, rule, res, names=None):
    from common import Finding
    st = res.rule(rule, instances=0, equal=0, root=0, derived=0)
    for r in rows:
        if names is not None and r["production"] not in names:
            continue
        st["instances"] += 1
        st[r["verdict"]] += 1
        ok = r["verdict"] == "equal"
        res.oblige(1, ok or r["verdict"] == "derived")
        res.sample({"rule": rule, "production": r["production"], "fn": r["fn"], "verdict": r["verdict"],
                    "dfa_states": [r["inlined"]["code_states"], r["inlined"]["spec_states"]],
                    "witness": r["inlined"] if not ok else None}, limit=10)
        if r["verdict"] != "root":
            continue
        d = r["modular"] if (r["modular"]["code_only"] is not None or r["modular"]["spec_only"] is not None) else r["inlined"]
        sig = d.get("signature") or r.get("signature")
        if d["code_only"] is not None:
            res.add(Finding(rule, "%s:accepts:%s" % (r["production"], sig),
                            "%s accepts %r, which production %s does not derive" % (r["fn"], d["code_only"], r["production"]),
                            r["file"], r["line"], {"production": r["production"], "shortest_witness": d["code_only"], "row": r}))
        if d["spec_only"] is not None:
            res.add(Finding(rule, "%s:rejects:%s" % (r["production"], sig),
                            "%s does not accept %r, which production %s derives" % (r["fn"], d["spec_only"], r["production"]),
                            r["file"], r["line"], {"production": r["production"], "shortest_witness": d["spec_only"], "row": r}))


def r18_2(facts, res, tier):
    import xml10
    rows, ex = conformance(facts, xml10, only=None if tier == "thorough" else set(xml10.NAME_PRODUCTIONS))
    conformance_findings(rows, "R18-2", res, names=set(xml10.NAME_PRODUCTIONS))
    res.extra["grammar_functions"] = len(rows)
    st = res.rules["R18-2"]
    if st["instances"] < 4:
        raise BrokenCheck("R18-2: %d name productions compared, floor 4" % st["instances"])


# ------------------------------------------------------------------------------------------
# R01-2 ordered-choice soundness

def recursive_atoms(facts, ex, fn_filter):
    """fid -> path for every parser function on a cycle of the reference graph."""
    import e1
    refs = {}
    for fid, f in facts.fns.items():
        if not fn_filter(f):
            continue
        try:
            t = ex.fn_term(f)
        except Unknown:
            continue
        r = set()
        _refs(t, r)
        refs[fid] = {x for x in r if x in facts.fns}
    # include referenced helpers outside the filter
    more = True
    while more:
        more = False
        for fid in list(refs):
            for x in refs[fid]:
                if x not in refs:
                    try:
                        t = ex.fn_term(facts.fns[x])
                        r = set()
                        _refs(t, r)
                        refs[x] = {y for y in r if y in facts.fns}
                        more = True
                    except Unknown:
                        refs[x] = set()
    comps = e1.sccs(sorted(refs), lambda n: [x for x in refs.get(n, ()) if x in refs])
    rec = {}
    for c in comps:
        if len(c) > 1 or (c[0] in refs.get(c[0], ())):
            for x in c:
                rec[x] = facts.fns[x]["path"]
    return rec


def arm_label(facts, term):
    """A short name for one alternative that does not depend on its position: the parsers it refers to, else its literals."""
    r = set()
    _refs(term, r)
    names = sorted(facts.fns[x]["path"].split("::")[-1] for x in r if x in facts.fns)
    if names:
        return "+".join(names)[:40]
    lits = []

    def go(t):
        if not isinstance(t, tuple) or not t:
            return
        if t[0] == "lit":
            lits.append(str(t[1]))
        for x in t[1:]:
            if isinstance(x, tuple):
                go(x)
            elif isinstance(x, list):
                for y in x:
                    go(y)
    go(term)
    return ("'" + "".join(lits)[:24] + "'") if lits else "?"


def ordered_choice(facts, ex, res, rule, fn_filter, reasons=None):
    """For every alt(e1..en): no string of an earlier alternative may be a proper prefix of a string of a later
    one (nom commits to the first alternative that matches a prefix and never comes back)."""
    from common import Finding
    reasons = reasons or {}
    rec = recursive_atoms(facts, ex, fn_filter)
    st = res.rule(rule, instances=0, pairs=0, reasoned=0)
    by_fn = {f["path"]: f for f in facts.fns.values()}
    for a in ex.alts:
        f = by_fn.get(a["fn"])
        if f is None or not fn_filter(f):
            continue
        st["instances"] += 1
        arms = [expand(ex, t, rec, ()) for t in a["arms"]]
        sets, atoms = {UNIVERSE}, set()
        for t in arms:
            A.collect_sets(t, sets, atoms)
        al = A.Alphabet(sets, atoms)
        b = A.Builder(al)
        dfas = [b.dfa_of(t) for t in arms]
        anyplus = b.dfa_of(("plus", ("alt", [("cls", UNIVERSE)] + [("nt", x) for x in sorted(atoms)])))
        hits = []
        for i in range(len(arms)):
            # L(ei) . Sigma+
            ext = b.dfa_of(("seq", [arms[i], ("plus", ("alt", [("cls", UNIVERSE)] + [("nt", x) for x in sorted(atoms)]))]))
            for j in range(i + 1, len(arms)):
                st["pairs"] += 1
                w = ext.intersect(dfas[j]).shortest()
                if w is not None:
                    hits.append((i + 1, j + 1, al.render(w)))
        # the key names the two alternatives by what they parse, not by ordinals (those move when a sibling `alt` or an
        # alternative is factored out)
        keyof = lambda i, j: "%s|alt|%s<%s" % (a["fn"], arm_label(facts, a["arms"][i - 1]), arm_label(facts, a["arms"][j - 1]))
        res.oblige(1, not [h for h in hits if keyof(h[0], h[1]) not in reasons])
        for i, j, w in hits:
            key = keyof(i, j)
            if key in reasons:
                st["reasoned"] += 1
                continue
            res.add(Finding(rule, key,
                            "in %s, alternative %d of alt #%d matches a proper prefix of %r, which only the later alternative %d "
                            "matches completely: nom commits to alternative %d and the rest of the input then fails"
                            % (a["fn"], i, a["ord"], w, j, i), f["file"], a.get("line"), {"witness": w}))
        if hits:
            res.sample({"rule": rule, "fn": a["fn"], "alt": a["ord"], "prefix_pairs": hits}, limit=20)
