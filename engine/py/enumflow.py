"""Which values of an enum-typed input reach a program point (typed tree).

The value tracked is one immutable input of the function (a parameter of enum type, or of `&Enum`).  The analysis is a
path-sensitive walk of the typed tree over the finite domain of the enum's variants: `match` arms, `if let`, `matches!`,
boolean locals initialised from such a test, and helper predicates over the same value (a workspace function that takes
the value and returns bool, evaluated from its body) refine the set; every other condition leaves it unchanged on both
branches.  The result for a program point is the set of variants for which the point *may* be reached; since the
conditions that are understood are decided exactly and the others are not about the value (an `Unknown` is raised for a
condition that mentions the value in a form not understood), the set is exact with respect to this value.

Universe: the outer enum's unit variants, plus, for an outer variant that carries an inner enum, the inner variants
(`AxisSpecifier::Name(AxisName::Child)` -> "Child"), plus the names of the outer data variants that carry something else
(`AxisSpecifier::Abbreviated(_)` -> "Abbreviated").
"""
from facts import walk


class Unknown(Exception):
    pass


class Domain:
    def __init__(self, facts, outer_suffix, inner_suffix=None, wrapper=None, outer_vars=None, level_fn=None, split=None):
        """outer_suffix e.g. 'model::AxisSpecifier', inner_suffix 'model::AxisName', wrapper = outer variant carrying inner;
        outer_vars: the variants of an outer enum that is not a workspace type (Option: None / Some);
        split: {variant with a string payload: [literals]} - the variant is split into `V:<lit>` per literal and `V:*` for every
        other string, refined by comparisons of the payload with string literals (`Abbreviated("@")` vs the rest)"""
        self.facts = facts
        self.outer, self.inner, self.wrapper = outer_suffix, inner_suffix, wrapper
        self.level_fn = level_fn
        self.split = dict(split or {})
        self.outer_vars = list(outer_vars) if outer_vars else self._variants(outer_suffix)
        self.inner_vars = self._variants(inner_suffix) if inner_suffix else []
        if not self.outer_vars or (inner_suffix and not self.inner_vars):
            raise Unknown("enum %s / %s not found among the ADTs" % (outer_suffix, inner_suffix))
        outer_vals = []
        for v in self.outer_vars:
            if v == wrapper:
                continue
            if v in self.split:
                outer_vals += ["%s:%s" % (v, lit) for lit in self.split[v]] + [v + ":*"]
            else:
                outer_vals.append(v)
        self.universe = frozenset(outer_vals + list(self.inner_vars))

    def values_of(self, variant):
        if variant in self.split:
            return {"%s:%s" % (variant, lit) for lit in self.split[variant]} | {variant + ":*"}
        return {variant}

    def _variants(self, suffix):
        for a in self.facts.adts.values() if isinstance(self.facts.adts, dict) else self.facts.adts:
            if str(a.get("path", "")).endswith(suffix) and a.get("variants"):
                return [v["name"] if isinstance(v, dict) else v for v in a["variants"]]
        return []

    def level(self, ty):
        ty = str(ty or "")
        if self.level_fn is not None:
            return self.level_fn(ty)
        if self.outer.split("::")[-1] in ty:
            return "outer"
        if self.inner and self.inner.split("::")[-1] in ty:
            return "inner"
        return None

    def pat_set(self, pat, level):
        p = pat.get("p")
        if p in ("Ref", "Deref"):
            return self.pat_set(pat["sub"], level)
        if p == "Or":
            out = set()
            for q in pat["pats"]:
                out |= self.pat_set(q, level)
            return out
        if p == "Wild" or (p == "Bind" and "sub" not in pat):
            return set(self.universe) if level == "outer" else set(self.inner_vars)
        if p == "Bind":
            return self.pat_set(pat["sub"], level)
        if p == "Guard":
            raise Unknown("pattern guard over the tracked enum")
        if p == "Expr" and pat["e"].get("k") == "Path":
            v = pat["e"]["path"].split("::")[-1]
            if v in self.universe:
                return {v}
            raise Unknown("pattern constant %s" % pat["e"]["path"])
        if p in ("TupleStruct", "Struct"):
            v = pat["path"].split("::")[-1]
            if level == "outer" and v == self.wrapper:
                subs = pat.get("pats") or [f["pat"] for f in pat.get("fields", [])]
                if not subs:
                    return set(self.inner_vars)
                return self.pat_set(subs[0], "inner")
            if v in self.universe:
                return {v}
            if v in self.split and level == "outer":
                return self.values_of(v)
        raise Unknown("pattern %s" % p)


class Flow:
    def __init__(self, dom, f, depth=0):
        self.dom, self.f, self.depth = dom, f, depth
        self.facts = dom.facts
        self.lets = {}
        for n in walk(f["body"]):
            if n.get("s") == "Let" and n.get("pat", {}).get("p") == "Bind" and "init" in n:
                self.lets[n["pat"]["lid"]] = n["init"]
        self.hits = []          # (node, set)
        self.payload = {}       # local bound to the string payload of a split variant -> variant
        for n in walk(f["body"]):
            if isinstance(n, dict) and n.get("p") in ("TupleStruct", "Struct") and str(n.get("path", "")).split("::")[-1] in dom.split:
                for q in walk(n.get("pats") or [x["pat"] for x in n.get("fields", [])]):
                    if q.get("p") == "Bind":
                        self.payload[q["lid"]] = str(n["path"]).split("::")[-1]
        self.derived = {}       # local of the inner enum computed from the tracked value -> {value: set of inner variants}

    def _payload_of(self, e):
        """the split variant whose payload the string expression e is (v, v.as_str(), &**v ..)"""
        n = 0
        while isinstance(e, dict) and n < 8:
            n += 1
            k = e.get("k")
            if k == "Path" and e.get("res") == "Local":
                return self.payload.get(e.get("lid"))
            if k == "MethodCall" and e.get("m") in ("as_str", "as_ref", "deref", "borrow", "clone", "to_string", "to_owned") and not e.get("args"):
                e = e["recv"]
            elif k in ("AddrOf", "Cast") or (k == "Unary" and e.get("op") == "*"):
                e = e["a"]
            else:
                return None
        return None

    def _str_test(self, a, b, negated, S):
        for x, y in ((a, b), (b, a)):
            if isinstance(y, dict) and y.get("k") == "Lit" and y.get("t") == "str":
                v = self._payload_of(x)
                if v is not None:
                    if y["v"] not in self.dom.split[v]:
                        raise Unknown("payload of %s compared with %r, which is not one of the split literals" % (v, y["v"]))
                    t = {"%s:%s" % (v, y["v"])}
                    return (set(self.dom.universe) - t) if negated else t
        return None

    # -- values of the inner enum computed from the tracked value ----------------------------------------------------
    def nat(self, S):
        return {s: ({s} if s in self.dom.inner_vars else set()) for s in S}

    def val(self, e, S):
        """e has the inner enum's type: -> {value in S: set of inner variants e can be under it}, None when not computable"""
        n = 0
        while isinstance(e, dict) and n < 8:
            n += 1
            k = e.get("k")
            if k in ("AddrOf", "Cast") or (k == "Unary" and e.get("op") == "*"):
                e = e["a"]
            elif k == "Block" and not e.get("stmts") and "expr" in e:
                e = e["expr"]
            elif k == "MethodCall" and e.get("m") in ("clone", "as_ref", "borrow", "deref") and not e.get("args"):
                e = e["recv"]
            else:
                break
        if not isinstance(e, dict):
            return None
        k = e.get("k")
        if k == "Path" and e.get("res") == "Local":
            if e.get("lid") in self.derived:
                M = self.derived[e["lid"]]
                return {s: set(M.get(s, ())) for s in S}
            return self.nat(S) if self.dom.level(e.get("ty")) == "inner" else None
        if k == "Path" and str(e.get("res", "")).startswith("Ctor") and str(e.get("path", "")).split("::")[-1] in self.dom.inner_vars:
            return {s: {str(e["path"]).split("::")[-1]} for s in S}
        if k == "If" and "else" in e:
            c = self.cond(e["cond"])
            a = self.val(e["then"], S if c is None else S & c)
            b = self.val(e["else"], S if c is None else S - c)
            if a is None or b is None:
                return None
            return {s: a.get(s, set()) | b.get(s, set()) for s in S}
        if k == "Match" and e.get("src") == "Normal" and self.dom.level(e.get("scrutty")):
            out = {s: set() for s in S}
            for arm, Sa in self._arms(e, S):
                m = self.val(arm["body"], Sa)
                if m is None:
                    return None
                for s, vs in m.items():
                    out[s] |= vs
            return out
        if k in ("Call", "MethodCall") and self.depth < 3:
            t = e if k == "MethodCall" else e.get("f", {})
            args = ([e.get("recv")] + e.get("args", [])) if k == "MethodCall" else e.get("args", [])
            g = self.facts.fns.get(t.get("rid") or t.get("id"))
            if g is not None and "body" in g and any(isinstance(a, dict) and self.dom.level(a.get("ty")) for a in args):
                sub = Flow(self.dom, g, self.depth + 1)
                sub.want = lambda n_: False
                return sub.val(g["body"], S)
            if g is not None and "body" in g:
                # a function that answers one constant of the inner enum whatever it is given (`fn node_type(&self) -> NodeType
                # { NodeType::Element }` of one node kind)
                b = g["body"]
                while isinstance(b, dict) and b.get("k") == "Block" and not b.get("stmts") and "expr" in b:
                    b = b["expr"]
                if isinstance(b, dict) and b.get("k") == "Path" and str(b.get("res", "")).startswith("Ctor") and \
                        str(b.get("path", "")).split("::")[-1] in self.dom.inner_vars:
                    return {s_: {str(b["path"]).split("::")[-1]} for s_ in S}
        return None

    def _arms(self, n, S):
        """[(arm, values of S under which the arm is taken)] of a match over the tracked enum or over an inner value computed
        from it"""
        lv = self.dom.level(n["scrutty"])
        out = []
        if lv == "inner":
            M = self.val(n["scrut"], S)
            if M is None:
                M = self.nat(S)
            rest = set(S)
            for arm in n["arms"]:
                A = self.dom.pat_set(arm["pat"], "inner")
                Sa = {s for s in rest if M.get(s, set()) & A}
                out.append((arm, Sa))
                if "guard" not in arm:
                    rest -= {s for s in Sa if M.get(s, set()) <= A}
            return out
        rest = set(self.dom.universe)
        for arm in n["arms"]:
            a = self.dom.pat_set(arm["pat"], lv) & rest
            if "guard" in arm:
                g = self.cond(arm["guard"])
                if g is None:
                    out.append((arm, S & a))        # a guard about something else: the arm may or may not be taken
                else:
                    out.append((arm, S & a & g))
                    rest -= (a & g)
            else:
                out.append((arm, S & a))
                rest -= a
        return out

    # -- conditions ------------------------------------------------------------------------------------------------
    def mentions(self, e):
        return any(self.dom.level(n.get("ty")) for n in walk(e) if n.get("k") == "Path" and n.get("res") == "Local")

    def cond(self, e):
        """-> set of universe values for which the boolean e is true, or None when e is not about the tracked value"""
        k = e.get("k")
        U = set(self.dom.universe)
        if k == "Lit" and e.get("t") == "bool":
            return U if e["v"] else set()
        if k in ("Block",) and not e.get("stmts") and e.get("expr"):
            return self.cond(e["expr"])
        if k == "Unary" and e.get("op") == "!":
            c = self.cond(e["a"])
            return None if c is None else U - c
        if k == "Binary" and e.get("op") in ("&&", "||", "And", "Or"):
            a, b = self.cond(e["a"]), self.cond(e["b"])
            if a is None and b is None:
                return None
            if a is None or b is None:
                raise Unknown("condition mixes the tracked enum with something else")
            return (a & b) if e["op"] in ("&&", "And") else (a | b)
        if k == "Path" and e.get("res") == "Local":
            init = self.lets.get(e.get("lid"))
            if init is not None and str(e.get("ty")) == "bool" and self.mentions(init):
                return self.cond(init)
            return None
        if k == "Let":
            lv = self.dom.level(e.get("init", {}).get("ty"))
            if lv:
                return self.dom.pat_set(e["pat"], lv)
            return None
        if k == "Match" and self.dom.level(e.get("scrutty")):
            out = set()
            for arm, Sa in self._arms(e, U):
                c = self.cond(arm["body"])
                if c is None:
                    raise Unknown("arm of a boolean match over the tracked enum is not a constant")
                out |= Sa & c
            return out
        if k in ("Call", "MethodCall"):
            t = e if k == "MethodCall" else e.get("f", {})
            args = ([e.get("recv")] + e.get("args", [])) if k == "MethodCall" else e.get("args", [])
            tracked = [i for i, a in enumerate(args) if isinstance(a, dict) and self.dom.level(a.get("ty"))
                       and a.get("k") in ("Path", "AddrOf", "Deref", "Unary")]
            if not tracked:
                if self.mentions(e):
                    # e.g. `axis == &X`: equality with a constant
                    return self.eq_const(e)
                return None
            callee = self.facts.fns.get(t.get("rid") or t.get("id"))
            if callee is None or "body" not in callee or self.depth > 3:
                return self.eq_const(e)
            sub = Flow(self.dom, callee, self.depth + 1)
            return sub.cond(callee["body"])
        if k == "Binary" and e.get("op") in ("==", "!=", "Eq", "Ne"):
            st = self._str_test(e["a"], e["b"], e.get("op") in ("!=", "Ne"), U)
            if st is not None:
                return st
            # `node.node_type() == NodeType::Attribute`: an inner value computed from the tracked one, compared with a constant
            for x, y in ((e["a"], e["b"]), (e["b"], e["a"])):
                cy = y
                while isinstance(cy, dict) and cy.get("k") in ("AddrOf",):
                    cy = cy["a"]
                if isinstance(cy, dict) and cy.get("k") == "Path" and str(cy.get("res", "")).startswith("Ctor") and \
                        str(cy.get("path", "")).split("::")[-1] in self.dom.inner_vars and self.dom.level(x.get("ty")) == "inner":
                    M = self.val(x, U)
                    if M is None:
                        raise Unknown("value of the inner enum is not computable")
                    c = str(cy["path"]).split("::")[-1]
                    t = {s_ for s_ in U if M.get(s_) == {c}}
                    maybe = {s_ for s_ in U if c in M.get(s_, set())}
                    if t != maybe:
                        raise Unknown("inner value is not determined by the tracked value")
                    return (U - t) if e.get("op") in ("!=", "Ne") else t
            if not self.mentions(e):
                return None
            return self.eq_const(e)
        if k == "Block":
            # statements then a tail: only `let` of things we can look through
            if e.get("expr") is not None and all(s.get("s") == "Let" for s in e.get("stmts", [])):
                return self.cond(e["expr"])
        if self.mentions(e):
            raise Unknown("condition over the tracked enum in a form not understood (%s)" % k)
        return None

    def eq_const(self, e):
        if e.get("k") == "Binary":
            sides = [e["a"], e["b"]]
            neg = e.get("op") in ("!=", "Ne")
        elif e.get("k") == "MethodCall" and e.get("m") in ("eq", "ne"):
            sides = [e["recv"]] + e["args"]
            neg = e["m"] == "ne"
        else:
            raise Unknown("call with the tracked enum that is not a workspace predicate")
        consts = []
        for s in sides:
            for n in walk(s):
                if n.get("k") == "Path" and str(n.get("res", "")).startswith("Ctor") and n["path"].split("::")[-1] in self.dom.universe:
                    consts.append(n["path"].split("::")[-1])
        if len(consts) != 1:
            raise Unknown("comparison of the tracked enum with a non-constant")
        s = {consts[0]}
        return (set(self.dom.universe) - s) if neg else s

    # -- walk: returns the values under which evaluation falls through ---------------------------------------------------
    def run(self, want):
        """want(node) -> bool; records (node, set) for every wanted node"""
        self.want = want
        self.visit(self.f["body"], set(self.dom.universe))
        return self.hits

    def _descend(self, n, S):
        """a call that hands the tracked value to a function of the workspace: the wanted nodes of its body are reached under S
        refined by the callee's own tests"""
        if self.depth >= 2:
            return
        t = n if n.get("k") == "MethodCall" else n.get("f", {})
        args = ([n.get("recv")] + n.get("args", [])) if n.get("k") == "MethodCall" else n.get("args", [])
        if not any(isinstance(a, dict) and self.dom.level(a.get("ty")) for a in args):
            return
        g = self.facts.fns.get(t.get("rid") or t.get("id"))
        if g is None or "body" not in g or g["id"] == self.f["id"]:
            return
        sub = Flow(self.dom, g, self.depth + 1)
        sub.want = self.want
        sub.visit(g["body"], set(S))
        self.hits += sub.hits

    def visit(self, n, S):
        if isinstance(n, list):
            for x in n:
                S = self.visit(x, S)
            return S
        if not isinstance(n, dict):
            return S
        S = set(S)
        if "s" in n and "k" not in n:          # statement
            if n["s"] == "Let":
                if "init" not in n:
                    return S
                S = self.visit(n["init"], S)
                if n.get("pat", {}).get("p") == "Bind" and self.dom.level(n["pat"].get("ty")) == "inner":
                    M = self.val(n["init"], set(self.dom.universe))
                    if M is not None:
                        self.derived[n["pat"]["lid"]] = M
                if "els" in n:
                    lv = self.dom.level(n["init"].get("ty"))
                    if lv:
                        t = self.dom.pat_set(n["pat"], lv)
                        self.visit(n["els"], S - t)
                        return S & t
                    self.visit(n["els"], S)
                return S
            return self.visit(n.get("e"), S)
        if self.want(n):
            self.hits.append((n, set(S)))
        k = n.get("k")
        if k == "Block":
            for st in n.get("stmts", []):
                S = self.visit(st, S)
            if "expr" in n:
                S = self.visit(n["expr"], S)
            return S
        if k == "Ret":
            if "v" in n:
                self.visit(n["v"], S)
            return set()
        if k in ("Break", "Continue"):
            return set()
        if k == "If":
            c = self.cond(n["cond"])
            self.visit(n["cond"], S)
            out = self.visit(n["then"], S if c is None else S & c)
            if n.get("else") is not None:
                out |= self.visit(n["else"], S if c is None else S - c)
            else:
                out |= S if c is None else S - c
            return out
        if k == "Match":
            src = n.get("src")
            if src == "Try":
                sc = n["scrut"]
                return self.visit(sc["args"][0] if sc.get("k") == "Call" and sc.get("args") else sc, S)
            if src == "ForLoop":
                self.visit(n["scrut"], S)
                for arm in n["arms"]:          # the arms are alternatives (None => break | Some(x) => body), not a sequence
                    self.visit(arm, S)
                return S
            if self.dom.level(n.get("scrutty")) and src == "Normal":
                S = self.visit(n["scrut"], S)
                out = set()
                for arm, Sa in self._arms(n, S):
                    if "guard" in arm:
                        self.visit(arm["guard"], Sa)
                    out |= self.visit(arm["body"], Sa)
                return out
            pv = self._payload_of(n["scrut"]) if src == "Normal" else None
            if pv is not None and "str" in str(n.get("scrutty", "")):
                # `match v.as_str() { "@" => .., _ => .. }` over the payload of a split variant
                rest, out = set(self.dom.values_of(pv)), set()
                other = set(self.dom.universe) - rest
                for arm in n["arms"]:
                    pat = arm["pat"]
                    if pat.get("p") == "Expr" and pat["e"].get("t") == "str":
                        if pat["e"]["v"] not in self.dom.split[pv]:
                            raise Unknown("payload of %s matched against %r, which is not one of the split literals" % (pv, pat["e"]["v"]))
                        a = {"%s:%s" % (pv, pat["e"]["v"])} & rest
                    elif pat.get("p") in ("Wild", "Bind"):
                        a = set(rest)
                    else:
                        raise Unknown("pattern over the payload of %s" % pv)
                    if "guard" not in arm:
                        rest -= a
                    out |= self.visit(arm["body"], S & (a | other) if False else S & a)
                return out
            S = self.visit(n["scrut"], S)
            out = set()
            for arm in n["arms"]:
                if "guard" in arm:
                    self.visit(arm["guard"], S)
                out |= self.visit(arm["body"], S)
            return out
        if k == "Loop":
            self.visit(n["body"], S)
            return S
        if k == "Closure":
            self.visit(n.get("body"), S)
            return S
        if k in ("Call", "MethodCall"):
            mac = str(n.get("mac", "")).rstrip("!")
            if "panic" in mac or mac in ("unreachable", "unimplemented", "todo"):
                return set()
            self._descend(n, S)
        for key, v in n.items():
            if key != "mir" and isinstance(v, (dict, list)):
                S = self.visit(v, S)
        return S
