"""Which values of an enum-typed input reach a program point (typed tree).

The value tracked is one immutable input of the function (a parameter of enum type, or of `&Enum`).  The analysis is a
path-sensitive walk of the typed tree over the finite domain of the enum's variants: `match` arms, `if let`, `matches!`,
boolean locals initialised from such a test, and helper predicates over the same value (a workspace function that takes
the value and returns bool, evaluated from its body) refine the set; every other condition leaves it unchanged on both
branches.  The result for a program point is the set of variants for which the point *may* be reached; since the
conditions that are understood are decided exactly and the others are not about the value (an `Unknown` is raised for a
condition that mentions the value in a form not understood), the set is exact with respect to this value.

Universe: the outer enum's unit variants, plus, for an outer variant that carries an inner enum, the inner variants
(`AxisSpecifier::Name(AxisName::Child)` -> "Child"), plus the names of the outer data variants that carry something else
(`AxisSpecifier::Abbreviated(_)` -> "Abbreviated").
"""
from facts import walk


class Unknown(Exception):
    pass


class Domain:
    def __init__(self, facts, outer_suffix, inner_suffix=None, wrapper=None, outer_vars=None, level_fn=None):
        """outer_suffix e.g. 'model::AxisSpecifier', inner_suffix 'model::AxisName', wrapper = outer variant carrying inner;
        outer_vars: the variants of an outer enum that is not a workspace type (Option: None / Some)"""
        self.facts = facts
        self.outer, self.inner, self.wrapper = outer_suffix, inner_suffix, wrapper
        self.level_fn = level_fn
        self.outer_vars = list(outer_vars) if outer_vars else self._variants(outer_suffix)
        self.inner_vars = self._variants(inner_suffix) if inner_suffix else []
        if not self.outer_vars or (inner_suffix and not self.inner_vars):
            raise Unknown("enum %s / %s not found among the ADTs" % (outer_suffix, inner_suffix))
        self.universe = frozenset([v for v in self.outer_vars if v != wrapper] + list(self.inner_vars))

    def _variants(self, suffix):
        for a in self.facts.adts.values() if isinstance(self.facts.adts, dict) else self.facts.adts:
            if str(a.get("path", "")).endswith(suffix) and a.get("variants"):
                return [v["name"] if isinstance(v, dict) else v for v in a["variants"]]
        return []

    def level(self, ty):
        ty = str(ty or "")
        if self.level_fn is not None:
            return self.level_fn(ty)
        if self.outer.split("::")[-1] in ty:
            return "outer"
        if self.inner and self.inner.split("::")[-1] in ty:
            return "inner"
        return None

    def pat_set(self, pat, level):
        p = pat.get("p")
        if p in ("Ref", "Deref"):
            return self.pat_set(pat["sub"], level)
        if p == "Or":
            out = set()
            for q in pat["pats"]:
                out |= self.pat_set(q, level)
            return out
        if p == "Wild" or (p == "Bind" and "sub" not in pat):
            return set(self.universe) if level == "outer" else set(self.inner_vars)
        if p == "Bind":
            return self.pat_set(pat["sub"], level)
        if p == "Guard":
            raise Unknown("pattern guard over the tracked enum")
        if p == "Expr" and pat["e"].get("k") == "Path":
            v = pat["e"]["path"].split("::")[-1]
            if v in self.universe:
                return {v}
            raise Unknown("pattern constant %s" % pat["e"]["path"])
        if p in ("TupleStruct", "Struct"):
            v = pat["path"].split("::")[-1]
            if level == "outer" and v == self.wrapper:
                subs = pat.get("pats") or [f["pat"] for f in pat.get("fields", [])]
                if not subs:
                    return set(self.inner_vars)
                return self.pat_set(subs[0], "inner")
            if v in self.universe:
                return {v}
        raise Unknown("pattern %s" % p)


class Flow:
    def __init__(self, dom, f, depth=0):
        self.dom, self.f, self.depth = dom, f, depth
        self.facts = dom.facts
        self.lets = {}
        for n in walk(f["body"]):
            if n.get("s") == "Let" and n.get("pat", {}).get("p") == "Bind" and "init" in n:
                self.lets[n["pat"]["lid"]] = n["init"]
        self.hits = []          # (node, set)

    # -- conditions ------------------------------------------------------------------------------------------------
    def mentions(self, e):
        return any(self.dom.level(n.get("ty")) for n in walk(e) if n.get("k") == "Path" and n.get("res") == "Local")

    def cond(self, e):
        """-> set of universe values for which the boolean e is true, or None when e is not about the tracked value"""
        k = e.get("k")
        U = set(self.dom.universe)
        if k == "Lit" and e.get("t") == "bool":
            return U if e["v"] else set()
        if k in ("Block",) and not e.get("stmts") and e.get("expr"):
            return self.cond(e["expr"])
        if k == "Unary" and e.get("op") == "!":
            c = self.cond(e["a"])
            return None if c is None else U - c
        if k == "Binary" and e.get("op") in ("&&", "||", "And", "Or"):
            a, b = self.cond(e["a"]), self.cond(e["b"])
            if a is None and b is None:
                return None
            if a is None or b is None:
                raise Unknown("condition mixes the tracked enum with something else")
            return (a & b) if e["op"] in ("&&", "And") else (a | b)
        if k == "Path" and e.get("res") == "Local":
            init = self.lets.get(e.get("lid"))
            if init is not None and str(e.get("ty")) == "bool" and self.mentions(init):
                return self.cond(init)
            return None
        if k == "Let":
            lv = self.dom.level(e.get("init", {}).get("ty"))
            if lv:
                return self.dom.pat_set(e["pat"], lv)
            return None
        if k == "Match" and self.dom.level(e.get("scrutty")):
            lv = self.dom.level(e["scrutty"])
            rest = set(U) if lv == "outer" else set(self.dom.inner_vars)
            out = set()
            for arm in e["arms"]:
                a = self.dom.pat_set(arm["pat"], lv) & rest
                if "guard" in arm:
                    raise Unknown("match guard over the tracked enum")
                rest -= a
                c = self.cond(arm["body"])
                if c is None:
                    raise Unknown("arm of a boolean match over the tracked enum is not a constant")
                out |= a & c
            return out
        if k in ("Call", "MethodCall"):
            t = e if k == "MethodCall" else e.get("f", {})
            args = ([e.get("recv")] + e.get("args", [])) if k == "MethodCall" else e.get("args", [])
            tracked = [i for i, a in enumerate(args) if isinstance(a, dict) and self.dom.level(a.get("ty"))
                       and a.get("k") in ("Path", "AddrOf", "Deref", "Unary")]
            if not tracked:
                if self.mentions(e):
                    # e.g. `axis == &X`: equality with a constant
                    return self.eq_const(e)
                return None
            callee = self.facts.fns.get(t.get("rid") or t.get("id"))
            if callee is None or "body" not in callee or self.depth > 3:
                return self.eq_const(e)
            sub = Flow(self.dom, callee, self.depth + 1)
            return sub.cond(callee["body"])
        if k == "Binary" and e.get("op") in ("==", "!=", "Eq", "Ne"):
            return self.eq_const(e)
        if k == "Block":
            # statements then a tail: only `let` of things we can look through
            if e.get("expr") is not None and all(s.get("s") == "Let" for s in e.get("stmts", [])):
                return self.cond(e["expr"])
        if self.mentions(e):
            raise Unknown("condition over the tracked enum in a form not understood (%s)" % k)
        return None

    def eq_const(self, e):
        if e.get("k") == "Binary":
            sides = [e["a"], e["b"]]
            neg = e.get("op") in ("!=", "Ne")
        elif e.get("k") == "MethodCall" and e.get("m") in ("eq", "ne"):
            sides = [e["recv"]] + e["args"]
            neg = e["m"] == "ne"
        else:
            raise Unknown("call with the tracked enum that is not a workspace predicate")
        consts = []
        for s in sides:
            for n in walk(s):
                if n.get("k") == "Path" and str(n.get("res", "")).startswith("Ctor") and n["path"].split("::")[-1] in self.dom.universe:
                    consts.append(n["path"].split("::")[-1])
        if len(consts) != 1:
            raise Unknown("comparison of the tracked enum with a non-constant")
        s = {consts[0]}
        return (set(self.dom.universe) - s) if neg else s

    # -- walk: returns the values under which evaluation falls through ---------------------------------------------------
    def run(self, want):
        """want(node) -> bool; records (node, set) for every wanted node"""
        self.want = want
        self.visit(self.f["body"], set(self.dom.universe))
        return self.hits

    def _descend(self, n, S):
        """a call that hands the tracked value to a function of the workspace: the wanted nodes of its body are reached under S
        refined by the callee's own tests"""
        if self.depth >= 2:
            return
        t = n if n.get("k") == "MethodCall" else n.get("f", {})
        args = ([n.get("recv")] + n.get("args", [])) if n.get("k") == "MethodCall" else n.get("args", [])
        if not any(isinstance(a, dict) and self.dom.level(a.get("ty")) for a in args):
            return
        g = self.facts.fns.get(t.get("rid") or t.get("id"))
        if g is None or "body" not in g or g["id"] == self.f["id"]:
            return
        sub = Flow(self.dom, g, self.depth + 1)
        sub.want = self.want
        sub.visit(g["body"], set(S))
        self.hits += sub.hits

    def visit(self, n, S):
        if isinstance(n, list):
            for x in n:
                S = self.visit(x, S)
            return S
        if not isinstance(n, dict):
            return S
        S = set(S)
        if "s" in n and "k" not in n:          # statement
            if n["s"] == "Let":
                if "init" not in n:
                    return S
                S = self.visit(n["init"], S)
                if "els" in n:
                    lv = self.dom.level(n["init"].get("ty"))
                    if lv:
                        t = self.dom.pat_set(n["pat"], lv)
                        self.visit(n["els"], S - t)
                        return S & t
                    self.visit(n["els"], S)
                return S
            return self.visit(n.get("e"), S)
        if self.want(n):
            self.hits.append((n, set(S)))
        k = n.get("k")
        if k == "Block":
            for st in n.get("stmts", []):
                S = self.visit(st, S)
            if "expr" in n:
                S = self.visit(n["expr"], S)
            return S
        if k == "Ret":
            if "v" in n:
                self.visit(n["v"], S)
            return set()
        if k in ("Break", "Continue"):
            return set()
        if k == "If":
            c = self.cond(n["cond"])
            self.visit(n["cond"], S)
            out = self.visit(n["then"], S if c is None else S & c)
            if n.get("else") is not None:
                out |= self.visit(n["else"], S if c is None else S - c)
            else:
                out |= S if c is None else S - c
            return out
        if k == "Match":
            src = n.get("src")
            if src == "Try":
                sc = n["scrut"]
                return self.visit(sc["args"][0] if sc.get("k") == "Call" and sc.get("args") else sc, S)
            if src == "ForLoop":
                self.visit(n["scrut"], S)
                for arm in n["arms"]:          # the arms are alternatives (None => break | Some(x) => body), not a sequence
                    self.visit(arm, S)
                return S
            if self.dom.level(n.get("scrutty")) and src == "Normal":
                lv = self.dom.level(n["scrutty"])
                rest = set(self.dom.universe) if lv == "outer" else set(self.dom.inner_vars)
                out = set()
                for arm in n["arms"]:
                    a = self.dom.pat_set(arm["pat"], lv) & rest
                    if "guard" in arm:
                        self.visit(arm["guard"], S & a)
                    else:
                        rest -= a
                    out |= self.visit(arm["body"], S & a)
                return out
            S = self.visit(n["scrut"], S)
            out = set()
            for arm in n["arms"]:
                if "guard" in arm:
                    self.visit(arm["guard"], S)
                out |= self.visit(arm["body"], S)
            return out
        if k == "Loop":
            self.visit(n["body"], S)
            return S
        if k == "Closure":
            self.visit(n.get("body"), S)
            return S
        if k in ("Call", "MethodCall"):
            mac = str(n.get("mac", "")).rstrip("!")
            if "panic" in mac or mac in ("unreachable", "unimplemented", "todo"):
                return set()
            self._descend(n, S)
        for key, v in n.items():
            if key != "mir" and isinstance(v, (dict, list)):
                S = self.visit(v, S)
        return S
