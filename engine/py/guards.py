"""Visited-set recursion guards (typed tree).

A function that recurses over a graph the input controls (entity references) and carries a collection named
visited / seen / stack is *guarded* only if

  G1  the test is a membership test over the whole collection (contains / iter().any|position|find, or the boolean
      of a set insert) in the condition of an `if` whose taken branch leaves the function - a test of
      last() / first() / get(i) / [i] only sees one ancestor, so a cycle of length >= 2 recurses without bound;
  G2  the key is pushed (or inserted) after the test and before the recursive call;
  G3  every normal completion after the push passes a pop (or remove): the collection is the *path*, not the set of
      everything ever seen - without the pop a second, legal mention of the same entity is refused as recursion.
      Error exits (`?`, `return Err`) need no pop: the caller abandons the whole expansion.

G1/G2 are termination (C02 No Recursion, C03, C06), G3 is acceptance of well-formed input (C01, C11).
"""
from common import Finding
from facts import BrokenCheck

NAMES = ("visited", "seen", "stack", "path", "ancestors", "active", "expanding")
WHOLE = {"contains", "any", "position", "find", "binary_search", "contains_key"}
PARTIAL = {"last", "first", "get", "last_mut", "first_mut", "peek"}
ADD = {"push", "insert", "push_back"}
DEL = {"pop", "remove", "pop_back"}
WIPE = {"clear", "truncate", "retain", "drain", "split_off"}


def ordered(node, depth=0):
    """Strict source-order pre-order walk; yields (node, depth)."""
    if isinstance(node, dict):
        yield node, depth
        k = node.get("k")
        order = None
        if k == "MethodCall":
            order = ["recv", "args"]
        elif k == "Call":
            order = ["f", "args"]
        elif k == "If":
            order = ["cond", "then", "else"]
        elif k == "Match":
            order = ["scrut", "arms"]
        elif k == "Block":
            order = ["stmts", "expr"]
        elif "s" in node:
            order = ["pat", "init", "e", "else"]
        keys = list(node.keys())
        if order:
            keys = [x for x in order if x in node] + [x for x in keys if x not in order]
        for x in keys:
            v = node[x]
            if x != "mir" and isinstance(v, (dict, list)):
                for y in ordered(v, depth + 1):
                    yield y
    elif isinstance(node, list):
        for x in node:
            for y in ordered(x, depth):
                yield y


def _root_local(n):
    """The local a receiver chain starts from (through method calls, derefs, borrows, fields)."""
    seen = 0
    while isinstance(n, dict) and seen < 12:
        seen += 1
        k = n.get("k")
        if k == "Path" and n.get("res") == "Local":
            return n.get("name"), n.get("lid")
        if k == "MethodCall":
            n = n.get("recv")
        elif k in ("Deref", "AddrOf", "Field", "Unary", "Borrow", "Index"):
            n = n.get("e") or n.get("base") or n.get("o") or n.get("a")
        else:
            return None, None
    return None, None


def _chain(n):
    """Method names of a receiver chain, outermost first."""
    out = []
    while isinstance(n, dict) and n.get("k") == "MethodCall":
        out.append(n["m"])
        n = n.get("recv")
    return out


def _diverges(block):
    for n, _ in ordered(block):
        if n.get("k") == "Ret":
            return True
        if n.get("k") == "Call" and "panic" in str(n.get("mac", "")):
            return True
    return False


def collections(f):
    out = {}
    for n, _ in ordered(f.get("body")):
        if n.get("k") == "Path" and n.get("res") == "Local":
            nm = str(n.get("name", "")).lower()
            ty = str(n.get("ty", ""))
            if any(g == nm or nm.endswith("_" + g) or nm.startswith(g + "_") for g in NAMES) and \
                    any(c in ty for c in ("Vec<", "HashSet<", "BTreeSet<", "VecDeque<", "HashMap<", "BTreeMap<")):
                out[n.get("lid")] = n.get("name")
    return out


def analyse(facts, f, self_ids):
    """-> dict(collection, g1, g2, g3, problems=[(code, text, line)]) or None when f carries no visited collection."""
    cols = collections(f)
    if not cols:
        return None
    seq = [n for n, _ in ordered(f["body"])]
    pos = {id(n): i for i, n in enumerate(seq)}
    best = None
    for lid, name in cols.items():
        tests, partial, adds, dels, recs, ok_rets, wipes = [], [], [], [], [], [], []
        for n in seq:
            k = n.get("k")
            if k == "If":
                whole = part = False
                for c, _ in ordered(n["cond"]):
                    if c.get("k") == "MethodCall" and _root_local(c)[1] == lid:
                        ch = _chain(c)
                        if ch and ch[0] in WHOLE:
                            whole = True
                        elif ch and ch[0] == "insert" and "Set<" in str(c.get("recvty", "")):
                            whole = True
                        elif any(m in PARTIAL for m in ch):
                            part = True
                    if c.get("k") == "Index" and _root_local(c)[1] == lid:
                        part = True
                if whole and _diverges(n["then"]):
                    tests.append(n)
                elif part and not whole:
                    partial.append(n)
            if k == "MethodCall" and _root_local(n.get("recv"))[1] == lid and n.get("recv", {}).get("k") != "MethodCall":
                if n["m"] in ADD:
                    adds.append(n)
                elif n["m"] in DEL:
                    dels.append(n)
                elif n["m"] in WIPE:
                    wipes.append(n)
            if k in ("Call", "MethodCall"):
                t = n if k == "MethodCall" else n.get("f", {})
                if (t.get("rid") or t.get("id")) in self_ids:
                    recs.append(n)
            if k == "Ret":
                v = n.get("v")
                if isinstance(v, dict) and v.get("k") == "Call" and str(v.get("f", {}).get("path", "")).endswith("Ok"):
                    ok_rets.append(n)
        if not adds and not tests and not partial:
            continue
        problems = []
        g1 = bool(tests)
        if not g1:
            where = partial[0] if partial else None
            problems.append(("G1", "the recursion test on `%s` looks at one element (%s), not at the whole collection: a cycle "
                             "of length >= 2 is not seen" % (name, "last/first/get" if partial else "no membership test found"),
                             where.get("ln") if where else f.get("line")))
        first_rec = min((pos[id(r)] for r in recs), default=None)
        g2 = bool(adds) and (first_rec is None or pos[id(adds[0])] < first_rec) and (not tests or pos[id(tests[0])] < pos[id(adds[0])])
        if not g2:
            problems.append(("G2", "`%s` is not extended between the test and the recursive call" % name, f.get("line")))
        g3 = True
        if adds:
            a = pos[id(adds[0])]
            after = [d for d in dels if pos[id(d)] > (first_rec if first_rec is not None else a)]
            # the pop must be a statement of the function's top block (unconditional)
            top = f["body"].get("stmts", []) if f["body"].get("k") == "Block" else []
            top_exprs = [s.get("e") for s in top if s.get("s") in ("Semi", "Expr")]
            uncond = [d for d in after if any(d is e for e in top_exprs)]
            early_ok = [r for r in ok_rets if pos[id(r)] > a and (not uncond or pos[id(r)] < pos[id(uncond[-1])])]
            if not after:
                g3 = False
                problems.append(("G3", "`%s` is extended but never shortened again on the normal exit: a second, non-recursive "
                                 "mention of the same key is refused as recursion" % name, adds[0].get("ln")))
            elif not uncond:
                raise BrokenCheck("guards: %s shortens `%s` only inside a conditional; shape not recognised" % (f["path"], name))
            elif early_ok:
                g3 = False
                problems.append(("G3", "an `Ok` return between push and pop leaves `%s` extended" % name, early_ok[0].get("ln")))
        # G5: leaving one level removes exactly that level: clear() / truncate() / retain() also forget the ancestors that are
        # still being expanded, so a later reference back to one of them is not recognised as recursion
        if wipes and recs:
            problems.append(("G5", "`%s` is emptied (%s) while enclosing expansions are still in progress: a later reference to an "
                             "ancestor is not seen as recursion" % (name, wipes[0]["m"]), wipes[0].get("ln")))
            if not dels:
                dels = list(wipes)      # do not report the missing pop a second time
        # G4: every call back into the recursion hands on this collection; a member of the cycle that starts a fresh one
        # (`&mut vec![]`) forgets the path walked so far
        for rc in recs:
            args = ([rc.get("recv")] + rc.get("args", [])) if rc.get("k") == "MethodCall" else rc.get("args", [])
            if not any(_root_local(a)[1] == lid for a in args if isinstance(a, dict)):
                problems.append(("G4", "a recursive call does not pass `%s` on: the callee starts with an empty collection and a cycle "
                                 "through it is never seen" % name, rc.get("ln")))
                break
        cand = {"collection": name, "g1": g1, "g2": g2, "g3": g3, "problems": problems,
                "tests": len(tests), "adds": len(adds), "dels": len(dels), "recursive_calls": len(recs)}
        if best is None or (cand["adds"], cand["tests"]) > (best["adds"], best["tests"]):
            best = cand
    return best


def rule(facts, res, rule_name, comp_fns, want=("G1", "G2", "G3", "G4", "G5"), floor=1):
    """comp_fns: functions of the recursion cycles to look at.  Reports each failed clause of `want`."""
    import e1
    st = res.rule(rule_name, instances=0)
    ids = {f["id"] for f in comp_fns}
    scc_of = {}
    for comp in e1.recursive_sccs(facts, ids):
        for x in comp:
            scc_of[x] = set(comp)
    for f in comp_fns:
        if "body" not in f:
            continue
        if f["id"] not in scc_of:
            continue        # a `seen` set in a function that does not recurse is not a recursion guard
        a = analyse(facts, f, scc_of[f["id"]])
        if a is None:
            continue
        st["instances"] += 1
        res.sample({"rule": rule_name, "fn": f["path"], "collection": a["collection"], "G1": a["g1"], "G2": a["g2"], "G3": a["g3"],
                    "tests": a["tests"], "push": a["adds"], "pop": a["dels"], "recursive_calls": a["recursive_calls"]}, limit=40)
        for code, text, ln in a["problems"]:
            if code not in want:
                continue
            res.add(Finding(rule_name, "%s|%s" % (f["path"], code), "%s: %s" % (f["path"], text), f["file"], ln, {}))
        n = len([c for c in want])
        bad = len([p for p in a["problems"] if p[0] in want])
        res.oblige(n - bad, True)
        res.oblige(bad, False)
    if st["instances"] < floor:
        # No member of the recursion carries a visited collection.  When the recursion itself is still there, the only other
        # sound guard is a depth bound (an integer compared with a limit in an `if` whose taken branch leaves the function,
        # handed on to the recursive call); a single remembered key (`origin: Option<&str>`) sees cycles through that key only.
        rec = [f for f in comp_fns if "body" in f and f["id"] in scc_of and _data_recursion(f)]
        if rec and ({"G1", "G2"} & set(want)):
            rec.sort(key=lambda f: (len(scc_of[f["id"]]), f["path"]))
            open_ = [f for f in rec if not _depth_bound(f, scc_of[f["id"]])]
            if open_ and len(open_) == len(rec):
                for f in open_[:1]:
                    st["instances"] += 1
                    res.oblige(1, False)
                    res.add(Finding(rule_name, "%s|G1" % f["path"], "%s recurses over references the input controls and neither it nor another "
                                    "member of its cycle carries a visited collection (or a depth bound): a definition cycle that does not "
                                    "pass through the remembered key recurses without bound" % f["path"], f["file"], f.get("line"), {}))
                return st
        raise BrokenCheck("%s: %d visited-set guards found (floor %d)" % (rule_name, st["instances"], floor))
    return st


def _data_recursion(f):
    """f looks up an entity by a name taken from data (`context.entity(name)`): the recursion follows the document's graph"""
    return any(n.get("k") == "MethodCall" and n.get("m") in ("entity", "get_entity", "entities") for n, _ in ordered(f["body"]))


def _depth_bound(f, self_ids):
    ints = {p.get("lid") for p in f.get("params", []) if str(p.get("ty", "")) in ("usize", "u32", "u64", "u16", "u8", "i32", "i64")}
    if not ints:
        return False
    for n, _ in ordered(f["body"]):
        if n.get("k") == "If" and _diverges(n["then"]):
            for c, _ in ordered(n["cond"]):
                if c.get("k") == "Binary" and c.get("op") in (">", ">=", "<", "<=", "==") and \
                        any(x.get("k") == "Path" and x.get("lid") in ints for x, _ in ordered(c)):
                    return True
    return False
