"""Dispatch tables of the XPath evaluator, read with enumflow: under which value of the dispatching enum is which evaluator
function reached (called, or taken as a function value), through whatever form the dispatch has - nested or flat matches,
a helper that is handed the enum, a function that returns the function."""
import enumflow
from facts import BrokenCheck

AXIS_ENTRY = "xml_xpath::eval::eval_axis_node_test"

# XPath 1.0 2.2: axis -> the evaluator function of that axis (None: the context node itself)
AXIS_FN = {
    "Ancestor": "xml_xpath::eval::ancestor", "AncestorOrSelf": "xml_xpath::eval::ancestor_and_self",
    "Attribute": "xml_xpath::eval::attributes", "Child": "xml_xpath::eval::child",
    "Descendant": "xml_xpath::eval::descendant", "DescendantOrSelf": "xml_xpath::eval::descendant_and_self",
    "Following": "xml_xpath::eval::following", "FollowingSibling": "xml_xpath::eval::following_sibling",
    "Namespace": "xml_xpath::eval::namespace", "Parent": "xml_dom::<XmlNode as Node>::parent_node",
    "Preceding": "xml_xpath::eval::preceding", "PrecedingSibling": "xml_xpath::eval::preceding_sibling",
    "Current": None,
}
AXIS_TARGETS = {v for v in AXIS_FN.values() if v}


def axis_scope(facts):
    """eval_axis_node_test and the functions of the evaluator it hands the axis to (a maintainer may split it)"""
    from facts import walk
    f = facts.fn(AXIS_ENTRY)
    out, todo = [f], [f]
    while todo and len(out) < 8:
        g = todo.pop()
        for n in walk(g["body"]):
            if n.get("k") == "Call" and n["f"].get("k") == "Path":
                h = facts.fns.get(n["f"].get("rid") or n["f"].get("id"))
                if h is not None and "body" in h and h not in out and h["path"].startswith("xml_xpath::eval::") and \
                        any("AxisSpecifier" in str(q.get("ty", "")) or "AxisName" in str(q.get("ty", "")) for q in h.get("params") or []):
                    out.append(h)
                    todo.append(h)
    return out


def _name(facts, n):
    if n.get("k") == "Call" and n.get("f", {}).get("k") == "Path":
        return None            # the callee's Path node is visited on its own
    if n.get("k") == "Binary" and "path" in n:
        return n["path"]       # overloaded operator: the trait method applied
    if n.get("k") == "MethodCall" or (n.get("k") == "Path" and n.get("res") != "Local"):
        fid = n.get("rid") or n.get("id")
        return facts.name_of(fid) if fid in facts.fns else n.get("path")
    return None


def axis_domain(facts):
    # the abbreviated step is `@` (attribute::) or empty (child::): two values of the dispatching input
    return enumflow.Domain(facts, "model::AxisSpecifier", "model::AxisName", "Name", split={"Abbreviated": ["@"]})


def axis_table(facts, is_target, rule="C05-axis"):
    """-> (domain, {axis value (AxisName variants and 'Abbreviated'): set of target names}, number of uses found)"""
    f = facts.fn(AXIS_ENTRY)
    try:
        dom = axis_domain(facts)
        hits = enumflow.Flow(dom, f).run(lambda n: bool(_name(facts, n)) and is_target(_name(facts, n)))
    except enumflow.Unknown as u:
        raise BrokenCheck("%s: %s" % (rule, u))
    seen = {v: set() for v in dom.universe}
    for n, s_ in hits:
        for v in s_:
            seen[v].add(_name(facts, n))
    return dom, seen, len(hits)


def table(facts, f, enum_suffix, is_target, rule, exact_type=None):
    """-> {variant of the (single-level) enum: set of target names reached under it} for function f and the helpers it hands the
    enum to"""
    try:
        lf = None
        if exact_type:
            lf = lambda ty: "outer" if ty.replace("&mut ", "").replace("&", "").strip() == exact_type else None
        dom = enumflow.Domain(facts, enum_suffix, level_fn=lf)
        hits = enumflow.Flow(dom, f).run(lambda n: bool(_name(facts, n)) and is_target(_name(facts, n)))
    except enumflow.Unknown as u:
        raise BrokenCheck("%s: %s" % (rule, u))
    seen = {v: set() for v in dom.universe}
    for n, s_ in hits:
        for v in s_:
            seen[v].add(_name(facts, n))
    return seen, len(hits)


def node_kind_domain(facts):
    """XmlNode (outer) and NodeType (an inner value computed from it by node_type()); type names are printed relative to the
    crate they are used in"""
    def lf(ty):
        t = ty.replace("&mut ", "").replace("&", "").strip()
        if t in ("xml_dom::XmlNode", "XmlNode", "dom::XmlNode"):
            return "outer"
        if t in ("xml_dom::NodeType", "NodeType", "dom::NodeType"):
            return "inner"
        return None
    return enumflow.Domain(facts, "xml_dom::XmlNode", "xml_dom::NodeType", None, level_fn=lf)
