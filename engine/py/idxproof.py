"""A9 - an index that is the counter of `enumerate()` over the indexed sequence (typed tree).

    for (i, x) in BASE.iter().enumerate() { .. BASE[i] .. BASE[..i] .. BASE[i..] .. }

`BASE.iter()` keeps a shared borrow of BASE for the whole loop, so its length cannot change while the loop runs, and the
counter satisfies i < len: `BASE[i]` is in bounds and so are the range forms (i <= len).  BASE must be a place (a local or
a field path off a local; no call in it), and the counter an immutable binding.

Inter-procedural form: a non-public function  fn g(xs: &[T] | &Vec<T>, index: usize)  that indexes `xs` by `index`
(both immutable parameters) is discharged when the function is only ever *called* (never taken as a value), and every
call in the workspace passes (BASE, i) related as above.
"""
from facts import walk


def place_key(e):
    n = 0
    while isinstance(e, dict) and n < 12:
        n += 1
        k = e.get("k")
        if k in ("AddrOf", "Cast") or (k == "Unary" and e.get("op") == "*"):
            e = e["a"]
            continue
        if k == "MethodCall" and e.get("m") in ("as_slice", "as_ref", "deref", "borrow") and not e.get("args") \
                and "RefCell" not in str(e.get("recvty", "")) and "Rc<" not in str(e.get("recvty", "")):
            e = e["recv"]
            continue
        if k == "Path" and e.get("res") == "Local":
            return ("L", e["lid"])
        if k == "Field":
            b = place_key(e["a"])
            return None if b is None else b + (e["name"],)
        return None
    return None


def enumerate_loops(f):
    """-> {counter lid: place key of the sequence iterated}"""
    out = {}
    for n in walk(f.get("body")):
        if n.get("k") != "Match" or n.get("src") != "ForLoop":
            continue
        sc = n.get("scrut", {})
        it = sc["args"][0] if sc.get("k") == "Call" and sc.get("args") else None
        if not (isinstance(it, dict) and it.get("k") == "MethodCall" and it.get("m") == "enumerate"):
            continue
        src = it.get("recv", {})
        if not (src.get("k") == "MethodCall" and src.get("m") in ("iter", "iter_mut") and not src.get("args")):
            continue
        base = place_key(src["recv"])
        if base is None:
            continue
        for m in walk(n["arms"]):
            if m.get("k") == "Match" and m.get("src") == "ForLoop":
                for arm in m["arms"]:
                    pp = arm["pat"]
                    if pp.get("p") in ("TupleStruct", "Struct") and str(pp.get("path", "")).endswith("Some"):
                        subs = pp.get("pats") or [x["pat"] for x in pp.get("fields", [])]
                        tup = subs[0] if subs else None
                        if tup and tup.get("p") == "Tuple" and tup.get("pats"):
                            c = tup["pats"][0]
                            if c.get("p") == "Bind" and not c.get("mut") and "sub" not in c:
                                out[c["lid"]] = base
                break
    return out


def _index_local(ix):
    """the local used as `[i]` (strict) or in `[..i]` / `[i..]` (non-strict) -> (lid, strict) or None"""
    if ix.get("k") == "Path" and ix.get("res") == "Local":
        return ix["lid"], True
    if ix.get("k") == "Struct" and str(ix.get("path", "")) in ("std::ops::RangeTo", "std::ops::RangeFrom") and len(ix.get("fields", [])) == 1:
        e = ix["fields"][0]["e"]
        if e.get("k") == "Path" and e.get("res") == "Local":
            return e["lid"], False
    return None


def _param_index(f, lid):
    for i, p in enumerate(f.get("params") or []):
        if p.get("p") == "Bind" and p.get("lid") == lid and not p.get("mut") and not p.get("byref"):
            return i, p
    return None, None


def _assigned(f, lid):
    for n in walk(f.get("body")):
        if n.get("k") in ("Assign", "AssignOp"):
            l = n.get("l") or n.get("a")
            if isinstance(l, dict) and l.get("k") == "Path" and l.get("lid") == lid:
                return True
    return False


def callers(facts, fid):
    """-> (call nodes with their function records, number of non-call mentions)"""
    calls, mentions = [], 0
    for g in facts.fns.values():
        if "body" not in g:
            continue
        for n in walk(g["body"]):
            if n.get("k") == "Call" and (n["f"].get("rid") or n["f"].get("id")) == fid and n["f"].get("k") == "Path":
                calls.append((g, n))
                mentions -= 1
            if n.get("k") == "Path" and (n.get("rid") or n.get("id")) == fid:
                mentions += 1
    return calls, mentions


def proof(facts, f, line):
    """Reason string when every Index expression of f on `line` is an enumerate-counter index, else None."""
    if "body" not in f or line is None:
        return None
    idx = [n for n in walk(f["body"]) if n.get("k") == "Index" and n.get("ln") == line]
    if not idx:
        return None
    loops = enumerate_loops(f)
    how = set()
    for n in idx:
        il = _index_local(n["i"])
        base = place_key(n["a"])
        if il is None or base is None:
            return None
        lid, _strict = il
        if lid in loops and loops[lid] == base:
            how.add("counter of enumerate() over the same sequence")
            continue
        # inter-procedural: (xs, index) are immutable parameters of a private function
        pi, pp = _param_index(f, lid)
        bi, bp = _param_index(f, base[1]) if len(base) == 2 else (None, None)
        if pi is None or bi is None or _assigned(f, lid) or _assigned(f, base[1]):
            return None
        if not str(bp.get("ty", "")).startswith("&") or str(bp.get("ty", "")).startswith("&mut"):
            return None
        if not str(f.get("vis", "")).startswith("Restricted"):
            return None     # a public function can be called from outside the workspace with any index
        calls, mentions = callers(facts, f["id"])
        if not calls or mentions != 0:
            return None
        for g, c in calls:
            args = c.get("args", [])
            if max(pi, bi) >= len(args):
                return None
            a_idx, a_base = args[pi], place_key(args[bi])
            if not (a_idx.get("k") == "Path" and a_idx.get("res") == "Local") or a_base is None:
                return None
            gl = enumerate_loops(g)
            if gl.get(a_idx["lid"]) != a_base:
                return None
        how.add("parameter pair (sequence, index) that every one of the %d call sites fills with a sequence and the counter of "
                "enumerate() over it" % len(calls))
    return "A9: index is the " + "; ".join(sorted(how))


# ------------------------------------------------------------------------------------------
# A10 - an index clamped to the length of the very vector it is used on

def _is_len_of(e, base):
    return isinstance(e, dict) and e.get("k") == "MethodCall" and e.get("m") == "len" and not e.get("args") and place_key(e["recv"]) == base


def _tail(e):
    while isinstance(e, dict) and e.get("k") == "Block" and not e.get("stmts") and "expr" in e:
        e = e["expr"]
    return e


def _is_min_fn(g):
    """g(a, b) returns min(a, b): `if a < b { a } else { b }` in its variants, a.min(b), cmp::min(a, b)"""
    ps = [q for q in (g.get("params") or []) if q.get("p") == "Bind" and not q.get("mut")]
    if len(ps) != 2 or len(g.get("params") or []) != 2 or "body" not in g:
        return False
    la, lb = ps[0]["lid"], ps[1]["lid"]
    e = _tail(g["body"])

    def loc(x):
        x = _tail(x)
        return x.get("lid") if x.get("k") == "Path" and x.get("res") == "Local" else None
    if e.get("k") == "If" and "else" in e and e["cond"].get("k") == "Binary":
        c = e["cond"]
        x, y, t, f = loc(c["a"]), loc(c["b"]), loc(e["then"]), loc(e["else"])
        if {x, y} != {la, lb} or None in (x, y, t, f):
            return False
        if c["op"] in ("<", "<="):
            return t == x and f == y
        if c["op"] in (">", ">="):
            return t == y and f == x
        return False
    if e.get("k") == "MethodCall" and e.get("m") == "min" and len(e.get("args", [])) == 1:
        return {loc(e["recv"]), loc(e["args"][0])} == {la, lb}
    if e.get("k") == "Call" and str(e["f"].get("path", "")).endswith("cmp::min") and len(e.get("args", [])) == 2:
        return {loc(e["args"][0]), loc(e["args"][1])} == {la, lb}
    return False


def _clamped(init, base, facts=None):
    """init evaluates to something <= BASE.len():  if x < BASE.len() { x } else { BASE.len() }  (also <=),
    x.min(BASE.len()), cmp::min(x, BASE.len()) in either order"""
    init = _tail(init)
    if init.get("k") == "If" and "else" in init:
        c = init["cond"]
        t, e = _tail(init["then"]), _tail(init["else"])
        if c.get("k") == "Binary" and c.get("op") in ("<", "<=") and _is_len_of(c["b"], base) and _is_len_of(e, base) \
                and t.get("k") == "Path" and c["a"].get("k") == "Path" and t.get("lid") == c["a"].get("lid") and t.get("lid") is not None:
            return True
        if c.get("k") == "Binary" and c.get("op") in (">", ">=") and _is_len_of(c["b"], base) and _is_len_of(t, base) \
                and e.get("k") == "Path" and c["a"].get("k") == "Path" and e.get("lid") == c["a"].get("lid") and e.get("lid") is not None:
            return True
        return False
    if init.get("k") == "MethodCall" and init.get("m") == "min" and len(init.get("args", [])) == 1:
        return _is_len_of(init["args"][0], base) or _is_len_of(init["recv"], base)
    if init.get("k") == "Call" and str(init["f"].get("path", "")).endswith("cmp::min") and len(init.get("args", [])) == 2:
        return any(_is_len_of(a, base) for a in init["args"])
    if facts is not None and init.get("k") == "Call" and init["f"].get("k") == "Path" and len(init.get("args", [])) == 2:
        g = facts.fns.get(init["f"].get("rid") or init["f"].get("id"))
        if g is not None and _is_min_fn(g):
            return any(_is_len_of(a, base) for a in init["args"])
    return False


def clamp_proof(facts, f, line):
    """`V.split_off(at)` / `V.insert(at, ..)` / `V.drain(..at)` on `line`, where `at` is an immutable local initialised by a
    clamp to V.len() in the same block, and no statement between the two mentions V (its length is unchanged)."""
    if "body" not in f or line is None:
        return None
    sites = [n for n in walk(f["body"]) if n.get("k") == "MethodCall" and n.get("ln") == line and n.get("m") in ("split_off", "insert")
             and n.get("args")]
    if not sites:
        return None
    for site in sites:
        base = place_key(site["recv"])
        a = site["args"][0]
        if base is None or not (a.get("k") == "Path" and a.get("res") == "Local"):
            return None
        found = False
        for b in walk(f["body"]):
            if b.get("k") != "Block":
                continue
            stmts = b.get("stmts", [])
            for i, s in enumerate(stmts):
                if s.get("s") == "Let" and s.get("pat", {}).get("p") == "Bind" and s["pat"].get("lid") == a["lid"] \
                        and not s["pat"].get("mut") and "init" in s and _clamped(s["init"], base, facts):
                    # the statement holding the site, and nothing in between touches the vector
                    for j in range(i + 1, len(stmts) + 1):
                        item = stmts[j] if j < len(stmts) else ({"e": b["expr"]} if "expr" in b else None)
                        if item is None:
                            break
                        if any(m is site for m in walk(item)):
                            found = True
                            break
                        if any(m.get("k") == "Path" and m.get("res") == "Local" and ("L", m.get("lid")) == base[:2] for m in walk(item)):
                            break
        if not found:
            return None
    return "A10: the index is clamped to the length of the same vector (min(x, len)) immediately before"


# ------------------------------------------------------------------------------------------
# A11 - a byte offset that is the position of the k-th character of the very string it is used on

def _first_component_closure(c):
    """|(at, _)| at"""
    if c.get("k") != "Closure" or len(c.get("params", [])) != 1:
        return False
    p = c["params"][0]
    while p.get("p") in ("Ref", "Deref"):
        p = p["sub"]
    if p.get("p") != "Tuple" or not p.get("pats") or p["pats"][0].get("p") != "Bind":
        return False
    b = _tail(c["body"])
    return b.get("k") == "Path" and b.get("lid") == p["pats"][0]["lid"]


def _resolve_local(f, e, depth=0):
    """follow immutable `let x = expr;` once or twice"""
    while isinstance(e, dict) and e.get("k") == "Path" and e.get("res") == "Local" and depth < 3:
        init = None
        for n in walk(f["body"]):
            if n.get("s") == "Let" and n.get("pat", {}).get("p") == "Bind" and n["pat"].get("lid") == e["lid"] and not n["pat"].get("mut") and "init" in n:
                init = n["init"]
        if init is None:
            return e
        e, depth = init, depth + 1
    return e


def _char_boundary_of(f, e, base):
    """e = BASE.char_indices().nth(k).map_or(BASE.len(), |(at, _)| at)   (or .map(|(at, _)| at).unwrap_or(BASE.len())):
    the byte position of the k-th character of BASE, or its length - always a character boundary <= len"""
    e = _resolve_local(f, e)
    if not isinstance(e, dict) or e.get("k") != "MethodCall":
        return False
    if e["m"] == "map_or" and len(e.get("args", [])) == 2:
        default, clo, src = e["args"][0], e["args"][1], e["recv"]
    elif e["m"] == "unwrap_or" and len(e.get("args", [])) == 1 and e["recv"].get("k") == "MethodCall" and e["recv"]["m"] == "map" \
            and len(e["recv"].get("args", [])) == 1:
        default, clo, src = e["args"][0], e["recv"]["args"][0], e["recv"]["recv"]
    else:
        return False
    if not _is_len_of(_resolve_local(f, default), base) or not _first_component_closure(clo):
        return False
    if not (src.get("k") == "MethodCall" and src["m"] == "nth" and src["recv"].get("k") == "MethodCall" and src["recv"]["m"] == "char_indices"):
        return False
    return place_key(src["recv"]["recv"]) == base


def boundary_sites(facts, f):
    """-> lines of `S.split_off(at)` / `S.split_at(at)` / `S.truncate(at)` whose offset is such a character boundary of S, plus the
    lines of the char_indices() / len() calls that take part in computing it (the whole idiom is character-exact although
    every single call is byte-indexed)"""
    lines = set()
    if "body" not in f:
        return lines
    for n in walk(f["body"]):
        if n.get("k") == "MethodCall" and n.get("m") in ("split_off", "split_at", "truncate") and n.get("args") and \
                "str" in str(n.get("recvty", "")).lower():
            base = place_key(n["recv"])
            if base is None or not _char_boundary_of(f, n["args"][0], base):
                continue
            # no statement between the computation and the use changes the string: both are in one block, nothing in between
            # mentions a mutating method of BASE
            lines.add(n.get("ln"))
            e = _resolve_local(f, n["args"][0])
            lns = [m.get("ln") for m in walk(e) if isinstance(m, dict) and m.get("ln")]
            if lns:
                lines |= set(range(min(lns), max(lns) + 1))      # a method chain written over several lines
            d = e["args"][0] if e["m"] == "map_or" else e["args"][0]
            if d.get("k") == "Path":
                for x in walk(f["body"]):
                    if x.get("s") == "Let" and x.get("pat", {}).get("lid") == d.get("lid"):
                        for m in walk(x["init"]):
                            if m.get("k") == "MethodCall" and m.get("m") == "len":
                                lines.add(m.get("ln"))
    lines.discard(None)
    return lines


# ---- A12: slot arithmetic of the order vector, decided on the typed tree under every value of the function's bool parameters

def _bool_params(f):
    return [p.get("lid") for p in f.get("params", []) if p.get("p") == "Bind" and str(p.get("ty")) == "bool"]


def hir_affine(e, lets, env, depth=0):
    """-> (base, offset) with base 'call:<method>' for `self.<method>(..)`, or None.  `env` maps bool locals to constants; an
    `if` on such a local is replaced by the branch taken."""
    if not isinstance(e, dict) or depth > 12:
        return None
    k = e.get("k")
    if k == "Block" and not e.get("stmts"):
        return hir_affine(e.get("expr"), lets, env, depth + 1)
    if k in ("DropTemps", "Paren", "Use"):
        return hir_affine(e.get("e") or e.get("a"), lets, env, depth + 1)
    if k == "Path" and e.get("res") == "Local":
        if e.get("lid") in lets:
            return hir_affine(lets[e["lid"]], lets, env, depth + 1)
        return None
    if k == "MethodCall" and isinstance(e.get("recv"), dict) and e["recv"].get("k") == "Path" and e["recv"].get("name") == "self":
        return ("call:" + e["m"], 0)
    if k == "Lit" and e.get("t") == "int":
        return ("const", int(e["v"]))
    if k == "Binary" and e.get("op") in ("+", "-"):
        a, b = hir_affine(e["a"], lets, env, depth + 1), hir_affine(e["b"], lets, env, depth + 1)
        if a and b and b[0] == "const":
            return (a[0], a[1] + (b[1] if e["op"] == "+" else -b[1]))
        if a and b and a[0] == "const" and e["op"] == "+":
            return (b[0], a[1] + b[1])
        return None
    if k == "If":
        c = e.get("cond")
        neg = False
        while isinstance(c, dict) and c.get("k") in ("Unary", "DropTemps"):
            if c.get("k") == "Unary" and c.get("op") == "!":
                neg = not neg
            c = c.get("a") or c.get("e")
        if isinstance(c, dict) and c.get("k") == "Path" and c.get("lid") in env:
            v = env[c["lid"]] != neg
            return hir_affine(e["then"] if v else e.get("else"), lets, env, depth + 1)
    return None


def order_slot(facts, f, line=None, method="insert"):
    """For `self.<vec>.<method>(index, ..)` in f (at `line` when given): {assignment of the bool parameters (tuple) ->
    (affine index, guarded by `<same local> > 0`)}; None when there is no such call or an index is not understood."""
    lets = {m["pat"]["lid"]: m["init"] for m in walk(f["body"])
            if m.get("s") == "Let" and m.get("pat", {}).get("p") == "Bind" and "init" in m}
    calls = [m for m in walk(f["body"]) if m.get("k") == "MethodCall" and m.get("m") == method and "Vec<" in str(m.get("recvty", ""))
             and (line is None or m.get("ln") == line) and m.get("args")]
    if len(calls) != 1:
        return None
    call = calls[0]
    # the enclosing guard: an `if x > 0` / `x != 0` / `0 < x` whose then-branch contains the call
    guard_local = None
    for n in walk(f["body"]):
        if n.get("k") == "If" and any(m is call for m in walk(n.get("then"))):
            c = n["cond"]
            while isinstance(c, dict) and c.get("k") == "DropTemps":
                c = c.get("e")
            if isinstance(c, dict) and c.get("k") == "Binary":
                a, b = c["a"], c["b"]
                if c["op"] in (">", "!=") and a.get("k") == "Path" and b.get("k") == "Lit" and str(b.get("v")) == "0":
                    guard_local = a.get("lid")
                if c["op"] == "<" and b.get("k") == "Path" and a.get("k") == "Lit" and str(a.get("v")) == "0":
                    guard_local = b.get("lid")
    bl = _bool_params(f)
    out = {}
    import itertools
    for vals in itertools.product((True, False), repeat=len(bl)):
        env = dict(zip(bl, vals))
        a = hir_affine(call["args"][0], lets, env)
        if a is None:
            return None
        g = guard_local is not None and hir_affine({"k": "Path", "res": "Local", "lid": guard_local}, lets, env) == (a[0], 0)
        out[vals] = (a, g)
    return out


def order_slot_proof(facts, f, line):
    """A12: Vec::insert at `g` or `g - 1` under the guard `g > 0`, g = self.get(id) = position + 1 or 0 (C14-4 checks get):
    g <= len and g - 1 < len, for every value of the bool parameters."""
    if f.get("impl_self") != "DocumentOrder" or "body" not in f:
        return None
    r = order_slot(facts, f, line)
    if not r:
        return None
    if all(a[0] == "call:get" and a[1] in (0, -1) and g for a, g in r.values()):
        return "A12: the index is get(id) or get(id) - 1 under the guard get(id) > 0 (get = position + 1, or 0 when absent), for every value of the function's flags"
    return None
