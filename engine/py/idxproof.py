"""A9 - an index that is the counter of `enumerate()` over the indexed sequence (typed tree).

    for (i, x) in BASE.iter().enumerate() { .. BASE[i] .. BASE[..i] .. BASE[i..] .. }

`BASE.iter()` keeps a shared borrow of BASE for the whole loop, so its length cannot change while the loop runs, and the
counter satisfies i < len: `BASE[i]` is in bounds and so are the range forms (i <= len).  BASE must be a place (a local or
a field path off a local; no call in it), and the counter an immutable binding.

Inter-procedural form: a non-public function  fn g(xs: &[T] | &Vec<T>, index: usize)  that indexes `xs` by `index`
(both immutable parameters) is discharged when the function is only ever *called* (never taken as a value), and every
call in the workspace passes (BASE, i) related as above.
"""
from facts import walk


def place_key(e):
    n = 0
    while isinstance(e, dict) and n < 12:
        n += 1
        k = e.get("k")
        if k in ("AddrOf", "Cast") or (k == "Unary" and e.get("op") == "*"):
            e = e["a"]
            continue
        if k == "MethodCall" and e.get("m") in ("as_slice", "as_ref", "deref", "borrow") and not e.get("args") \
                and "RefCell" not in str(e.get("recvty", "")) and "Rc<" not in str(e.get("recvty", "")):
            e = e["recv"]
            continue
        if k == "Path" and e.get("res") == "Local":
            return ("L", e["lid"])
        if k == "Field":
            b = place_key(e["a"])
            return None if b is None else b + (e["name"],)
        return None
    return None


def enumerate_loops(f):
    """-> {counter lid: place key of the sequence iterated}"""
    out = {}
    for n in walk(f.get("body")):
        if n.get("k") != "Match" or n.get("src") != "ForLoop":
            continue
        sc = n.get("scrut", {})
        it = sc["args"][0] if sc.get("k") == "Call" and sc.get("args") else None
        if not (isinstance(it, dict) and it.get("k") == "MethodCall" and it.get("m") == "enumerate"):
            continue
        src = it.get("recv", {})
        if not (src.get("k") == "MethodCall" and src.get("m") in ("iter", "iter_mut") and not src.get("args")):
            continue
        base = place_key(src["recv"])
        if base is None:
            continue
        for m in walk(n["arms"]):
            if m.get("k") == "Match" and m.get("src") == "ForLoop":
                for arm in m["arms"]:
                    pp = arm["pat"]
                    if pp.get("p") in ("TupleStruct", "Struct") and str(pp.get("path", "")).endswith("Some"):
                        subs = pp.get("pats") or [x["pat"] for x in pp.get("fields", [])]
                        tup = subs[0] if subs else None
                        if tup and tup.get("p") == "Tuple" and tup.get("pats"):
                            c = tup["pats"][0]
                            if c.get("p") == "Bind" and not c.get("mut") and "sub" not in c:
                                out[c["lid"]] = base
                break
    return out


def _index_local(ix):
    """the local used as `[i]` (strict) or in `[..i]` / `[i..]` (non-strict) -> (lid, strict) or None"""
    if ix.get("k") == "Path" and ix.get("res") == "Local":
        return ix["lid"], True
    if ix.get("k") == "Struct" and str(ix.get("path", "")) in ("std::ops::RangeTo", "std::ops::RangeFrom") and len(ix.get("fields", [])) == 1:
        e = ix["fields"][0]["e"]
        if e.get("k") == "Path" and e.get("res") == "Local":
            return e["lid"], False
    return None


def _param_index(f, lid):
    for i, p in enumerate(f.get("params") or []):
        if p.get("p") == "Bind" and p.get("lid") == lid and not p.get("mut") and not p.get("byref"):
            return i, p
    return None, None


def _assigned(f, lid):
    for n in walk(f.get("body")):
        if n.get("k") in ("Assign", "AssignOp"):
            l = n.get("l") or n.get("a")
            if isinstance(l, dict) and l.get("k") == "Path" and l.get("lid") == lid:
                return True
    return False


def callers(facts, fid):
    """-> (call nodes with their function records, number of non-call mentions)"""
    calls, mentions = [], 0
    for g in facts.fns.values():
        if "body" not in g:
            continue
        for n in walk(g["body"]):
            if n.get("k") == "Call" and (n["f"].get("rid") or n["f"].get("id")) == fid and n["f"].get("k") == "Path":
                calls.append((g, n))
                mentions -= 1
            if n.get("k") == "Path" and (n.get("rid") or n.get("id")) == fid:
                mentions += 1
    return calls, mentions


def proof(facts, f, line):
    """Reason string when every Index expression of f on `line` is an enumerate-counter index, else None."""
    if "body" not in f or line is None:
        return None
    idx = [n for n in walk(f["body"]) if n.get("k") == "Index" and n.get("ln") == line]
    if not idx:
        return None
    loops = enumerate_loops(f)
    how = set()
    for n in idx:
        il = _index_local(n["i"])
        base = place_key(n["a"])
        if il is None or base is None:
            return None
        lid, _strict = il
        if lid in loops and loops[lid] == base:
            how.add("counter of enumerate() over the same sequence")
            continue
        # inter-procedural: (xs, index) are immutable parameters of a private function
        pi, pp = _param_index(f, lid)
        bi, bp = _param_index(f, base[1]) if len(base) == 2 else (None, None)
        if pi is None or bi is None or _assigned(f, lid) or _assigned(f, base[1]):
            return None
        if not str(bp.get("ty", "")).startswith("&") or str(bp.get("ty", "")).startswith("&mut"):
            return None
        if not str(f.get("vis", "")).startswith("Restricted"):
            return None     # a public function can be called from outside the workspace with any index
        calls, mentions = callers(facts, f["id"])
        if not calls or mentions != 0:
            return None
        for g, c in calls:
            args = c.get("args", [])
            if max(pi, bi) >= len(args):
                return None
            a_idx, a_base = args[pi], place_key(args[bi])
            if not (a_idx.get("k") == "Path" and a_idx.get("res") == "Local") or a_base is None:
                return None
            gl = enumerate_loops(g)
            if gl.get(a_idx["lid"]) != a_base:
                return None
        how.add("parameter pair (sequence, index) that every one of the %d call sites fills with a sequence and the counter of "
                "enumerate() over it" % len(calls))
    return "A9: index is the " + "; ".join(sorted(how))
