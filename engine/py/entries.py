"""Entry-point sets shared by the panic / effect rules."""

MUT_TRAITS = ("xml_dom::NodeMut", "xml_dom::ElementMut", "xml_dom::AttrMut", "xml_dom::CharacterDataMut",
              "xml_dom::TextMut", "xml_dom::ProcessingInstructionMut", "xml_dom::NamedNodeMapMut",
              "xml_dom::DocumentMut", "xml_dom::CommentMut", "xml_dom::CDataSectionMut")
CHARDATA_TRAITS = ("xml_dom::CharacterData", "xml_dom::CharacterDataMut", "xml_dom::TextMut")
PRINT_TRAITS = ("std::fmt::Display", "xml_info::IndentedDisplay", "xml_dom::PrettyPrint")


def by_traits(facts, traits, crates=("xml_dom",)):
    out = []
    for f in facts.fns.values():
        if f["crate"] not in crates:
            continue
        if f.get("impl_trait") in traits or f.get("in_trait") in traits:
            out.append(f["id"])
    return sorted(out)


INFO_ACCESSOR_TRAITS = ("xml_info::Document", "xml_info::Element", "xml_info::Attribute", "xml_info::ProcessingInstruction",
                        "xml_info::UnexpandedEntityReference", "xml_info::Character", "xml_info::Comment",
                        "xml_info::DocumentTypeDeclaration", "xml_info::UnparsedEntity", "xml_info::Notation", "xml_info::Namespace")


def c03(facts):
    # parse, build, print - and the accessors of the information set (its properties are computed on demand:
    # [unparsed entities], [references], [notation] ... are part of "information-set construction")
    roots = by_traits(facts, INFO_ACCESSOR_TRAITS, crates=("xml_info",))
    for f in facts.fns.values():
        p = f["path"]
        if f["crate"] == "xml_parser" and f.get("vis") == "Public" and f["kind"] == "Fn" and "::model::" not in p:
            roots.append(f["id"])
        elif p in ("xml_info::XmlDocument::new", "xml_dom::XmlDocument::from_raw",
                   "xml_dom::XmlDocument::from_raw_with_context"):
            roots.append(f["id"])
        elif f.get("impl_trait") in PRINT_TRAITS and f["crate"] in ("xml_info", "xml_dom") and not f.get("derived"):
            roots.append(f["id"])
    return sorted(roots)


def c06(facts):
    return [facts.fn(p)["id"] for p in ("xml_xpath::query", "xml_xpath::expr::parse", "xml_xpath::eval::document")]


def c13(facts):
    return by_traits(facts, MUT_TRAITS)


def c16(facts):
    return by_traits(facts, CHARDATA_TRAITS)


def c17(facts):
    return [facts.fn("xe::main")["id"], facts.fn("xq::main")["id"]]
