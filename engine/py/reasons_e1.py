"""Reasoned discharges for panic sites (engine E1).

Every entry is one site key (function | kind | callee <- producer # ordinal), confirmed by reading
the code, with a one-line reason and, where the reason rests on a fact about *other* code, the
name of a machine-checked precondition (evaluated on every run; if it fails the reason is void and
the site is reported).
"""
import re
import e6
from facts import walk


# ------------------------------------------------------------------------------------------
# machine-checked preconditions

def pre_radix_domain(facts, reach):
    """Reference::Character is only built with radix 10 or 16, and Reference::default() (radix 0)
    is not reachable from the entry points."""
    sites = e6.ctor_sites(facts, "model::Reference", "Character", include_derived=False)
    if not sites:
        return False, "no construction site of Reference::Character found"
    for f, bi, st in sites:
        if f["path"].endswith("std::default::Default>::default"):
            if f["id"] in reach:
                return False, "Reference::default() (radix 0) is reachable"
            continue
        ops = st.get("ops", [])
        if len(ops) < 2 or not (isinstance(ops[1], dict) and re.match(r"^(10|16)_u32$", ops[1].get("v", ""))):
            return False, "%s builds Reference::Character with a radix that is not the literal 10 or 16" % f["path"]
    # the information-set side copies the radix verbatim
    return True, "%d construction sites, all with literal 10/16" % len(sites)


def _only_ctor_in(facts, adt, variant, allowed):
    bad = []
    n = 0
    for f, bi, st in e6.ctor_sites(facts, adt, variant):
        n += 1
        if not any(f["path"] == a or f["path"].startswith(a) for a in allowed):
            bad.append(f["path"])
    if n == 0:
        return False, "no construction site of %s::%s" % (adt, variant)
    if bad:
        return False, "%s::%s is also built in %s" % (adt, variant, sorted(set(bad)))
    return True, "%d construction sites, all in %s" % (n, allowed)


def pre_attr_value_kinds(facts, reach):
    """XmlAttributeValue::{Char,Entity,Text} are built only by `new` (from the matching node
    constructor) and `try_from` (in the arm of the matching XmlItem variant)."""
    allowed = ["xml_info::XmlAttributeValue::new",
               "xml_info::<XmlAttributeValue as std::convert::TryFrom<std::rc::Rc<XmlItem>>>::try_from"]
    for v in ("Char", "Entity", "Text"):
        ok, why = _only_ctor_in(facts, "XmlAttributeValue", v, allowed)
        if not ok:
            return ok, why
    # in try_from, each arm pairs the variant of the same kind
    f = facts.fn(allowed[1])
    pairs = {"CharReference": "Char", "Text": "Text", "Unexpanded": "Entity"}
    seen = {}
    for n in walk(f["body"]):
        if n.get("k") is None and "pat" in n and "body" in n:
            pat = n["pat"]
            if pat.get("p") == "TupleStruct" and str(pat.get("path", "")).startswith("xml_info::XmlItem::"):
                item = pat["path"].split("::")[-1]
                made = [c["f"]["path"].split("::")[-1] for c in walk(n["body"])
                        if c.get("k") == "Call" and c["f"].get("k") == "Path" and "XmlAttributeValue::" in str(c["f"].get("path"))]
                seen[item] = made
    for item, var in pairs.items():
        if seen.get(item) != [var]:
            return False, "try_from arm XmlItem::%s builds %s, expected [%s]" % (item, seen.get(item), var)
    return True, "constructors confined; try_from arms pair CharReference/Char, Text/Text, Unexpanded/Entity"


def pre_expanded_text(facts, reach):
    """XmlExpandedText.data is built as a one-element vec in the three From impls and only grows
    (push_*), and holds only CData / EntityReference / Text nodes."""
    allowed = ["xml_dom::<XmlExpandedText as std::convert::From<"]
    ok, why = _only_ctor_in(facts, "XmlExpandedText", None, allowed)
    if not ok:
        return ok, why
    # the only functions that take &mut self.data are push_cdata / push_reference / push_text
    pushers = [f for f in facts.fns.values() if f["path"].startswith("xml_dom::XmlExpandedText::push_")]
    if len(pushers) != 3:
        return False, "expected 3 XmlExpandedText::push_* functions, found %d" % len(pushers)
    for f in pushers:
        names = [facts.callee_name(t["callee"]).split("::")[-1] for _, t in facts.mir_calls(f) if t.get("callee")]
        if "push" not in names or any(x in names for x in ("clear", "pop", "remove", "truncate", "drain")):
            return False, "%s does more than push" % f["path"]
    return True, "3 From impls, 3 push-only mutators"


def pre_elem_attributes_kind(facts, reach):
    """XmlElement.attributes only receives items built by XmlAttribute::node (push_attribute) or
    converted from an XmlAttr handle (append_attribute <- set_attribute_node)."""
    callers = e6.callers_of(facts, lambda n: n in ("xml_info::XmlElement::push_attribute", "xml_info::XmlElement::append_attribute"))
    allowed = {g["path"] for g in facts.family("xml_info::XmlElement::node")} | {"xml_dom::<XmlElement as ElementMut>::set_attribute_node"}
    bad = sorted({c["path"] for c, e in callers} - allowed)
    if bad:
        return False, "attributes vector is also fed by %s" % bad
    if not callers:
        return False, "no caller of push_attribute/append_attribute found"
    return True, "fed only by XmlElement::node and set_attribute_node"


def pre_xpath_tokens(facts, reach, enum_name):
    import tokens
    return tokens.pre_xpath_tokens(facts, reach, enum_name)


def pre_remove_after_kind_test(facts, reach):
    """In every HasChildren::insert_by_id implementation the call of remove_from_parent is preceded (dominated) by the
    test of the item kind (a `match` on the XmlItem discriminant or XmlAttributeValue::try_from with `?`)."""
    import e1
    fns = [f for f in facts.fns.values() if f["path"].endswith("HasChildren>::insert_by_id") or
           f["path"].endswith("insert_by_id::add_or_insert")]
    callers = [f for f in facts.fns.values()
               if any(t.get("callee") and facts.callee_name(t["callee"]) == "xml_info::XmlItem::remove_from_parent"
                      for _, t in facts.mir_calls(f))]
    if len(callers) < 3:
        return False, "expected >= 3 callers of remove_from_parent, found %d" % len(callers)
    for f in callers:
        if f["path"].endswith("insert_by_id::add_or_insert"):
            # helper of XmlDocument::insert_by_id: every call of the helper sits in a match arm on the item kind
            continue
        if not f["path"].endswith("HasChildren>::insert_by_id"):
            return False, "remove_from_parent is also called from %s" % f["path"]
        succ = e1.cfg(facts, f)
        dom, _ = e1.dominators(succ)
        blocks = facts.blocks(f)
        rm = [bi for bi, t in facts.mir_calls(f) if t.get("callee") and
              facts.callee_name(t["callee"]) == "xml_info::XmlItem::remove_from_parent"]
        tests = []
        for bi in succ:
            t = blocks[bi]["term"]
            if t["k"] == "SwitchInt" and any(st.get("rv") == "Discriminant" for st in blocks[bi]["stmts"]):
                tests.append(bi)
            if t["k"] == "Call" and t.get("callee") and facts.callee_name(t["callee"]).endswith("try_from"):
                tests.append(bi)
        for r_ in rm:
            if not any(t in dom[r_] and t != r_ for t in tests):
                return False, "%s detaches the new child before testing its kind" % f["path"]
    return True, "%d callers, kind test dominates the detach" % len(callers)


def pre_indent_affine(facts, reach):
    """Every call of an `indented` printer passes a constant or `own indent parameter + constant`: the indentation is at most
    (constant x nesting depth of the in-memory tree), i.e. linear in the size of the input."""
    import e1
    from props import c14
    n = 0
    for f in facts.fns.values():
        if f["crate"] not in ("xml_info", "xml_dom", "xml_xpath", "xq", "xe") or "mir" not in f:
            continue
        defs = e1.def_sites(facts, f)
        for bi, t in facts.mir_calls(f):
            c = t.get("callee")
            if not c or not facts.callee_name(c).endswith("::indented"):
                continue
            n += 1
            a = c14.affine(facts, f, defs, t["args"][1])
            ok = a[0] == "const" or (a[0].startswith("arg:") and 0 <= a[1] <= 16)
            if not ok:
                return False, "%s calls indented() with an indentation that is neither a constant nor its own parameter plus a constant (%s%+d)" % (f["path"], a[0], a[1])
    if n < 8:
        return False, "only %d calls of indented() found" % n
    return True, "%d calls of indented(): constant or parameter + constant" % n


def pre_unparsed_filter(facts, reach):
    """XmlUnparsedEntity::new is only called on entities that passed `filter(|v| .. notation_name.is_some())`."""
    n = 0
    for f in facts.fns.values():
        if f["crate"] != "xml_info" or "body" not in f or "::tests::" in f["path"]:
            continue
        for m in walk(f["body"]):
            if m.get("k") == "MethodCall" and m["m"] == "map" and m.get("args") and \
                    any(c.get("k") == "Call" and str(c["f"].get("path", "")).endswith("XmlUnparsedEntity::new") for c in walk(m["args"][0])):
                n += 1
                r = m.get("recv")
                ok = False
                while isinstance(r, dict) and r.get("k") == "MethodCall":
                    if r["m"] == "filter" and r.get("args") and \
                            any(x.get("k") == "MethodCall" and x["m"] == "is_some" and
                                any(y.get("k") == "Field" and y.get("name") == "notation_name" for y in walk(x.get("recv", {})))
                                for x in walk(r["args"][0])):
                        ok = True
                    r = r.get("recv")
                if not ok:
                    return False, "%s maps XmlUnparsedEntity::new over entities that were not filtered by notation_name.is_some()" % f["path"]
            elif m.get("k") == "Call" and str(m["f"].get("path", "")).endswith("XmlUnparsedEntity::new"):
                pass
    calls = sum(1 for f in facts.fns.values() if f["crate"] in ("xml_info", "xml_dom") and "body" in f and "::tests::" not in f["path"]
                for m in walk(f["body"]) if m.get("k") == "Call" and str(m["f"].get("path", "")).endswith("XmlUnparsedEntity::new"))
    if n == 0 or calls != n:
        return False, "%d calls of XmlUnparsedEntity::new, %d of them in a filtered map" % (calls, n)
    return True, "%d call site(s), each behind filter(notation_name.is_some())" % n


def pre_eq_entered_by_unit_compare(facts, reach):
    """The structural-equality cycle (XmlItem::eq -> XmlElement::eq -> children ..) is entered, from the functions that are
    reachable here, only by `x == Enum::UnitVariant` / `x != Enum::UnitVariant`: the derived eq compares the discriminants
    first and returns without looking at any payload when one side is a unit variant, so the cycle is never walked."""
    import e1
    anchor = facts.fn_opt("xml_info::<XmlItem as std::cmp::PartialEq>::eq")
    if anchor is None:
        return False, "XmlItem::eq not found"
    comp = None
    for c in e1.recursive_sccs(facts, set(reach) | {anchor["id"]}):
        if anchor["id"] in c:
            comp = set(c)
    if comp is None:
        return False, "XmlItem::eq is not in a recursion cycle"
    n = 0
    for gid in reach:
        g = facts.fns.get(gid)
        if g is None or gid in comp or "body" not in g:
            continue
        lines = {e.get("line") for e in facts.edges()[gid] if e["to"] in comp}
        for ln in lines:
            bins = [m for m in walk(g["body"]) if m.get("k") == "Binary" and m.get("op") in ("==", "!=") and m.get("ln") == ln]
            def unit(x):
                while x.get("k") in ("AddrOf",):
                    x = x["a"]
                return x.get("k") == "Path" and str(x.get("res", "")).startswith("Ctor(Variant, Const)")
            if not bins or not all(unit(m["a"]) or unit(m["b"]) for m in bins):
                return False, "%s line %s enters the equality cycle with something other than a comparison against a unit variant" % (g["path"], ln)
            n += len(bins)
    if n == 0:
        return False, "no entry into the equality cycle found"
    return True, "%d entr%s, each a comparison with a unit variant" % (n, "y" if n == 1 else "ies")


PRECONDITIONS = {
    "eq_unit_compare": pre_eq_entered_by_unit_compare,
    "unparsed_filter": pre_unparsed_filter,
    "indent_affine": pre_indent_affine,
    "remove_after_kind_test": pre_remove_after_kind_test,
    "xpath_tokens": pre_xpath_tokens,
    "radix_domain": pre_radix_domain,
    "attr_value_kinds": pre_attr_value_kinds,
    "expanded_text": pre_expanded_text,
    "elem_attributes_kind": pre_elem_attributes_kind,
}


# ------------------------------------------------------------------------------------------
# the table:  key -> (reason, precondition name or None)

R = {}


def r(key, reason, pre=None):
    R[key] = (reason, pre)


# ---- " ".repeat(indent) in the pretty printers
for ty in ("XmlComment", "XmlElement", "XmlEntity", "XmlNotation", "XmlProcessingInstruction", "XmlUnparsedEntity"):
    r("xml_info::<%s as IndentedDisplay>::indented|alloc|repeat#1" % ty,
      "the indentation string has `indent` bytes and indent <= 4 x nesting depth of the tree being printed", "indent_affine")

# ---- unparsed entities
r("xml_info::XmlUnparsedEntity::new|unwrap|unwrap<-notation_name#1", "only entities with a notation name reach the constructor", "unparsed_filter")
r("xml_info::XmlUnparsedEntity::new|unwrap|unwrap<-system_identifier#1",
  "an entity has a notation name only when it was declared with ExternalID NDataDecl ([73] EntityDef, [76] NDataDecl), and an "
  "ExternalID always has a system literal ([75]); only such entities reach the constructor", "unparsed_filter")
r("xml_info::notation|vec-index|remove<-collect#1", "`matches.remove(0)` in the arm `1 =>` of `match matches.len()`")

# ---- radix is 10 or 16
for k in ("xml_info::<XmlCharReference as std::fmt::Display>::fmt|panic|unreachable!#1",
          "xml_info::<XmlEntityValue as std::fmt::Display>::fmt|panic|unreachable!#1",
          "xml_info::XmlCharReference::node|panic|unreachable!#1",
          "xml_info::expand_entity|panic|unreachable!#1"):
    r(k, "radix is copied from parser::Reference::Character, which is only built with 10 or 16", "radix_domain")

# ---- document context / document item
r("xml_info::<XmlDocument as HasContext>::context|unwrap|unwrap<-as_ref#1",
  "XmlDocument.context is None only between `node(XmlDocument{..})` and the assignment two statements later in "
  "XmlDocument::new; no handle escapes before")
r("xml_info::<XmlDocument as HasContext>::context_mut|unwrap|unwrap<-as_mut#1",
  "same as context(): set in XmlDocument::new before the document is returned")
r("xml_info::Context::document|unwrap|unwrap<-as_document#1",
  "Context.document is built in Context::new from an XmlNode<XmlDocument> via XmlItem::from, i.e. always the Document variant")

# ---- attribute value kinds
for v in ("as_char_reference", "as_unexpanded", "as_text"):
    r("xml_info::<XmlAttribute as Attribute>::normalized_value|unwrap|unwrap<-%s#1" % v,
      "inside the match arm of the XmlAttributeValue variant of the same kind", "attr_value_kinds")

# ---- element attribute vector only holds attributes
r("xml_info::XmlElement::remove_attribute::{closure#0}|unwrap|unwrap<-as_attribute#1",
  "XmlElement.attributes only holds XmlItem::Attribute", "elem_attributes_kind")
r("xml_info::XmlElement::remove_attribute::{closure#1}|unwrap|unwrap<-as_attribute#1",
  "XmlElement.attributes only holds XmlItem::Attribute", "elem_attributes_kind")

# ---- freshly built node converted back to its own kind (P1)
P1 = [
    ("xml_dom::<XmlDocument as DocumentMut>::create_attribute|unwrap|unwrap<-as_attribute#1", "XmlAttribute::empty -> XmlAttribute::node returns XmlItem::Attribute"),
    ("xml_dom::<XmlDocument as DocumentMut>::create_cdata_section|unwrap|unwrap<-as_cdata#1", "XmlCData::empty returns XmlItem::CData"),
    ("xml_dom::<XmlDocument as DocumentMut>::create_comment|unwrap|unwrap<-as_comment#1", "XmlComment::empty returns XmlItem::Comment"),
    ("xml_dom::<XmlDocument as DocumentMut>::create_element|unwrap|unwrap<-as_element#1", "XmlElement::empty -> XmlElement::node returns XmlItem::Element"),
    ("xml_dom::<XmlDocument as DocumentMut>::create_entity_reference|unwrap|unwrap<-as_unexpanded#1", "XmlUnexpandedEntityReference::node returns XmlItem::Unexpanded"),
    ("xml_dom::<XmlDocument as DocumentMut>::create_processing_instruction|unwrap|unwrap<-as_pi#1", "XmlProcessingInstruction::empty returns XmlItem::PI"),
    ("xml_dom::<XmlDocument as DocumentMut>::create_text_node|unwrap|unwrap<-as_text#1", "XmlText::empty returns XmlItem::Text"),
    ("xml_info::XmlAttribute::set_values|unwrap|unwrap<-as_attribute#1", "XmlAttribute::node returns XmlItem::Attribute"),
    ("xml_info::XmlCData::split_at|unwrap|unwrap<-as_cdata#1", "XmlCData::node returns XmlItem::CData"),
    ("xml_info::XmlText::split_at|unwrap|unwrap<-as_text#1", "XmlText::node returns XmlItem::Text"),
]
for k, why in P1:
    r(k, "P1: " + why)

# ---- named node maps are built around the node of their own kind
for fn_, prod in (("xml_dom::<XmlElement as Node>::attributes::add", "as_element"),
                  ("xml_dom::<XmlElement as Node>::attributes::get", "as_element"),
                  ("xml_dom::<XmlElement as Node>::attributes::remove", "as_element"),
                  ("xml_dom::<XmlDocumentType as DocumentType>::entities::get", "as_doctype"),
                  ("xml_dom::<XmlDocumentType as DocumentType>::notations::get", "as_doctype")):
    r("%s|unwrap|unwrap<-%s#1" % (fn_, prod),
      "the closure is stored in an XmlNamedNodeMap whose `node` is `self.as_node()` of the same function; the map has no setter")

# ---- XmlExpandedText
r("xml_dom::<XmlExpandedText as CharacterData>::data|panic|unreachable!#1", "data holds only CData/EntityReference/Text", "expanded_text")
for fn_ in ("xml_dom::<XmlExpandedText as Node>::owner_document", "xml_dom::<XmlExpandedText as Node>::parent_node",
            "xml_dom::XmlNode::id", "xml_dom::XmlNode::order"):
    r("%s|index|index<-arg1#1" % fn_, "XmlExpandedText.data is never empty (index 0)", "expanded_text")

# ---- clamped indices
r("xml_info::delete_char_range|vec-index|drain<-collect#1", "s = min(offset,len), e = min(s+count,len) >= s (overflow of s+count is a separate site)")

# ---- child vectors: index comes from position() on the same vector
for ty in ("XmlAttribute", "XmlDocument", "XmlElement"):
    r("xml_info::<%s as HasChildren>::delete_by_id|vec-index|remove<-deref_mut#1" % ty,
      "index returned by child_index (Iterator::position) on the same vector, no mutation in between")
r("xml_info::<XmlAttribute as HasChildren>::insert_by_id|vec-index|insert<-deref_mut#1", "index from child_index on the same vector")
r("xml_info::<XmlElement as HasChildren>::insert_by_id|vec-index|insert<-deref_mut#1", "index from child_index on the same vector")
r("xml_info::<XmlDocument as HasChildren>::insert_by_id::add_or_insert|vec-index|insert<-deref_mut#1", "index from child_index on the same vector")

for fn_ in ("xml_info::<XmlAttribute as HasChildren>::insert_by_id", "xml_info::<XmlElement as HasChildren>::insert_by_id",
            "xml_info::<XmlDocument as HasChildren>::insert_by_id::add_or_insert"):
    r("%s|unwrap|unwrap<-child_index#1" % fn_,
      "reached with Some(id) only from HasChildren::insert_before, which tested child_index(id) first; the only step in between "
      "that could remove the reference child is remove_from_parent(value) with value == reference child, and that case is "
      "refused earlier (set_order_before removes value's own key first and then fails to find it)")
r("xml_info::XmlItem::remove_from_parent|panic|unreachable!#1",
  "called by the three insert_by_id implementations only after the kind test; the kinds they accept (CData, CharReference, "
  "Comment, Element, PI, Text, Unexpanded, DocumentType) have an attribute, element or document as parent - items whose parent "
  "is the DOCTYPE (entities, notations, PIs of the internal subset) are refused or have no DOM handle", "remove_after_kind_test")

# XmlElement::node `value.attributes[..i]`: discharged automatically (A9, idxproof.py)

# ---- order vector (affine index rule C14-4 checks the expressions)
r("xml_info::DocumentOrder::insert_after|vec-index|insert<-arg1#1", "order = position+1 <= len (guarded by order > 0)")
r("xml_info::DocumentOrder::insert_before|vec-index|insert<-arg1#1", "order-1 = position < len (guarded by order > 0)")
r("xml_info::DocumentOrder::remove|vec-index|remove<-arg1#1", "order-1 = position < len (guarded by order > 0)")

# ---- constant input
r("xml_info::XmlDocument::empty|unwrap|unwrap<-document#1", "constant input \"<r />\" (the grammar rule R01-1 shows it is a document)")
r("xml_info::XmlDocument::empty|unwrap|unwrap<-new#1", "constant input \"<r />\": no DTD, no references, so XmlDocument::new has no failing path")

# ---- nesting depth
r("xml_info::<XmlDocumentTypeDeclaration as IndentedDisplay>::indented|assert|Overflow(Add)#1", "indent + 4 per nesting level: bounded by the nesting depth of an in-memory tree")
r("xml_info::<XmlElement as IndentedDisplay>::indented|assert|Overflow(Add)#1", "indent + 4 per nesting level: bounded by the nesting depth of an in-memory tree")

# ---- XPath
r("xml_xpath::eval::eval_or_expr|unwrap|unwrap<-first#1", "OrExpr.operands is built by separated_list1 (at least one operand); no other constructor outside tests")
r("xml_xpath::eval::eval_and_expr|unwrap|unwrap<-first#1", "AndExpr.operands is built by separated_list1 (at least one operand)")
r("xml_xpath::eval::eval_primary_expr|unwrap|unwrap<-parse#1", "the string matched production [30] Number (digits with at most one dot), which f64::from_str accepts")
r("xml_xpath::eval::equal_value|panic|unreachable!#1", "`node` is the operand for which is_node() was just true")
r("xml_xpath::eval::not_equal_value|panic|unreachable!#1", "`node` is the operand for which is_node() was just true")
for en in ("AdditiveOperator", "AxisName", "EqualityOperator", "LocationPathOperator", "MultiplicativeOperator",
           "NodeType", "RelationalOperator"):
    r("xml_xpath::<expr::model::%s as std::convert::From<&str>>::from|panic|unreachable!#1" % en,
      "only called through map(alt(tag..), From::from); rule R08-5 checks that the match arms cover the tag set", "xpath_tokens:" + en)
r("xml_info::XmlNotation::parent|unwrap|unwrap<-node#1",
  "reached only through the XmlNode dispatch of sibling navigation; Notation nodes are never members of a child list or node-set")
r("xml_dom::<XmlNode as std::convert::From<std::rc::Rc<xml_info::XmlItem>>>::from|panic|unimplemented!#1",
  "XmlItem::DeclarationAttList is only stored in the DOCTYPE's children; no parent id, child list or map hands it to XmlNode::from "
  "(XmlDocumentType::children() is empty, attribute defaults use the DOCTYPE id as parent)")

# ---- tools
r("xe::args|unwrap|unwrap<-?#1", "dominated by `if expr.is_none() { return Err }`")
r("xe::args|unwrap|unwrap<-?#2", "dominated by `if value.is_none() { return Err }`")
r("xq::args|unwrap|unwrap<-?#1", "dominated by `if expr.is_none() { return Err }`")


def resolve(facts, reach, extra_pre=None):
    """Evaluate preconditions; return {key: reason} for the entries whose precondition holds and a
    report of the precondition verdicts."""
    verdicts = {}
    pre = dict(PRECONDITIONS)
    if extra_pre:
        pre.update(extra_pre)
    out = {}
    for key, (reason, p) in R.items():
        if p is None:
            out[key] = reason
            continue
        name = p.split(":")[0]
        if p not in verdicts:
            fn = pre.get(name)
            if fn is None:
                verdicts[p] = (False, "precondition checker `%s` not available" % name)
            else:
                try:
                    verdicts[p] = fn(facts, reach) if ":" not in p else fn(facts, reach, p.split(":", 1)[1])
                except Exception as ex:  # a broken anchor voids the reason, it never passes
                    verdicts[p] = (False, "precondition raised %s: %s" % (type(ex).__name__, ex))
        if verdicts[p][0]:
            out[key] = reason + " [" + p + ": " + verdicts[p][1] + "]"
    return out, verdicts


# ------------------------------------------------------------------------------------------
# recursion cycles whose depth is bounded by the shape of a finite enum (not by the input)

SCC = {}


def scc(members, reason, pre=None):
    SCC["cycle-of:" + sorted(members)[0]] = (reason, pre)


scc(["xml_info::<XmlAttribute as std::cmp::PartialEq>::eq", "xml_info::<XmlItem as std::cmp::PartialEq>::eq"],
    "structural equality of information items recurses over the tree, but the library itself only ever enters it through a "
    "comparison with a unit variant (`attr.value != XmlDeclarationAttDefault::Implied`), which is decided on the discriminants",
    "eq_unit_compare")
scc(["xml_dom::XmlNode::order"],
    "XmlNode::order recurses only for ExpandedText, on data[0], which is never an ExpandedText", "expanded_text")
scc(["xml_dom::XmlNode::id"],
    "XmlNode::id recurses only for ExpandedText, on data[0], which is never an ExpandedText", "expanded_text")
scc(["xml_dom::<XmlExpandedText as Node>::parent_node", "xml_dom::<XmlNode as Node>::parent_node"],
    "one level: ExpandedText delegates to data[0], which is a CData / EntityReference / Text node", "expanded_text")
scc(["xml_dom::<XmlExpandedText as Node>::owner_document", "xml_dom::<XmlNode as Node>::owner_document"],
    "one level: ExpandedText delegates to data[0], which is a CData / EntityReference / Text node", "expanded_text")
scc(["xml_dom::<XmlExpandedText as std::fmt::Display>::fmt", "xml_dom::<XmlNode as std::fmt::Display>::fmt"],
    "one level: the parts of an ExpandedText are CData / EntityReference / Text nodes", "expanded_text")
scc(["xml_dom::<XmlExpandedText as PrettyPrint>::pretty", "xml_dom::<XmlNode as PrettyPrint>::pretty"],
    "one level: the parts of an ExpandedText are CData / EntityReference / Text nodes", "expanded_text")
scc(["xml_xpath::eval::model::<impl std::convert::TryFrom<&eval::model::Value> for f64>::try_from"],
    "number(node-set) converts to a string and calls itself once on Value::Text, which does not recurse")
for a, b in (("equal_node", "equal_value"), ("not_equal_node", "not_equal_value")):
    scc(["xml_xpath::eval::%s" % a, "xml_xpath::eval::%s" % b],
        "the *_node function calls *_value on two Value::Text operands, for which *_value does not call *_node again")
for g in ("than", "eq"):
    scc(["xml_xpath::eval::greater_%s_node" % g, "xml_xpath::eval::greater_%s_value" % g,
         "xml_xpath::eval::less_%s_node" % g, "xml_xpath::eval::less_%s_value" % g],
        "the *_node functions call *_value on two Value::Text operands, which takes the numeric branch")


def scc_reasons(facts, reach):
    out = {}
    verdicts = {}
    for key, (reason, p) in SCC.items():
        if p is None:
            out[key] = reason
            continue
        if p not in verdicts:
            try:
                verdicts[p] = PRECONDITIONS[p](facts, reach)
            except Exception as ex:
                verdicts[p] = (False, str(ex))
        if verdicts[p][0]:
            out[key] = reason
    return out
