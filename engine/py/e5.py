"""E5 — typestate interpreter for node vectors: (sorted by order key, de-duplicated by order key).

Abstract value: (s, d, sdeps, ddeps): the vector is sorted iff s and every parameter in sdeps is sorted
(same for d).  TOP = (True, True, {}, {}) is also used for values that are not node vectors.
Function summaries are computed as a greatest fixpoint over the functions of xml_xpath::eval.
"""
from facts import walk, BrokenCheck

TOP = (True, True, frozenset(), frozenset())
BOT = (False, False, frozenset(), frozenset())

NEUTRAL_METHODS = {"clone", "iter", "into_iter", "enumerate", "as_value", "as_slice", "to_vec", "as_ref", "as_mut",
                   "borrow", "deref", "skip", "cloned", "to_owned", "unwrap", "expect", "unwrap_or_default"}
READ_METHODS = {"len", "is_empty", "first", "last", "get", "contains", "iter", "as_slice"}
BREAKING_METHODS = {"push", "append", "extend", "extend_from_slice", "insert", "swap", "swap_remove",
                    "rotate_left", "rotate_right", "sort", "sort_by", "sort_by_key", "sort_unstable",
                    "splice", "resize", "fill"}
# removing elements keeps a sorted vector sorted and a duplicate-free vector duplicate-free
REMOVING_METHODS = {"retain", "pop", "truncate", "remove", "drain", "dedup", "dedup_by", "dedup_by_key", "split_off",
                    "shrink_to_fit", "reserve"}


def meet(a, b):
    if a is None:
        return b
    if b is None:
        return a
    return (a[0] and b[0], a[1] and b[1], a[2] | b[2], a[3] | b[3])


def is_nodeish(ty):
    ty = ty or ""
    return "XmlNode" in ty or "model::Value" in ty


class Interp:
    def __init__(self, facts, table_fids):
        self.facts = facts
        self.summ = {}
        self.table_fids = table_fids
        self.unknown = []
        self.mut_summ = {}      # fid -> {param index: state of a `&mut Vec<XmlNode>` parameter when the function returns}

    # ------------------------------------------------------------------ summaries

    def summary(self, fid):
        return self.summ.get(fid, TOP)

    def solve(self, fns):
        for f in fns:
            self.summ[f["id"]] = TOP
            # greatest fixpoint: start from the most optimistic in-place effect as well
            self.mut_summ[f["id"]] = {i: TOP for i, p in enumerate(f.get("params") or [])
                                      if p.get("p") == "Bind" and str(p.get("ty", "")).startswith("&mut") and is_vec_type(p.get("ty"))}
        changed = True
        rounds = 0
        while changed:
            changed = False
            rounds += 1
            for f in fns:
                new = meet(self.summ[f["id"]], self.fn_value(f))
                if new != self.summ[f["id"]]:
                    self.summ[f["id"]] = new
                    changed = True
                old = self.mut_summ[f["id"]]
                upd = {i: meet(old.get(i), v) for i, v in self.cur_mut.items()}
                if upd != old:
                    self.mut_summ[f["id"]] = upd
                    changed = True
            if rounds > 50:
                raise BrokenCheck("R07-1: summaries do not converge")
        return rounds

    def fn_value(self, f):
        env = {}
        for i, p in enumerate(f.get("params") or []):
            if p.get("p") == "Bind":
                if is_nodeish(p.get("ty")):
                    env[p["lid"]] = (True, True, frozenset([i]), frozenset([i]))
                else:
                    env[p["lid"]] = TOP
        self.rets = []
        self.ret_envs = []
        self.origin = {}
        self.loopvars = {}
        v = self.ev(f["body"], env)
        out = v
        for r in self.rets:
            out = meet(out, r)
        # in-place effect on `&mut Vec<XmlNode>` parameters: their state on every way out of the function
        self.cur_mut = {}
        for i, p in enumerate(f.get("params") or []):
            if p.get("p") == "Bind" and str(p.get("ty", "")).startswith("&mut") and is_vec_type(p.get("ty")):
                st = env.get(p["lid"], TOP)
                for re_ in self.ret_envs:
                    st = meet(st, re_.get(p["lid"], TOP))
                self.cur_mut[i] = st
        return out if out is not None else TOP

    # ------------------------------------------------------------------ expressions

    def effects(self, fid, arg_exprs, args, env):
        """apply the in-place summaries of the callee to the vectors handed over by `&mut`"""
        for i, st in self.mut_summ.get(fid, {}).items():
            if i < len(arg_exprs):
                root = self._root(arg_exprs[i])
                if root is not None and root in env:
                    env[root] = self.apply_state(st, args)
                    self.origin.pop(root, None)

    def apply(self, fid, args):
        return self.apply_state(self.summary(fid), args)

    def apply_state(self, s, args):
        sv, dv = s[0], s[1]
        sd, dd = frozenset(), frozenset()
        for i in s[2]:
            a = args[i] if i < len(args) else BOT
            sv = sv and a[0]
            sd |= a[2]
        for i in s[3]:
            a = args[i] if i < len(args) else BOT
            dv = dv and a[1]
            dd |= a[3]
        return (sv, dv, sd, dd)

    def ev(self, e, env):
        k = e.get("k")
        if k == "Block":
            for s in e.get("stmts", []):
                self.stmt(s, env)
            if "expr" in e:
                return self.ev(e["expr"], env)
            return TOP
        if k == "Path":
            if e.get("res") == "Local":
                return env.get(e["lid"], TOP)
            return TOP
        if k in ("AddrOf", "Unary", "Cast", "Field"):
            return self.ev(e["a"], env)
        if k == "Lit":
            return TOP
        if k == "Ret":
            if "v" in e:
                self.rets.append(self.ev(e["v"], env))
            self.ret_envs.append(dict(env))
            return None
        if k in ("Break", "Continue"):
            return None
        if k == "If":
            self.ev_cond(e["cond"], env)
            e1 = dict(env)
            v1 = self.ev(e["then"], e1)
            e2 = dict(env)
            # `if let Value::Node(n) = v { .. } else { .. }`: in the else branch v is not a node-set
            c = e["cond"]
            if c.get("k") == "Let" and self._is_node_pat(c["pat"]):
                r = self._root(c["init"])
                if r is not None:
                    e2[r] = TOP
            v2 = self.ev(e["else"], e2) if "else" in e else TOP
            self.join_env(env, e1, e2, v1 is None and self._diverges(e["then"]), "else" in e and v2 is None and self._diverges(e["else"]))
            return meet(v1, v2)
        if k == "Match":
            src = e.get("src")
            if src == "Try":
                # `x?`: value of the Continue arm = x
                sc = e["scrut"]
                inner = sc["args"][0] if sc.get("k") == "Call" and sc["args"] else sc
                return self.ev(inner, env)
            if src == "ForLoop":
                return self.for_loop(e, env)
            sv = self.ev(e["scrut"], env)
            envs, vals, div = [], [], []
            scr_root = self._root(e["scrut"])
            for ai, arm in enumerate(e["arms"]):
                ae = dict(env)
                if scr_root is not None and self._is_scalar_pat(arm["pat"]):
                    ae[scr_root] = TOP
                self.bind_pat(arm["pat"], sv if not self._is_scalar_pat(arm["pat"]) else TOP, ae)
                # `(Value::Node(n), true) => .., (value, true) => ..`: the second arm only sees values that are not node-sets
                for lid in self._bound_after_node_arm(e["arms"], ai):
                    ae[lid] = TOP
                v = self.ev(arm["body"], ae)
                envs.append(ae)
                vals.append(v)
                div.append(v is None and self._diverges(arm["body"]))
            live = [x for x, d in zip(envs, div) if not d] or envs
            for lid in list(env):
                vv = None
                for x in live:
                    vv = meet(vv, x.get(lid, TOP))
                env[lid] = vv
            out = None
            for v in vals:
                out = meet(out, v)
            return out
        if k == "Let":
            v = self.ev(e["init"], env)
            self.bind_pat(e["pat"], v, env)
            return TOP
        if k == "Loop":
            return self.ev(e["body"], env)
        if k == "Assign":
            v = self.ev(e["r"], env)
            l = e["l"]
            if l.get("k") == "Path" and l.get("res") == "Local":
                env[l["lid"]] = v if v is not None else TOP
                self.origin.pop(l["lid"], None)
            return TOP
        if k == "Closure":
            return TOP
        if k == "Tup":
            # a tuple that carries one node vector / Value stands for it (`match (value, rest.is_empty()) { (Value::Node(n), true) ..`)
            vals = [self.ev(x, env) for x in e.get("es", [])]
            nodeish = [v for x, v in zip(e.get("es", []), vals) if is_nodeish(x.get("ty")) and v is not None]
            return nodeish[0] if len(nodeish) == 1 else TOP
        if k == "Array":
            return TOP
        if k == "Binary":
            self.ev(e["a"], env)
            self.ev(e["b"], env)
            return TOP
        if k == "Struct":
            return TOP
        if k == "Call":
            return self.call(e, env)
        if k == "MethodCall":
            return self.method(e, env)
        return TOP

    def ev_cond(self, c, env):
        # `if let PAT = init` binds in env (the then-branch sees it; harmless for else)
        if c.get("k") == "Let":
            v = self.ev(c["init"], env)
            self.bind_pat(c["pat"], v, env)
        else:
            self.ev(c, env)

    def _bound_after_node_arm(self, arms, ai):
        """lids bound in arm ai at a position where an earlier, unguarded arm already took every node-set (same literals at
        the other positions of a tuple pattern, or a plain earlier `Value::Node(..)` arm)"""
        def parts(p):
            while p.get("p") in ("Ref", "Deref"):
                p = p["sub"]
            return p["pats"] if p.get("p") == "Tuple" and "dd" not in p else [p]

        def lit(p):
            while p.get("p") in ("Ref", "Deref"):
                p = p["sub"]
            if p.get("p") == "Expr" and p["e"].get("k") == "Lit":
                return ("lit", p["e"].get("v"))
            if p.get("p") in ("Wild",) or (p.get("p") == "Bind" and "sub" not in p):
                return ("any",)
            return None
        cur = parts(arms[ai]["pat"])
        out = []
        for i, p in enumerate(cur):
            q = p
            while q.get("p") in ("Ref", "Deref"):
                q = q["sub"]
            if not (q.get("p") == "Bind" and "sub" not in q):
                continue
            for k in range(ai):
                if "guard" in arms[k]:
                    continue
                prev = parts(arms[k]["pat"])
                if len(prev) != len(cur) or not self._is_node_pat(prev[i]):
                    continue
                ok = True
                for j in range(len(cur)):
                    if j == i:
                        continue
                    a, b = lit(prev[j]), lit(cur[j])
                    if a is None or b is None or not (a == ("any",) or a == b):
                        ok = False
                if ok:
                    out.append(q["lid"])
                    break
        return out

    def _is_node_pat(self, pat):
        while pat.get("p") in ("Ref", "Deref"):
            pat = pat["sub"]
        return pat.get("p") == "TupleStruct" and str(pat.get("path", "")).endswith("model::Value::Node")

    def _is_scalar_pat(self, pat):
        while pat.get("p") in ("Ref", "Deref"):
            pat = pat["sub"]
        return pat.get("p") == "TupleStruct" and str(pat.get("path", "")).split("::")[-1] in ("Boolean", "Number", "Text") \
            and "model::Value" in str(pat.get("path", ""))

    def _diverges(self, e):
        """Does evaluation of e always leave (return / break)?  Syntactic check of the tail."""
        k = e.get("k")
        if k in ("Ret", "Break", "Continue"):
            return True
        if k == "Block":
            for s in e.get("stmts", []):
                x = s.get("e")
                if x is not None and self._diverges(x):
                    return True
            return "expr" in e and self._diverges(e["expr"])
        if k == "If":
            return "else" in e and self._diverges(e["then"]) and self._diverges(e["else"])
        return False

    def join_env(self, env, e1, e2, d1, d2):
        for lid in set(e1) | set(e2):
            a = e1.get(lid, TOP)
            b = e2.get(lid, TOP)
            if d1 and not d2:
                env[lid] = b
            elif d2 and not d1:
                env[lid] = a
            else:
                env[lid] = meet(a, b)

    def bind_pat(self, pat, v, env):
        for p in walk(pat):
            if p.get("p") == "Bind":
                env[p["lid"]] = v if (v is not None and is_nodeish(p.get("ty"))) else (TOP if not is_nodeish(p.get("ty")) else (v or TOP))

    def stmt(self, s, env):
        if s.get("s") == "Let":
            v = self.ev(s["init"], env) if "init" in s else TOP
            self.bind_pat(s["pat"], v, env)
            pat = s["pat"]
            if pat.get("p") == "Bind" and "init" in s and self._is_empty_vec(s["init"]):
                self.origin[pat["lid"]] = ("empty",)
            if "els" in s:
                self.ev(s["els"], dict(env))
        else:
            self.ev(s["e"], env)

    def _is_empty_vec(self, e):
        return e.get("k") == "Call" and e["f"].get("k") == "Path" and str(e["f"].get("path", "")).endswith("Vec::<T>::new") and not e["args"]

    def for_loop(self, e, env):
        # match into_iter(SRC) { iter => loop { match next(&mut iter) { None => break, Some(PAT) => BODY } } }
        sc = e["scrut"]
        src_expr = sc["args"][0] if sc.get("k") == "Call" and sc["args"] else sc
        src_val = self.ev(src_expr, env)
        src_root = self._root(src_expr)
        body = None
        pat = None
        for n in walk(e["arms"][0]["body"]):
            if n.get("k") == "Match" and n.get("src") == "ForLoop":
                for arm in n["arms"]:
                    pp = arm["pat"]
                    if pp.get("p") in ("Struct", "TupleStruct") and str(pp.get("path", "")).endswith("Some"):
                        body, pat = arm["body"], pp
                break
        if body is None:
            return TOP
        elem_lids = [p["lid"] for p in walk(pat) if p.get("p") == "Bind"]
        for lid in elem_lids:
            env[lid] = TOP
            self.loopvars[lid] = (src_root, src_val)
        # two passes: effects inside the loop body may feed the next iteration
        for _ in range(2):
            le = dict(env)
            self.ev(body, le)
            for lid in env:
                env[lid] = meet(env[lid], le.get(lid, TOP))
        return TOP

    def _root(self, e):
        k = e.get("k")
        if k == "Path" and e.get("res") == "Local":
            return e["lid"]
        if k in ("AddrOf", "Unary", "Field"):
            return self._root(e["a"])
        if k == "MethodCall":
            return self._root(e["recv"])
        if k == "Call" and e["args"]:
            return self._root(e["args"][0])
        return None

    def call(self, e, env):
        f = e["f"]
        args = [self.ev(a, env) for a in e["args"]]
        args = [a if a is not None else TOP for a in args]
        if f.get("k") == "Path":
            path = str(f.get("path", ""))
            last = path.split("::")[-1]
            if str(f.get("res", "")).startswith("Ctor"):
                # Ok(x) / Some(x) / Value::Node(x) carry their payload; scalar Values are not node-sets
                if last in ("Boolean", "Number", "Text"):
                    return TOP
                return args[0] if args else TOP
            fid = f.get("rid") or f.get("id")
            if fid in self.summ:
                out = self.apply(fid, args)
                self.effects(fid, e["args"], args, env)
                return out
            for a_ in e["args"]:
                # a vector handed by `&mut` to a function without a summary: nothing is known about it afterwards
                if str(a_.get("ty", "")).startswith("&mut") and is_vec_type(a_.get("ty")):
                    r_ = self._root(a_)
                    if r_ is not None and r_ in env:
                        env[r_] = BOT
            if e.get("mac", "").startswith("vec"):
                return TOP if len(args) <= 1 else BOT
            if last in ("new",) and "Vec" in path:
                return TOP
            if last in ("from", "into", "try_from", "branch", "from_residual", "box_assume_init_into_vec_unsafe", "into_vec"):
                # vec![x] expands to into_vec(Box<[x]>): a one-element vector
                if e.get("mac", "").startswith("vec") or "into_vec" in last:
                    return TOP
                return args[0] if args else TOP
            if fid in self.facts.fns:
                g = self.facts.fns[fid]
                if is_nodeish(g.get("sig", "").split("->")[-1]):
                    return BOT     # a workspace function returning nodes that has no summary (other module)
                return TOP
            if is_nodeish(e.get("ty")):
                return BOT
            return TOP
        # indirect call (function table)
        if is_nodeish(e.get("ty")):
            out = None
            for fid in self.table_fids:
                out = meet(out, self.apply(fid, args))
            return out if out is not None else BOT
        return TOP

    def method(self, e, env):
        m = e["m"]
        recv = e["recv"]
        rv = self.ev(recv, env)
        args = [self.ev(a, env) for a in e["args"]]
        root = self._root(recv)
        tracked = root is not None and root in env and is_vec_type(e.get("recvty"))
        fid = e.get("rid") or e.get("id")
        if fid in self.summ:
            full = [rv if rv is not None else TOP] + [a if a is not None else TOP for a in args]
            out = self.apply(fid, full)
            self.effects(fid, [recv] + e["args"], full, env)
            return out
        if tracked:
            cur = env.get(root, TOP)
            if m in ("sort_by_cached_key", "sort_by_key") and self._closure_is_order_key(e["args"][0]):     # both are stable sorts
                env[root] = (True, cur[1], frozenset(), cur[3])
                return TOP
            if m == "retain" and self._closure_is_set_insert_order(e["args"][0]):
                env[root] = (cur[0], True, cur[2], frozenset())
                return TOP
            if m == "dedup_by_key" and self._closure_is_order_key(e["args"][0]):
                env[root] = (cur[0], cur[0], cur[2], cur[2])
                return TOP
            if m == "reverse":
                env[root] = (False, cur[1], frozenset(), cur[3])
                return TOP
            if m == "clear":
                env[root] = TOP
                self.origin[root] = ("empty",)
                return TOP
            if m == "push":
                a0 = e["args"][0]
                ar = self._root(a0)
                org = self.origin.get(root)
                if ar in self.loopvars and org in (("empty",), ("filter", self.loopvars[ar][0])):
                    src_root, src_val = self.loopvars[ar]
                    self.origin[root] = ("filter", src_root)
                    env[root] = src_val if src_val is not None else BOT
                    return TOP
                env[root] = BOT
                self.origin.pop(root, None)
                return TOP
            if m in REMOVING_METHODS:
                return BOT if is_nodeish(e.get("ty")) and m in ("drain", "split_off") else TOP
            if m in BREAKING_METHODS:
                env[root] = BOT
                self.origin.pop(root, None)
                return TOP
            if m in READ_METHODS or m in NEUTRAL_METHODS:
                return rv if m in NEUTRAL_METHODS else TOP
            if m in ("flat_map", "map", "filter", "filter_map", "rev", "chain", "zip", "collect"):
                return BOT
            # unknown method on a tracked vector: conservative
            if e.get("recvty", "").startswith("&mut"):
                env[root] = BOT
                self.unknown.append(m)
            return BOT if is_nodeish(e.get("ty")) else TOP
        if m in NEUTRAL_METHODS or m in ("first", "last", "get", "next", "nth", "unwrap_or", "as_deref", "peekable"):
            return rv
        # iterator adapters over a node vector: dropping elements keeps order and uniqueness, `filter(|v| set.insert(v.order()))`
        # establishes uniqueness, collect() keeps what the iterator had; anything that makes new elements or reorders is unknown
        if rv is not None and rv != TOP or (rv == TOP and self._root(recv) is not None):
            if m in ("filter", "skip", "take", "skip_while", "take_while", "step_by", "by_ref", "copied", "fuse"):
                if m == "filter" and e["args"] and self._closure_is_set_insert_order(e["args"][0]):
                    return (rv[0], True, rv[2], frozenset())
                return rv
            if m in ("collect", "to_vec", "into_vec") and is_nodeish(e.get("ty")):
                return rv
            if m == "rev":
                return (False, rv[1], frozenset(), rv[3])
        if not is_nodeish(e.get("ty")):
            return TOP
        if m in ("flat_map", "map", "filter", "filter_map", "rev", "chain", "zip", "collect") and is_nodeish(e.get("ty")):
            return BOT
        if is_nodeish(e.get("ty")) and fid in self.facts.fns:
            return BOT
        if is_nodeish(e.get("ty")) and rv is not None and m in ("ok_or", "ok_or_else", "map_err", "unwrap_or"):
            return rv
        return TOP if not is_nodeish(e.get("ty")) else BOT

    def _closure_is_order_key(self, c):
        if c.get("k") != "Closure":
            return False
        b = c["body"]
        while b.get("k") == "Block" and "expr" in b and not b.get("stmts"):
            b = b["expr"]
        return b.get("k") == "MethodCall" and b["m"] == "order" and str(b.get("path", "")).endswith("XmlNode::order")

    def _closure_is_set_insert_order(self, c):
        if c.get("k") != "Closure":
            return False
        b = c["body"]
        while b.get("k") == "Block" and "expr" in b and not b.get("stmts"):
            b = b["expr"]
        if b.get("k") == "MethodCall" and b["m"] == "insert" and "HashSet" in str(b.get("path", "")):
            a = b["args"][0]
            return a.get("k") == "MethodCall" and a["m"] == "order" and str(a.get("path", "")).endswith("XmlNode::order")
        return False


def is_vec_type(ty):
    ty = ty or ""
    return ("Vec<" in ty or "[" in ty) and "XmlNode" in ty
