"""Fact extraction and indexing.

`extract(repo)` runs the xfacts driver over the workspace in `repo` (default /repo) with a
fresh target directory and returns a `Facts` object.  Nothing of the repository is executed:
`cargo check` only type-checks; the driver dumps the typed syntax tree and the MIR.
"""
import json
import os
import re
import shutil
import subprocess
import sys
import tempfile
import time

VERIF = os.path.dirname(os.path.dirname(os.path.dirname(os.path.abspath(__file__))))
DRIVER = os.path.join(VERIF, "engine", "xfacts", "target", "release", "xfacts")
SCRATCH = os.path.join(VERIF, ".scratch")

EXPECTED_UNITS = [
    "xml_nom", "xml_parser", "xml_info", "xml_dom", "xml_xpath",
    "xq", "xe", "dump_element", "dump_xml_info", "validate_xml",
]


class BrokenCheck(Exception):
    """The checker could not analyse the tree (exit code 3)."""


def _sysroot():
    out = subprocess.run(["rustc", "+nightly", "--print", "sysroot"], capture_output=True, text=True)
    if out.returncode != 0:
        raise BrokenCheck("nightly toolchain missing: " + out.stderr)
    return out.stdout.strip()


def run_driver(workdir, outdir, cargo_args, target_dir):
    if not os.path.exists(DRIVER):
        raise BrokenCheck("driver not built: run MANIFEST.setup_cmd (%s missing)" % DRIVER)
    env = dict(os.environ)
    env["LD_LIBRARY_PATH"] = _sysroot() + "/lib:" + env.get("LD_LIBRARY_PATH", "")
    env["RUSTC_WORKSPACE_WRAPPER"] = DRIVER
    env["RUSTFLAGS"] = "-Zmir-opt-level=0 -Awarnings"
    env["CARGO_TARGET_DIR"] = target_dir
    env["XFACTS_OUT"] = outdir
    env["CARGO_NET_OFFLINE"] = "true"
    env["RUSTC_ICE"] = "0"
    env.pop("RUSTC_WRAPPER", None)
    cmd = ["cargo", "+nightly", "check", "--offline"] + cargo_args
    p = subprocess.run(cmd, cwd=workdir, env=env, capture_output=True, text=True)
    return p


def extract(repo="/repo", keep=False):
    os.makedirs(SCRATCH, exist_ok=True)
    run = tempfile.mkdtemp(prefix="run-", dir=SCRATCH)
    try:
        outdir = os.path.join(run, "facts")
        os.makedirs(outdir)
        t0 = time.time()
        p = run_driver(repo, outdir, ["--workspace", "--lib", "--examples"], os.path.join(run, "tgt"))
        if p.returncode != 0:
            raise BrokenCheck("cannot analyse: `cargo check` failed in %s\n%s" % (repo, p.stderr[-3000:]))
        units = {}
        for name in sorted(os.listdir(outdir)):
            if name.endswith(".json"):
                with open(os.path.join(outdir, name)) as f:
                    units[name[:-5]] = json.load(f)
        missing = [u for u in EXPECTED_UNITS if u not in units]
        if missing:
            raise BrokenCheck("fact files missing for units: %s" % missing)
        facts = Facts(units)
        facts.extract_s = time.time() - t0
        return facts
    finally:
        if not keep:
            shutil.rmtree(run, ignore_errors=True)


def extract_fixture(path):
    """Compile a fixture crate (positive/negative controls) through the same driver."""
    os.makedirs(SCRATCH, exist_ok=True)
    run = tempfile.mkdtemp(prefix="fix-", dir=SCRATCH)
    try:
        outdir = os.path.join(run, "facts")
        os.makedirs(outdir)
        p = run_driver(path, outdir, ["--lib"], os.path.join(run, "tgt"))
        if p.returncode != 0:
            raise BrokenCheck("fixture crate does not compile: %s\n%s" % (path, p.stderr[-3000:]))
        units = {}
        for name in sorted(os.listdir(outdir)):
            if name.endswith(".json"):
                with open(os.path.join(outdir, name)) as f:
                    units[name[:-5]] = json.load(f)
        if not units:
            raise BrokenCheck("fixture crate produced no facts: %s" % path)
        return Facts(units)
    finally:
        shutil.rmtree(run, ignore_errors=True)


# ------------------------------------------------------------------------------------------

def _split_top(s):
    out, depth, cur = [], 0, ""
    for ch in s:
        if ch in "(<[":
            depth += 1
        elif ch in ")>]":
            depth -= 1
        if ch == "," and depth == 0:
            out.append(cur.strip())
            cur = ""
        else:
            cur += ch
    if cur.strip():
        out.append(cur.strip())
    return out


def _norm_ty(t):
    t = re.sub(r"for<[^>]*>\s*", "", t)
    t = re.sub(r"'\w+\s*", "", t)
    t = re.sub(r"(\w+::)+", "", t)
    return t.replace(" ", "")


def _dyn_args(cn):
    m = re.search(r"as std::ops::Fn(?:Mut|Once)?<\((.*)\)>>::call", cn)
    if not m:
        return None
    return [_norm_ty(x) for x in _split_top(m.group(1))]


def _fn_params(sig):
    m = re.search(r"fn\((.*)\)(\s*->.*)?$", sig)
    if not m:
        return None
    inner = m.group(1)
    # cut at the matching close paren of the parameter list
    depth, end = 0, len(inner)
    return [_norm_ty(x) for x in _split_top(inner)]


def _sig_compatible(site, params):
    if site is None or params is None:
        return True
    if len(site) != len(params):
        return False
    for a, b in zip(site, params):
        if a == b:
            continue
        if re.fullmatch(r"&?(mut)?[A-Z]", a):
            continue
        return False
    return True


PANIC_PATHS = (
    "core::panicking::", "std::rt::begin_panic", "std::rt::panic_fmt", "core::panicking::panic",
)


class Facts:
    def __init__(self, units):
        self.units = units
        self.fns = {}        # id -> fn record
        self.by_path = {}    # canonical path -> fn record
        self.adts = {}       # path -> adt
        self.consts = {}     # id -> named constant (path, body)
        self.consts_by_path = {}
        self.impls = []
        self.traits = {}
        self.impls_of = {}   # trait item id -> [fn id]
        for uname, u in units.items():
            for c in u.get("consts", []):
                self.consts[c["id"]] = c
                self.consts_by_path[c["path"]] = c
            for f in u["fns"]:
                f["crate"] = uname
                self.fns[f["id"]] = f
                if f["path"] in self.by_path:
                    # closures in generic fns etc. keep first; paths are for humans
                    pass
                self.by_path.setdefault(f["path"], f)
                if "trait_item_id" in f:
                    self.impls_of.setdefault(f["trait_item_id"], []).append(f["id"])
            for a in u["adts"]:
                a["crate"] = uname
                self.adts[a["path"]] = a
            for i in u["impls"]:
                i["crate"] = uname
                self.impls.append(i)
            for t in u["traits"]:
                t["crate"] = uname
                self.traits[t["path"]] = t
        self._edges = None
        self._name_cache = {}

    # ----------------------------------------------------------------- lookup helpers

    def fn(self, path):
        f = self.by_path.get(path)
        if f is None:
            raise BrokenCheck("missing anchor: function %s" % path)
        return f

    def fn_opt(self, path):
        return self.by_path.get(path)

    def find_fns(self, pred):
        return [f for f in self.fns.values() if pred(f)]

    def name_of(self, fid_or_ref):
        """Canonical (definer-side) path for a workspace fn id, else the given path."""
        return self.fns[fid_or_ref]["path"] if fid_or_ref in self.fns else fid_or_ref

    def callee_name(self, c):
        """Canonical name of a callee record {path,id,rpath?,rid?}: resolved impl if known."""
        rid = c.get("rid") or c.get("id")
        if rid in self.fns:
            return self.fns[rid]["path"]
        return c.get("rpath") or c.get("path")

    def callee_id(self, c):
        return c.get("rid") or c.get("id")

    def loc(self, f, line=None):
        return "%s:%s" % (f["file"], line if line is not None else f["line"])

    def is_workspace(self, fid):
        return fid in self.fns

    # ----------------------------------------------------------------- MIR helpers

    def blocks(self, f):
        m = f.get("mir")
        return m["blocks"] if m else []

    def mir_calls(self, f):
        """Yield (bb index, terminator) for every Call terminator in non-cleanup blocks."""
        for i, b in enumerate(self.blocks(f)):
            if b.get("cleanup"):
                continue
            t = b["term"]
            if t["k"] == "Call":
                yield i, t

    # ----------------------------------------------------------------- call graph

    def edges(self):
        """fn id -> list of edges {to: id-or-None, name, kind, line, bb}.

        kinds: call (direct resolved), cha (trait method expanded to workspace impls),
               mention (fn item / closure passed or stored as a value), dyn (indirect call
               site: edges to address-taken fns are added by callers who need them).
        """
        if self._edges is not None:
            return self._edges
        edges = {}
        addr_taken = set()
        for fid, f in self.fns.items():
            out = []
            for bi, b in enumerate(self.blocks(f)):
                if b.get("cleanup"):
                    continue
                for st in b["stmts"]:
                    for m in st.get("mentions", []):
                        tid = m.get("rid") or m.get("id")
                        out.append({"to": tid, "name": self._mname(m), "kind": "mention",
                                    "line": st.get("ln"), "bb": bi})
                        for fw in m.get("fwd", []):
                            out.append({"to": fw["id"], "name": fw["path"], "kind": "fwd", "line": st.get("ln"), "bb": bi})
                        if st.get("addr_taken"):
                            addr_taken.add(tid)
                t = b["term"]
                if t["k"] != "Call":
                    continue
                c0 = t.get("callee")
                stores = bool(c0) and (c0.get("rpath") or c0["path"]).startswith("std::boxed::Box::<T>::new")
                for m in t.get("mentions", []):
                    tid = m.get("rid") or m.get("id")
                    out.append({"to": tid, "name": self._mname(m), "kind": "store" if stores else "mention",
                                "line": t.get("ln"), "bb": bi})
                    for fw in m.get("fwd", []):
                        out.append({"to": fw["id"], "name": fw["path"], "kind": "fwd", "line": t.get("ln"), "bb": bi})
                c = t.get("callee")
                if c is None:
                    # a call through a fn pointer: the pointer's type gives the parameter list of the possible targets
                    out.append({"to": None, "name": "<indirect %s>" % t.get("indirect"), "kind": "dyn",
                                "line": t.get("ln"), "bb": bi,
                                "sig": _fn_params(str(t.get("indirect"))) if "fn(" in str(t.get("indirect")) else None})
                    continue
                cn = c.get("rpathargs") or c.get("pathargs") or ""
                if "dyn " in cn and re.search(r"as std::ops::Fn(Mut|Once)?<", cn):
                    out.append({"to": None, "name": cn, "kind": "dyn", "line": t.get("ln"), "bb": bi,
                                "sig": _dyn_args(cn)})
                    continue
                if (c.get("rpath") or c["path"]).startswith("std::boxed::Box::<T>::new"):
                    for m in t.get("mentions", []):
                        addr_taken.add(m.get("rid") or m.get("id"))
                for fw in c.get("fwd", []):
                    out.append({"to": fw["id"], "name": self.name_of(fw["id"]) if fw["id"] in self.fns else fw["path"],
                                "kind": "fwd", "line": t.get("ln"), "bb": bi, "via": self.callee_name(c)})
                tid = self.callee_id(c)
                resolved = ("rid" in c) or c.get("res") is True
                if "trait" in c and not ("rid" in c):
                    # unresolved or default trait method: expand to impls in the workspace (CHA)
                    impls = self.impls_of.get(c["id"], [])
                    for iid in impls:
                        out.append({"to": iid, "name": self.fns[iid]["path"], "kind": "cha",
                                    "line": t.get("ln"), "bb": bi, "via": c["path"]})
                    # the default body (if any) is also a possible target
                    out.append({"to": c["id"], "name": self.callee_name(c), "kind": "call",
                                "line": t.get("ln"), "bb": bi, "resolved": resolved})
                else:
                    out.append({"to": tid, "name": self.callee_name(c), "kind": "call",
                                "line": t.get("ln"), "bb": bi, "resolved": resolved})
            edges[fid] = out
        self._edges = edges
        self.addr_taken = addr_taken
        return edges

    def dyn_targets(self, e):
        """Address-taken workspace functions whose parameter list is compatible with the
        argument tuple of the indirect call site (generic parameters act as wildcards)."""
        out = []
        for a in sorted(self.addr_taken):
            f = self.fns.get(a)
            if f is None:
                continue
            if e.get("sig") is None or _sig_compatible(e["sig"], _fn_params(f.get("sig", ""))):
                out.append(a)
        return out

    def _mname(self, m):
        tid = m.get("rid") or m.get("id")
        if tid in self.fns:
            return self.fns[tid]["path"]
        return m.get("rpath") or m.get("path")

    def family(self, root):
        """The function `root` (path or record) together with the non-public functions of its crate all of whose callers are
        already in the family: the pieces a maintainer splits a long function into (`XmlElement::node` -> `push_attributes`,
        `push_content`).  Rules anchored to `root` read the bodies of the whole family."""
        f = self.fn(root) if isinstance(root, str) else root
        if not hasattr(self, "_callers"):
            self._callers = {}
            for fid, es in self.edges().items():
                for e in es:
                    if e["to"] in self.fns and e["kind"] in ("call", "cha", "fwd", "mention", "store"):
                        self._callers.setdefault(e["to"], set()).add(fid)
        fam = {f["id"]}
        changed = True
        while changed:
            changed = False
            for gid, g in self.fns.items():
                if gid in fam or g["crate"] != f["crate"] or "body" not in g or g["kind"] not in ("Fn", "AssocFn") or g.get("derived"):
                    continue
                if not str(g.get("vis", "")).startswith("Restricted") or " as " in g["path"]:
                    continue
                cs = {c for c in self._callers.get(gid, ()) if c != gid}
                # closures of the function itself do not count as outside callers
                cs = {c for c in cs if self.fns[c].get("parent") != g["path"]}
                if cs and all(c in fam or self.fns[c].get("parent") in {self.fns[x]["path"] for x in fam} for c in cs):
                    fam.add(gid)
                    changed = True
        return [self.fns[x] for x in sorted(fam, key=lambda i: (i != f["id"], self.fns[i]["path"]))]

    def root_of(self, f):
        """The function whose piece f is: a non-public, non-trait function with exactly one calling function is named after
        that caller (repeatedly), so that a verdict keyed by `XmlAttribute::set_values` keeps its key when part of the body
        moves into a private `adopt_values`."""
        self.family(f)        # builds self._callers
        cur, n = f, 0
        while n < 4 and str(cur.get("vis", "")).startswith("Restricted") and " as " not in cur["path"] and cur["kind"] in ("Fn", "AssocFn"):
            cs = {c for c in self._callers.get(cur["id"], ()) if c != cur["id"] and self.fns[c].get("parent") != cur["path"]}
            # closures of one function count as that function
            cs = {self.by_path[self.fns[c]["parent"]]["id"] if self.fns[c].get("parent") in self.by_path and self.fns[c]["kind"] == "Closure" else c for c in cs}
            if len(cs) != 1:
                break
            cur = self.fns[next(iter(cs))]
            n += 1
        return cur

    def reachable(self, roots, follow_dyn=True, stop=None):
        """Set of workspace fn ids reachable from roots (ids) along all edge kinds.

        Indirect call sites reach every address-taken workspace function (coarse but sound
        for this code base: the only stored functions are the XPath function table and the
        three closures of XmlNamedNodeMap).
        Returns (set, parent map) where parent[id] = (pred id, edge)."""
        edges = self.edges()
        seen = set()
        parent = {}
        work = []
        for r in roots:
            if r in self.fns and r not in seen:
                seen.add(r)
                work.append(r)
        while work:
            cur = work.pop()
            for e in edges.get(cur, []):
                targets = []
                if e["kind"] == "dyn":
                    if follow_dyn:
                        targets = self.dyn_targets(e)
                elif e["kind"] == "store":
                    targets = []
                elif e["to"] in self.fns:
                    targets = [e["to"]]
                for t in targets:
                    if stop and stop(t):
                        continue
                    if t not in seen:
                        seen.add(t)
                        parent[t] = (cur, e)
                        work.append(t)
        return seen, parent

    def path_to(self, parent, fid):
        chain = [fid]
        while fid in parent:
            fid = parent[fid][0]
            chain.append(fid)
        return [self.fns[c]["path"] for c in reversed(chain)]


# ------------------------------------------------------------------------------------------
# tree walking helpers for the typed syntax tree

def walk(node):
    """Pre-order generator over every dict node of a typed tree."""
    stack = [node]
    while stack:
        n = stack.pop()
        if isinstance(n, dict):
            yield n
            for k, v in n.items():
                if k == "mir":
                    continue
                if isinstance(v, (dict, list)):
                    stack.append(v)
        elif isinstance(n, list):
            for x in reversed(n):
                stack.append(x)


def calls_in(node):
    """Every Call / MethodCall node with a resolved callee record."""
    for n in walk(node):
        k = n.get("k")
        if k == "MethodCall" and "path" in n:
            yield n
        elif k == "Call":
            f = n.get("f")
            if isinstance(f, dict) and f.get("k") == "Path" and "path" in f:
                yield n


def call_target(n):
    """(callee record) for a Call or MethodCall node."""
    if n.get("k") == "MethodCall":
        return n
    return n["f"]
