"""Positive / negative controls (fixture crate) — filled in per rule."""


def run(prop, res, tier):
    return
