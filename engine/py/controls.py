"""Controls for the thorough tier: the check must fire on the seeded changes of its property.

The catalogue is /verif/mutants/<ID>-*.patch (written while building the rules) and /verif/seeded/<ID>-*/patch.diff (written by
independent sub-agents who saw only the property text; each confirmed to compile, pass the 603 pinned tests and break the
property).  For every patch that still applies to /repo's *current working tree*, the tree is copied to a scratch directory
under $TMPDIR, patched, analysed by the same quick check, and removed again.  What is recorded: which rule instance
reported it.  A patch that no longer applies (the code it touches has changed) is listed as such and not counted.

Negative controls: /verif/benign/<ID>-r*/patch.diff are behaviour-preserving refactorings (same provenance: sub-agents that
saw only the property text).  They are run the same way and the wanted outcome is silence.

The controls do not change the verdict on /repo (they say something about the checker); only a check that detects none of
its applicable controls is treated as broken (exit 3).
"""
import concurrent.futures
import glob
import json
import os
import re
import shutil
import subprocess
import tempfile

from facts import BrokenCheck

VERIF = os.path.dirname(os.path.dirname(os.path.dirname(os.path.abspath(__file__))))


def catalogue(prop):
    out = []
    for p in sorted(glob.glob(os.path.join(VERIF, "mutants", prop + "-*.patch"))):
        out.append((os.path.basename(p)[:-6], p, "catalogue"))
    for p in sorted(glob.glob(os.path.join(VERIF, "seeded", prop + "-*", "patch.diff"))):
        meta = os.path.join(os.path.dirname(p), "meta.json")
        ok = True
        if os.path.exists(meta):
            with open(meta) as f:
                ok = json.load(f).get("confirmed", True)
        if ok:
            out.append((os.path.basename(os.path.dirname(p)), p, "independent"))
    return out


def negative_catalogue(prop):
    """behaviour-preserving refactorings written for this property (benign/<ID>-r*/patch.diff): the check must stay silent"""
    out = []
    for p in sorted(glob.glob(os.path.join(VERIF, "benign", prop + "-*", "patch.diff"))):
        meta = os.path.join(os.path.dirname(p), "meta.json")
        ok = True
        if os.path.exists(meta):
            with open(meta) as f:
                ok = json.load(f).get("tests_pass", True)
        if ok:
            out.append((os.path.basename(os.path.dirname(p)), p, "refactoring"))
    return out


def _one(prop, name, patch, origin, repo):
    base = tempfile.mkdtemp(prefix="xmlrs-ctl-")
    wt = os.path.join(base, "repo")
    try:
        r = subprocess.run(["rsync", "-a", "--exclude", "/target", "--exclude", "/.git", repo.rstrip("/") + "/", wt + "/"],
                           capture_output=True, text=True)
        if r.returncode != 0:
            return {"control": name, "origin": origin, "status": "copy-failed", "detail": r.stderr[-200:]}
        a = subprocess.run(["git", "apply", "--unsafe-paths", "--directory", wt, patch], capture_output=True, text=True, cwd="/")
        if a.returncode != 0:
            # git apply outside a work tree: fall back to patch(1)
            a = subprocess.run(["patch", "-p1", "-s", "-f", "-d", wt, "-i", patch], capture_output=True, text=True)
        if a.returncode != 0:
            return {"control": name, "origin": origin, "status": "does-not-apply-to-current-tree"}
        env = dict(os.environ)
        env["VERIF_TIER"] = "quick"
        p = subprocess.run([os.path.join(VERIF, "check"), prop, "--repo", wt, "--no-evidence", "--tier", "quick"],
                           capture_output=True, text=True, cwd=VERIF, env=env)
        keys = ["%s %s" % k for k in re.findall(r"^  (\S+) (.*?) at ", p.stdout, re.M)]
        if p.returncode == 1:
            st = "detected"
        elif p.returncode == 0:
            st = "missed"
        else:
            st = "not-analysable"
            keys = re.findall(r"^BROKEN.*$", p.stdout, re.M)[:1]
        return {"control": name, "origin": origin, "status": st, "reported_by": keys[:3]}
    finally:
        shutil.rmtree(base, ignore_errors=True)


def run(prop, res, tier, repo="/repo"):
    if tier != "thorough" or os.environ.get("VERIF_NO_CONTROLS"):
        return
    cat = catalogue(prop)
    neg = negative_catalogue(prop)
    out, nout = [], []
    jobs = int(os.environ.get("VERIF_JOBS", "6"))
    with concurrent.futures.ThreadPoolExecutor(max_workers=jobs) as ex:
        futs = [ex.submit(_one, prop, n, p, o, repo) for n, p, o in cat]
        nfuts = [ex.submit(_one, prop, n, p, o, repo) for n, p, o in neg]
        for f in futs:
            out.append(f.result())
        for f in nfuts:
            r = f.result()
            # for a refactoring the wanted outcome is silence
            r["status"] = {"missed": "silent", "detected": "false-alarm"}.get(r["status"], r["status"])
            nout.append(r)
    napplied = [r for r in nout if r["status"] in ("silent", "false-alarm", "not-analysable")]
    res.extra["negative_controls"] = {
        "what": "behaviour-preserving refactorings (helpers extracted, guard clauses, matches!, constants named, arms merged) written by "
                "sub-agents that saw only the property text; the 603 pinned tests pass with each; this check must stay silent on them",
        "catalogue": len(neg), "applied": len(napplied), "silent": len([r for r in napplied if r["status"] == "silent"]),
        "not_silent": [r["control"] for r in napplied if r["status"] != "silent"],
        "results": nout,
    }
    if neg:
        print("negative controls %s: %d refactorings, %d applicable, %d silent%s"
              % (prop, len(neg), len(napplied), len([r for r in napplied if r["status"] == "silent"]),
                 "" if all(r["status"] == "silent" for r in napplied)
                 else "; NOT silent (a defect of this checker, not of /repo): " + ", ".join(r["control"] for r in napplied if r["status"] != "silent")))
    applied = [r for r in out if r["status"] in ("detected", "missed", "not-analysable")]
    det = [r for r in applied if r["status"] == "detected"]
    res.extra["controls"] = {
        "what": "seeded changes that break this property while compiling and passing the pinned tests; each applied to a scratch "
                "copy of the current working tree and analysed by this check",
        "catalogue": len(cat), "applied": len(applied), "detected": len(det),
        "missed": [r["control"] for r in applied if r["status"] == "missed"],
        "results": out,
    }
    print("controls %s: %d in catalogue, %d applicable to the current tree, %d detected%s"
          % (prop, len(cat), len(applied), len(det),
             "" if len(det) == len(applied) else "; missed: " + ", ".join(r["control"] for r in applied if r["status"] != "detected")))
    if applied and not det:
        raise BrokenCheck("%s detects none of its %d applicable controls" % (prop, len(applied)))
