"""Sets of Unicode scalar values as sorted lists of closed intervals."""

MAXCP = 0x10FFFF
SUR_LO, SUR_HI = 0xD800, 0xDFFF


def norm(iv):
    iv = sorted((a, b) for a, b in iv if a <= b)
    out = []
    for a, b in iv:
        if out and a <= out[-1][1] + 1:
            out[-1] = (out[-1][0], max(out[-1][1], b))
        else:
            out.append((a, b))
    return tuple(out)


class CS:
    """Immutable set of code points (surrogates are never members: Rust `char`)."""
    __slots__ = ("iv",)

    def __init__(self, iv=()):
        self.iv = norm(iv)

    @staticmethod
    def of(*items):
        iv = []
        for it in items:
            if isinstance(it, tuple):
                iv.append(it)
            elif isinstance(it, str):
                for ch in it:
                    iv.append((ord(ch), ord(ch)))
            else:
                iv.append((it, it))
        return CS(iv) & UNIVERSE

    def __or__(self, o):
        return CS(self.iv + o.iv)

    def __and__(self, o):
        out = []
        i = j = 0
        a, b = self.iv, o.iv
        while i < len(a) and j < len(b):
            lo = max(a[i][0], b[j][0])
            hi = min(a[i][1], b[j][1])
            if lo <= hi:
                out.append((lo, hi))
            if a[i][1] < b[j][1]:
                i += 1
            else:
                j += 1
        return CS(out)

    def __invert__(self):
        out = []
        prev = 0
        for a, b in self.iv:
            if a > prev:
                out.append((prev, a - 1))
            prev = b + 1
        if prev <= MAXCP:
            out.append((prev, MAXCP))
        return CS(out) & UNIVERSE

    def __sub__(self, o):
        return self & ~o

    def __eq__(self, o):
        return isinstance(o, CS) and self.iv == o.iv

    def __hash__(self):
        return hash(self.iv)

    def __bool__(self):
        return bool(self.iv)

    def __contains__(self, cp):
        if isinstance(cp, str):
            cp = ord(cp)
        for a, b in self.iv:
            if a <= cp <= b:
                return True
        return False

    def size(self):
        return sum(b - a + 1 for a, b in self.iv)

    def min(self):
        return self.iv[0][0]

    def __repr__(self):
        return "{" + ",".join(("#x%X" % a) if a == b else ("#x%X-#x%X" % (a, b)) for a, b in self.iv) + "}"

    def to_json(self):
        return [[a, b] for a, b in self.iv]


UNIVERSE = CS([(0, SUR_LO - 1), (SUR_HI + 1, MAXCP)])
EMPTY = CS()


def partition(sets):
    """Coarsest partition of UNIVERSE such that every given set is a union of cells.
    Returns list of CS cells (sorted by smallest member)."""
    cuts = {0, SUR_LO, SUR_HI + 1, MAXCP + 1}
    for s in sets:
        for a, b in s.iv:
            cuts.add(a)
            cuts.add(b + 1)
    cuts = sorted(cuts)
    segs = []
    for i in range(len(cuts) - 1):
        a, b = cuts[i], cuts[i + 1] - 1
        if a >= SUR_LO and b <= SUR_HI:
            continue
        segs.append((a, b))
    # group segments by membership signature
    sig = {}
    sets = list(sets)
    for a, b in segs:
        key = tuple(a in s for s in sets)
        sig.setdefault(key, []).append((a, b))
    cells = [CS(v) for v in sig.values()]
    cells.sort(key=lambda c: c.min())
    return cells


def show_cp(cp):
    if 0x21 <= cp <= 0x7E:
        return chr(cp)
    return "#x%X" % cp
