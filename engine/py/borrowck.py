"""RefCell borrow conflicts that are visible in the shape of one function.

A `RefMut<T>` obtained by `x.borrow_mut()` lives until the end of the statement it is a temporary of (method-call receivers
are evaluated before the arguments) or, when bound with `let`, until the end of the block.  While it lives, any borrow of the
*same cell* panics ("already mutably borrowed" / "already borrowed").  Cells are not tracked individually; the rule works
with the type of the cell's content:

  site:      M = <recv>.borrow_mut().m(args..)   or   let g = <recv>.borrow_mut(); <later statements of the block>
  conflict:  a call inside args / a later statement whose callee, transitively over the resolved call graph, borrows a
             RefCell<T> of the same T (a shared outer borrow conflicts with inner borrow_mut only)

A conflict between two *different* cells of one type is a false alarm of this abstraction; such sites are listed with a
reason in SAME_TYPE_OTHER_CELL.
"""
import re

from common import Finding
from facts import BrokenCheck
import staleidx

SAME_TYPE_OTHER_CELL = {
    "xml_info::XmlAttribute::set_values|std::vec::Vec<XmlAttributeValue>":
        "the inner borrow reads the value list of `tree`, the attribute that was just parsed from the new text; the outer "
        "borrow_mut is on self.values",
}


def _cell(n):
    if n.get("k") != "MethodCall" or n["m"] not in ("borrow", "borrow_mut", "try_borrow", "try_borrow_mut"):
        return None, None
    m = re.match(r"^std::cell::RefCell::<(.*)>::(borrow|borrow_mut|try_borrow|try_borrow_mut)$", str(n.get("pathargs", "")))
    if not m:
        return None, None
    return m.group(1), m.group(2).endswith("mut")


class Borrows:
    def __init__(self, facts):
        self.facts = facts
        self.trees = {}
        self.any, self.mut = {}, {}
        for fid, f in facts.fns.items():
            if "body" not in f:
                continue
            seq = staleidx._walk_parents(f["body"])
            self.trees[fid] = seq
            a, m = set(), set()
            for n, _, _ in seq:
                t, is_mut = _cell(n)
                if t:
                    a.add(t)
                    if is_mut:
                        m.add(t)
            self.any[fid], self.mut[fid] = a, m
        edges = facts.edges()
        changed = True
        while changed:
            changed = False
            for fid in list(self.any):
                for e in edges.get(fid, []):
                    tos = [e["to"]] if e["to"] else (facts.dyn_targets(e) if e["kind"] == "dyn" else [])
                    for t in tos:
                        if t in self.any:
                            if not self.any[t] <= self.any[fid]:
                                self.any[fid] |= self.any[t]
                                changed = True
                            if not self.mut[t] <= self.mut[fid]:
                                self.mut[fid] |= self.mut[t]
                                changed = True

    def callee_ids(self, n):
        if n.get("k") == "MethodCall":
            c = n
        elif n.get("k") == "Call" and isinstance(n.get("f"), dict):
            c = n["f"]
        else:
            return []
        cid = c.get("rid") or c.get("id")
        out = [cid] if cid in self.any else []
        if "trait" in c and not c.get("rid"):
            out += [i for i in self.facts.impls_of.get(c.get("id"), []) if i in self.any]
        return out

    def conflicts_in(self, expr, cell, outer_mut):
        """Calls / borrows inside `expr` that may borrow RefCell<cell> in a conflicting mode."""
        out = []
        for n, _, _ in staleidx._walk_parents(expr):
            t, is_mut = _cell(n)
            if t == cell and (outer_mut or is_mut):
                out.append((n, "borrows the cell type directly"))
                continue
            for cid in self.callee_ids(n):
                s = self.any[cid] if outer_mut else self.mut[cid]
                if cell in s:
                    out.append((n, "calls %s, which may borrow it" % self.facts.fns[cid]["path"]))
                    break
        return out

    def sites(self, fid):
        """[(outer borrow node, cell type, conflicting node, why)] and the number of live-borrow sites examined."""
        f = self.facts.fns[fid]
        seq = self.trees[fid]
        found, n_sites = [], 0
        for i, (n, pi, slot) in enumerate(seq):
            # temporaries: <..>.borrow_mut().m(args)
            if n.get("k") == "MethodCall" and isinstance(n.get("recv"), dict):
                t, is_mut = _cell(n["recv"])
                if t and n.get("args"):
                    n_sites += 1
                    for a in n["args"]:
                        for c, why in self.conflicts_in(a, t, is_mut):
                            found.append((n["recv"], t, c, why))
            # let-bound guards
            if n.get("s") == "Let" and isinstance(n.get("init"), dict):
                t, is_mut = _cell(n["init"])
                named = any(q.get("p") == "Bind" and not str(q.get("name", "")).startswith("_") for q, _, _ in staleidx._walk_parents(n.get("pat", {})))
                if t and named and pi is not None:
                    n_sites += 1
                    # later statements of the same block
                    blk = seq[pi][0]
                    stmts = blk.get("stmts", []) if blk.get("k") == "Block" else []
                    later = False
                    for s_ in stmts + ([{"e": blk["expr"]}] if "expr" in blk else []):
                        if s_ is n:
                            later = True
                            continue
                        if not later:
                            continue
                        for c, why in self.conflicts_in(s_, t, is_mut):
                            found.append((n["init"], t, c, why))
        return found, n_sites


def rule(facts, res, rule_name, fids, floor=20):
    b = Borrows(facts)
    st = res.rule(rule_name, instances=0, reasoned=0)
    for fid in sorted(fids, key=lambda i: facts.fns[i]["path"] if i in facts.fns else ""):
        if fid not in b.trees:
            continue
        f = facts.fns[fid]
        if f["crate"] not in ("xml_info", "xml_dom", "xml_xpath", "xml_parser", "xml_nom", "xq", "xe") or "::tests::" in f["path"]:
            continue
        found, n = b.sites(fid)
        st["instances"] += n
        seen = set()
        for outer, cell, c, why in found:
            key = "%s|%s" % (f["path"], cell)
            if key in seen:
                continue
            seen.add(key)
            # a reason written for a function also covers the private piece of it the borrows moved into
            if key in SAME_TYPE_OTHER_CELL or "%s|%s" % (facts.root_of(f)["path"], cell) in SAME_TYPE_OTHER_CELL:
                st["reasoned"] += 1
                res.oblige(1, True)
                continue
            res.oblige(1, False)
            res.add(Finding(rule_name, key, "%s holds a borrow of a RefCell<%s> (line %s) while it %s (line %s): if it is the same cell "
                            "the inner borrow panics" % (f["path"], cell, outer.get("ln"), why, c.get("ln")), f["file"], c.get("ln"), {}))
        res.oblige(max(0, n - len(seen)), True)
    if st["instances"] < floor:
        raise BrokenCheck("%s: %d live-borrow sites examined (floor %d)" % (rule_name, st["instances"], floor))
    return st
