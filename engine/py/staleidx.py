"""Index freshness.

An index into a vector that was looked up by search (position / child_index / DocumentOrder::get ...) is only valid
until the vector is shifted.  Rule: between the lookup that produces an index and the Vec::insert / remove / split_off /
[] that consumes it there is no call that may shift a vector of the same element type (remove, insert, retain, drain,
truncate, pop ... anywhere below the callee in the resolved call graph).

    let i = self.child_index(id);   value.remove_from_parent();   children.insert(i, value)      <- stale
    value.remove_from_parent();     let i = self.child_index(id); children.insert(i, value)      <- fresh

Producer, shifter and consumer must lie on one path: two nodes in different arms of the same if / match are skipped.
"""
import re

from common import Finding
from facts import BrokenCheck

SHIFT = ("remove", "insert", "retain", "drain", "truncate", "pop", "swap_remove", "clear", "split_off", "dedup", "dedup_by",
         "dedup_by_key", "retain_mut")
CONSUME = ("insert", "remove", "split_off", "swap_remove", "swap", "drain", "truncate", "get", "get_mut")
SEARCH = ("position", "rposition", "binary_search", "binary_search_by", "binary_search_by_key")


def _elem(pathargs):
    m = re.match(r"^std::vec::Vec::<(.*)>::(\w+)$", pathargs or "")
    if not m:
        return None, None
    inner = m.group(1)
    # strip a trailing allocator argument
    depth = 0
    for i, ch in enumerate(inner):
        if ch in "<([":
            depth += 1
        elif ch in ">)]":
            depth -= 1
        elif ch == "," and depth == 0:
            inner = inner[:i]
            break
    return inner.strip(), m.group(2)


def _walk_parents(node, parent=None, slot=None, out=None):
    """-> list of (node, parent_index, slot) in source order; parent_index into the same list."""
    import guards
    out = []

    def go(n, pi, slot):
        if isinstance(n, dict):
            me = len(out)
            out.append((n, pi, slot))
            k = n.get("k")
            order = None
            if k == "MethodCall":
                order = ["recv", "args"]
            elif k == "Call":
                order = ["f", "args"]
            elif k == "If":
                order = ["cond", "then", "else"]
            elif k == "Match":
                order = ["scrut", "arms"]
            elif k == "Block":
                order = ["stmts", "expr"]
            elif "s" in n:
                order = ["pat", "init", "e", "else"]
            keys = list(n.keys())
            if order:
                keys = [x for x in order if x in n] + [x for x in keys if x not in order]
            for x in keys:
                v = n[x]
                if x == "mir" or not isinstance(v, (dict, list)):
                    continue
                if isinstance(v, list):
                    for j, y in enumerate(v):
                        go(y, me, "%s#%d" % (x, j))
                else:
                    go(v, me, x)
        elif isinstance(n, list):
            for j, y in enumerate(n):
                go(y, pi, "%s#%d" % (slot, j))
    go(node, None, None)
    return out


def _exclusive(seq, a, b):
    """Are nodes a and b (indices) in different branches of one if / match?"""
    def chain(i):
        c = []
        while i is not None:
            n, p, slot = seq[i]
            c.append((p, slot))
            i = p
        return c
    ca = {p: s for p, s in chain(a) if p is not None}
    for p, s in chain(b):
        if p in ca and ca[p] != s:
            k = seq[p][0].get("k")
            if k == "If" and {ca[p], s} == {"then", "else"}:
                return True
            if k == "Match" and ca[p].startswith("arms#") and s.startswith("arms#"):
                return True
            return False
    return False


class Analysis:
    def __init__(self, facts, crates=("xml_info", "xml_dom")):
        self.facts = facts
        self.crates = crates
        self.direct = {}
        self.trees = {}
        for fid, f in facts.fns.items():
            if "body" not in f:
                continue
            seq = _walk_parents(f["body"])
            self.trees[fid] = seq
            sh = set()
            for n, _, _ in seq:
                if n.get("k") == "MethodCall":
                    el, m = _elem(n.get("pathargs"))
                    if el and m in SHIFT:
                        sh.add(el)
            self.direct[fid] = sh
        # closure over the call graph
        edges = facts.edges()
        self.shifts = {fid: set(s) for fid, s in self.direct.items()}
        changed = True
        while changed:
            changed = False
            for fid in list(self.shifts):
                cur = self.shifts[fid]
                for e in edges.get(fid, []):
                    tos = [e["to"]] if e["to"] else (facts.dyn_targets(e) if e["kind"] == "dyn" else [])
                    for t in tos:
                        s2 = self.shifts.get(t)
                        if s2 and not s2 <= cur:
                            cur |= s2
                            changed = True
        # index producers: workspace functions returning usize / Option<usize> that search
        self.producers = set()
        for fid, seq in self.trees.items():
            f = facts.fns[fid]
            sig = f.get("sig", "")
            if not re.search(r"-> (usize|std::option::Option<usize>)\s*$", sig.strip()):
                continue
            if any(n.get("k") == "MethodCall" and n["m"] in SEARCH for n, _, _ in seq):
                self.producers.add(fid)
        changed = True
        while changed:
            changed = False
            for fid, seq in self.trees.items():
                if fid in self.producers:
                    continue
                f = facts.fns[fid]
                if not re.search(r"-> (usize|std::option::Option<usize>)\s*$", f.get("sig", "").strip()):
                    continue
                if any(self._callee(n) in self.producers for n, _, _ in seq):
                    self.producers.add(fid)
                    changed = True

    def _callee(self, n):
        if n.get("k") == "MethodCall":
            return n.get("rid") or n.get("id")
        if n.get("k") == "Call" and isinstance(n.get("f"), dict):
            return n["f"].get("rid") or n["f"].get("id")
        return None

    def _callee_shifts(self, n):
        cid = self._callee(n)
        out = set()
        if cid in self.shifts:
            out |= self.shifts[cid]
        # trait method: all workspace impls
        if n.get("k") == "MethodCall" and "trait" in n and not n.get("rid"):
            for iid in self.facts.impls_of.get(n.get("id"), []):
                out |= self.shifts.get(iid, set())
        el, m = _elem(n.get("pathargs")) if n.get("k") == "MethodCall" else (None, None)
        if el and m in SHIFT:
            out.add(el)
        return out

    def check_fn(self, fid):
        """-> (instances, [violation dict])"""
        f = self.facts.fns[fid]
        seq = self.trees[fid]
        # index locals: lid -> position of the binding's initialiser (end)
        idx = {}
        for i, (n, p, slot) in enumerate(seq):
            init = pat = None
            if n.get("s") == "Let" or n.get("k") == "Let":
                init, pat = n.get("init"), n.get("pat")
            if not init or not pat:
                continue
            sub = _walk_parents(init)
            is_idx = any((x.get("k") == "MethodCall" and x["m"] in SEARCH) or self._callee(x) in self.producers for x, _, _ in sub)
            inherited = None
            if not is_idx:
                # a re-binding of an index (`if let Some(i) = i`, `let j = i;`) keeps the age of the original lookup
                refs = [x for x, _, _ in sub if x.get("k") == "Path" and x.get("res") == "Local" and x.get("lid") in idx]
                calls = [x for x, _, _ in sub if x.get("k") in ("Call", "MethodCall")]
                if refs and not calls:
                    inherited = idx[refs[0]["lid"]]
                else:
                    continue
            names = [q for q, _, _ in _walk_parents(pat) if q.get("p") == "Bind"]
            if inherited is not None:
                for q in names:
                    idx[q.get("lid")] = inherited
                continue
            # end of initialiser in seq
            end = i
            for j in range(i + 1, len(seq)):
                # descendants of i
                k = j
                while k is not None and k != i:
                    k = seq[k][1]
                if k == i:
                    end = j
                else:
                    break
            for q in names:
                idx[q.get("lid")] = (end, q.get("name"), n.get("ln"))
        inst = 0
        viol = []
        if not idx:
            return 0, []
        for i, (n, p, slot) in enumerate(seq):
            if n.get("k") != "MethodCall":
                continue
            el, m = _elem(n.get("pathargs"))
            if not el or m not in CONSUME:
                continue
            used = [x for x, _, _ in _walk_parents(n.get("args", [])) if x.get("k") == "Path" and x.get("res") == "Local" and x.get("lid") in idx]
            if not used:
                continue
            for u in used:
                start, name, ln0 = idx[u["lid"]]
                if start >= i:
                    continue
                inst += 1
                for j in range(start + 1, i):
                    s = seq[j][0]
                    if s.get("k") not in ("Call", "MethodCall"):
                        continue
                    # skip calls that are part of the consuming call's own receiver / arguments
                    k = j
                    while k is not None and k != i:
                        k = seq[k][1]
                    if k == i:
                        continue
                    if el in self._callee_shifts(s) and not _exclusive(seq, j, i):
                        what = s.get("m") or str(s.get("f", {}).get("path"))
                        viol.append({"fn": f["path"], "index": name, "shifter": what, "consumer": m, "elem": el,
                                     "ln": s.get("ln"), "ln_use": n.get("ln"), "ln_def": ln0})
                        break
        return inst, viol


def rule(facts, res, rule_name, fn_filter, floor):
    an = Analysis(facts)
    st = res.rule(rule_name, instances=0, producers=len(an.producers))
    for fid in sorted(an.trees):
        f = facts.fns[fid]
        if not fn_filter(f):
            continue
        inst, viol = an.check_fn(fid)
        st["instances"] += inst
        res.oblige(inst - len(viol), True)
        res.oblige(len(viol), False)
        if inst:
            res.sample({"rule": rule_name, "fn": f["path"], "index_uses": inst, "stale": len(viol)}, limit=40)
        for v in viol:
            res.add(Finding(rule_name, "%s|%s|%s" % (v["fn"], v["index"], v["shifter"]),
                            "%s: index `%s` is looked up (line %s) before %s(), which may shift a Vec<%s>, and is then used by Vec::%s "
                            "(line %s): after the shift it points one slot off" % (v["fn"], v["index"], v["ln_def"], v["shifter"], v["elem"],
                                                                                     v["consumer"], v["ln_use"]), f["file"], v["ln"], {}))
    if st["instances"] < floor:
        raise BrokenCheck("%s: %d looked-up indices consumed (floor %d)" % (rule_name, st["instances"], floor))
    return st
